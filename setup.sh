#!/bin/bash
# Builds the framework from files on disk only (offline).
set -eu
cd "$(dirname "$0")"
export GOPROXY=off GONOSUMDB='*' GOFLAGS=-mod=mod GOTOOLCHAIN=auto GOWORK=off
unset GOSUMDB
mkdir -p bin evidence out
( cd harness && go build -o ../bin/verif ./cmd/verif && go build -o ../bin/protoc-gen-go google.golang.org/protobuf/cmd/protoc-gen-go )
( cd stubs/protovalidate && go build ./... )
echo "setup ok"
# Warm the shared Go build cache with the stable dependencies of generated workspaces (protobuf runtime,
# engine, stand-in validator; plain, vet, test and -race configurations). Check runs compile generated code
# against a throw-away hard-link clone of this cache, so it does not grow with use.
for id in C04 C02 C14 C17 C13; do
  VERIF_SHARED_GOCACHE=1 ./bin/verif $id quick >/dev/null 2>&1 || true
done
echo "cache warm"

#!/bin/bash
# Builds the framework from files on disk only (offline).
set -eu
cd "$(dirname "$0")"
export GOPROXY=off GONOSUMDB='*' GOFLAGS=-mod=mod GOTOOLCHAIN=auto GOWORK=off
unset GOSUMDB
mkdir -p bin evidence out
( cd harness && go build -o ../bin/verif ./cmd/verif && go build -o ../bin/protoc-gen-go google.golang.org/protobuf/cmd/protoc-gen-go )
( cd stubs/protovalidate && go build ./... )
echo "setup ok"

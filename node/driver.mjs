// Long-lived driver: reads one JSON command per line on stdin, writes one JSON reply per line.
// It loads the TypeScript modules emitted by protoc-gen-ts-client / protoc-gen-ts-server with
// Node's type stripping and exercises them. No third-party packages.
import { createInterface } from 'node:readline';
import { pathToFileURL } from 'node:url';
import http from 'node:http';

const modules = new Map();

async function load(path) {
  if (!modules.has(path)) {
    modules.set(path, await import(pathToFileURL(path).href));
  }
  return modules.get(path);
}

const handlers = {
  async ping() { return { version: process.version }; },
  async load({ path }) {
    const m = await load(path);
    return { exports: Object.keys(m).sort() };
  },
};

export function register(name, fn) { handlers[name] = fn; }
export { load, http };

const rl = createInterface({ input: process.stdin, crlfDelay: Infinity });
for await (const line of rl) {
  if (!line.trim()) continue;
  let id = null;
  try {
    const cmd = JSON.parse(line);
    id = cmd.id ?? null;
    const h = handlers[cmd.op];
    if (!h) throw new Error('unknown op ' + cmd.op);
    const res = await h(cmd);
    process.stdout.write(JSON.stringify({ id, ok: true, ...res }) + '\n');
  } catch (e) {
    process.stdout.write(JSON.stringify({ id, ok: false, error: String(e && e.stack ? e.stack.split('\n').slice(0, 4).join(' | ') : e), name: e && e.name }) + '\n');
  }
}

// Long-lived driver: reads one JSON command per line on stdin, writes one JSON reply per line.
// It loads the TypeScript modules emitted by protoc-gen-ts-client / protoc-gen-ts-server with
// Node's type stripping and exercises them. No third-party packages.
import { createInterface } from 'node:readline';
import { pathToFileURL } from 'node:url';
import http from 'node:http';

const modules = new Map();

async function load(path) {
  if (!modules.has(path)) {
    modules.set(path, await import(pathToFileURL(path).href));
  }
  return modules.get(path);
}

function lowerFirst(s) { return s ? s[0].toLowerCase() + s.slice(1) : s; }

function describeError(e) {
  if (e && typeof e === 'object') {
    return {
      name: e.name ?? null,
      ctor: e.constructor ? e.constructor.name : null,
      message: String(e.message ?? ''),
      statusCode: e.statusCode ?? null,
      body: typeof e.body === 'string' ? e.body : null,
      violations: Array.isArray(e.violations) ? e.violations : null,
    };
  }
  return { name: null, ctor: typeof e, message: String(e) };
}

// ---- TS servers ------------------------------------------------------------------------------------

const servers = new Map(); // id -> { server, port, calls, responses, routes }

function matchRoute(routes, method, pathname) {
  const segs = pathname.split('/');
  for (const r of routes) {
    if (r.method !== method) continue;
    const ts = r.path.split('/');
    if (ts.length !== segs.length) continue;
    let ok = true;
    for (let i = 0; i < ts.length; i++) {
      if (ts[i].startsWith('{') && ts[i].endsWith('}')) {
        if (segs[i] === '') { ok = false; break; }
        continue;
      }
      if (ts[i] !== segs[i]) { ok = false; break; }
    }
    if (ok) return r;
  }
  return null;
}

async function startServer({ sid, module: modPath, services, onError }) {
  const mod = await load(modPath);
  const state = { calls: [], responses: new Map(), routes: [] };
  for (const svc of services) {
    const handler = new Proxy({}, {
      get(_t, prop) {
        if (typeof prop !== 'string' || prop === 'then') return undefined;
        return async (ctx, req) => {
          state.calls.push({
            service: svc, method: prop, request: req === undefined ? null : JSON.parse(JSON.stringify(req ?? null)),
            requestTypes: shallowTypes(req), pathParams: ctx?.pathParams ?? null, headers: ctx?.headers ?? null,
          });
          const r = state.responses.get(svc + '.' + prop);
          if (!r) throw new Error('no response configured for ' + svc + '.' + prop);
          if (r.error) {
            if (r.error.kind === 'validation') throw new mod.ValidationError(r.error.violations);
            if (r.error.kind === 'api') throw new mod.ApiError(r.error.statusCode, r.error.message, r.error.body ?? '');
            throw new Error(r.error.message ?? 'boom');
          }
          return r.response;
        };
      },
    });
    const create = mod['create' + svc + 'Routes'];
    if (typeof create !== 'function') throw new Error('module exports no create' + svc + 'Routes');
    const opts = {};
    if (onError) {
      opts.onError = (err, _req) => new Response(JSON.stringify({ hooked: true, message: String(err?.message ?? err) }), { status: 599, headers: { 'Content-Type': 'application/json' } });
    }
    for (const r of create(handler, opts)) state.routes.push(r);
  }
  const server = http.createServer(async (req, res) => {
    try {
      const chunks = [];
      for await (const c of req) chunks.push(c);
      const body = Buffer.concat(chunks);
      const url = new URL(req.url, 'http://127.0.0.1');
      const route = matchRoute(state.routes, req.method, url.pathname);
      if (!route) {
        res.writeHead(404, { 'Content-Type': 'text/plain' });
        res.end('no route for ' + req.method + ' ' + url.pathname);
        return;
      }
      const headers = new Headers();
      for (const [k, v] of Object.entries(req.headers)) headers.set(k, Array.isArray(v) ? v.join(', ') : String(v));
      const init = { method: req.method, headers };
      if (req.method !== 'GET' && req.method !== 'HEAD' && req.method !== 'DELETE') init.body = body;
      else if (body.length > 0 && req.method === 'DELETE') init.body = body;
      const request = new Request('http://127.0.0.1' + req.url, init);
      const response = await route.handler(request);
      const out = Buffer.from(await response.arrayBuffer());
      const h = {};
      response.headers.forEach((v, k) => { h[k] = v; });
      res.writeHead(response.status, h);
      res.end(out);
    } catch (e) {
      res.writeHead(597, { 'Content-Type': 'text/plain' });
      res.end('driver dispatch failure: ' + String(e && e.stack ? e.stack : e));
    }
  });
  await new Promise((resolve, reject) => { server.once('error', reject); server.listen(0, '127.0.0.1', resolve); });
  state.server = server;
  state.port = server.address().port;
  servers.set(sid, state);
  return { port: state.port, routes: state.routes.map((r) => ({ method: r.method, path: r.path })) };
}

function deepFreeze(v) {
  if (v === null || typeof v !== 'object' || Object.isFrozen(v)) return v;
  Object.freeze(v);
  for (const k of Object.keys(v)) deepFreeze(v[k]);
  return v;
}

function shallowTypes(obj) {
  if (obj === null || typeof obj !== 'object' || Array.isArray(obj)) return null;
  const out = {};
  for (const [k, v] of Object.entries(obj)) out[k] = v === null ? 'null' : Array.isArray(v) ? 'array' : typeof v;
  return out;
}

// ---- TS clients ------------------------------------------------------------------------------------

async function clientCall({ module: modPath, service, method, baseURL, request, clientOptions, callOptions, capture, cannedStatus, cannedBody, cannedContentType }) {
  const mod = await load(modPath);
  const Cls = mod[service + 'Client'];
  if (typeof Cls !== 'function') throw new Error('module exports no ' + service + 'Client');
  const copts = { ...(clientOptions ?? {}) };
  let captured = null;
  if (capture) {
    copts.fetch = async (url, init) => {
      const headers = {};
      new Headers(init?.headers ?? {}).forEach((v, k) => { headers[k] = v; });
      captured = { url: String(url), method: init?.method ?? 'GET', headers, body: init?.body == null ? null : String(init.body) };
      return new Response(cannedBody ?? '{}', { status: cannedStatus ?? 200, headers: { 'Content-Type': cannedContentType ?? 'application/json' } });
    };
  }
  // what the caller passes in stays the caller's: options, header maps and the request are handed over frozen
  // (modules are strict code, so a write into them throws)
  deepFreeze(copts);
  deepFreeze(callOptions);
  deepFreeze(request);
  const client = new Cls(baseURL, copts);
  const fn = client[lowerFirst(method)];
  if (typeof fn !== 'function') throw new Error('client has no method ' + lowerFirst(method));
  try {
    const result = await fn.call(client, request, callOptions ?? undefined);
    return { result: result === undefined ? null : result, captured };
  } catch (e) {
    return { callError: describeError(e), captured };
  }
}

const handlers = {
  async ping() { return { version: process.version }; },
  async load({ path }) {
    const m = await load(path);
    return { exports: Object.keys(m).sort() };
  },
  async ts_routes({ module: modPath, service }) {
    const mod = await load(modPath);
    const create = mod['create' + service + 'Routes'];
    if (typeof create !== 'function') throw new Error('module exports no create' + service + 'Routes');
    return { routes: create({}, {}).map((r) => ({ method: r.method, path: r.path })) };
  },
  ts_server_start: startServer,
  async ts_server_respond({ sid, service, method, response, error }) {
    const s = servers.get(sid);
    if (!s) throw new Error('no server ' + sid);
    s.responses.set(service + '.' + lowerFirst(method), { response, error });
    return {};
  },
  async ts_server_calls({ sid }) {
    const s = servers.get(sid);
    if (!s) throw new Error('no server ' + sid);
    const calls = s.calls;
    s.calls = [];
    return { calls };
  },
  async ts_server_stop({ sid }) {
    const s = servers.get(sid);
    if (s) { await new Promise((r) => s.server.close(r)); servers.delete(sid); }
    return {};
  },
  ts_client_call: clientCall,
};

// The parent going away (stdin EOF) must end this process even while TS servers are listening.
process.stdin.on('end', () => process.exit(0));
process.stdin.on('close', () => process.exit(0));
const rl = createInterface({ input: process.stdin, crlfDelay: Infinity });
for await (const line of rl) {
  if (!line.trim()) continue;
  let id = null;
  try {
    const cmd = JSON.parse(line);
    id = cmd.id ?? null;
    const h = handlers[cmd.op];
    if (!h) throw new Error('unknown op ' + cmd.op);
    const res = await h(cmd);
    process.stdout.write(JSON.stringify({ id, ok: true, ...res }) + '\n');
  } catch (e) {
    process.stdout.write(JSON.stringify({ id, ok: false, error: String(e && e.stack ? e.stack.split('\n').slice(0, 4).join(' | ') : e), name: e && e.name }) + '\n');
  }
}

process.exit(0);

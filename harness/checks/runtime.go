package checks

import (
	"encoding/json"
	"fmt"
	"strings"
	"os"
	"path/filepath"

	"pgregory.net/rapid"

	"verif/harness/core"
	"verif/harness/plugin"
	"verif/harness/schema"
)

// runtimeCheck describes an outer check that builds batches of generated packages and runs
// inner properties against the emitted code.
type runtimeCheck struct {
	ID                string
	Profile           func(avoid map[string]string) *schema.Profile
	Inner             []string
	Variant           string
	ServerOnlyEvery   int
	Param             string
	Race              bool
	Batches           [2]int // quick, thorough
	PerBatch          [2]int
	Cases             [2]int
	Rule              string
	Assumptions       []string
	Prefix            string
	Extra             map[string]string
	Filter            func(s *schema.Schema, avoid map[string]string) bool                              // rejection filter on drawn schemas
	BrokenIsViolation bool                                                                              // packages that do not build/vet are violations of this property
	Prepare           func(c *core.Ctx, batch int, schemas []*schema.Schema) (map[string]string, error) // extra inner config
	Second            *runtimeCheck                                                                     // further batches of the same property
}

func (rc *runtimeCheck) run(c *core.Ctx) error {
	if err := runPinned(c, Registry[rc.ID]); err != nil {
		return err
	}
	if err := rc.runBatches(c); err != nil {
		return err
	}
	if rc.Second != nil {
		// a second group of batches under the same property (another profile / build variant)
		rc.Second.ID = rc.ID
		rule, as := c.Ev.Coverage.Rule, c.Ev.Assumptions
		if err := rc.Second.runBatches(c); err != nil {
			return err
		}
		c.Ev.Coverage.Rule = rule + " | second group: " + rc.Second.Rule
		c.Ev.Assumptions = as
	}
	return nil
}

func (rc *runtimeCheck) runBatches(c *core.Ctx) error {
	avoid := c.KF.Avoid()
	batches := c.Pick(rc.Batches[0], rc.Batches[1])
	per := c.Pick(rc.PerBatch[0], rc.PerBatch[1])
	cases := c.Pick(rc.Cases[0], rc.Cases[1])
	c.Ev.Coverage.Rule = rc.Rule
	c.Ev.Assumptions = rc.Assumptions
	prof := rc.Profile(avoid)
	variant := rc.Variant
	if variant == "" {
		variant = "both"
	}
	for b := 0; b < batches; b++ {
		var schemas []*schema.Schema
		if rc.Filter == nil {
			schemas = drawSchemas(c, prof, rc.Prefix, per, b)
		} else {
			rejected := 0
			for i := 0; len(schemas) < per && i < per*60; i++ {
				id := fmt.Sprintf("%s%04d", rc.Prefix, len(schemas))
				g := rapid.Custom(func(t *rapid.T) *schema.Schema { return schema.Generate(t, prof, id) })
				s := g.Example(c.SubSeed(b*100000 + 50000 + i))
				if rc.Filter(s, avoid) {
					schemas = append(schemas, s)
				} else {
					rejected++
				}
			}
			c.Ev.Class("generator:rejected_by_filter", rejected)
		}
		for _, s := range schemas {
			countAvoided(c, s, avoid)
			for _, tg := range s.Tags {
				// what the generator produced, by schema (the distribution the check actually ran on)
				if i := strings.Index(tg, ":"); i < 0 || !strings.ContainsAny(tg[i:], "0123456789") {
					c.Ev.Class("schema:"+tg, 1)
				}
			}
		}
		extra := rc.Extra
		if rc.Prepare != nil {
			ex, err := rc.Prepare(c, b, schemas)
			if err != nil {
				return err
			}
			extra = ex
		}
		spec := &batchSpec{Name: fmt.Sprintf("%s-%d", rc.ID, b), Variant: variant, Schemas: schemas, Param: rc.Param, Race: rc.Race, ServerOnlyEvery: rc.ServerOnlyEvery,
			Checks: rc.Inner, Cases: cases, Extra: extra}
		out, err := runBatch(c, spec)
		if err != nil {
			if ic, ok := err.(*innerCrash); ok {
				c.Violation("process-died", map[string]any{"property": rc.ID, "kind": "crash", "output": ic.Output}, "batch process died without a report: "+trunc(ic.Output, 1200))
				continue
			}
			return err
		}
		c.Ev.Coverage.Schemas += len(schemas)
		if rc.BrokenIsViolation {
			for _, u := range out.Broken {
				c.Violation("build-"+u.Schema.ID, &c13Case{Property: rc.ID, Kind: "go", Variant: variant, Param: rc.Param, Schema: u.Schema, Observed: goFailure(u)},
					fmt.Sprintf("emitted package (param %q) does not build/vet: %s", rc.Param, goFailure(u)))
			}
			out.Broken = nil
		}
		noteBroken(c, out)
		for i, r := range out.Races {
			c.Violation(fmt.Sprintf("data-race-%d", i), map[string]any{"property": rc.ID, "kind": "race", "report": r, "schemas": schemas},
				"the race detector reported a data race in generated code:\n"+trunc(r, 2500))
		}
		if err := reportInner(c, spec, out, ""); err != nil {
			return err
		}
	}
	return nil
}

func registerRuntime(rc *runtimeCheck) {
	register(&Check{ID: rc.ID, Run: rc.run, Replay: replayAny})
}

// replayAny dispatches a replay document by its kind ("inner" or "go"/"ts" build cases).
func replayAny(c *core.Ctx, doc json.RawMessage) (bool, string, error) {
	var k struct {
		Kind string `json:"kind"`
	}
	_ = json.Unmarshal(doc, &k)
	if k.Kind == "go" || k.Kind == "ts" {
		return replayC13(c, doc)
	}
	return replayInner(c, doc)
}

var commonAssumptions = []string{
	"requests travel through an in-memory http.RoundTripper that re-parses the request line as a server would; no real sockets",
	"generated code is compiled against a stand-in protovalidate module implementing the standard-rule subset",
	"reference model M encodes only documented behaviour; undocumented forms are skipped and counted (unspecified_skipped)",
}

func init() {
	registerRuntime(&runtimeCheck{ID: "C05", Profile: schema.ProfileCodec, Inner: []string{"c05"}, Prefix: "j", ServerOnlyEvery: 2,
		Batches: [2]int{1, 10}, PerBatch: [2]int{96, 64}, Cases: [2]int{120, 400},
		Rule:        "cases = (schema from the codec profile with every RPC on an explicit route) x RPC x (request value, response value). The generated Go server is driven with raw HTTP: the request body is the reference model's encoding of the request value, the handler returns the response value. Oracle: handler-visible request == value (accepted form) and the response body tree == model encoding (sent form), compared field by field incl. un-annotated fields. Non-trivial = request or response type carries an annotation at any depth, or the value is presence-sensitive; distinct by (RPC, request value, response value). Contexts are counted in classes request:ctx:* / response:ctx:*.",
		Assumptions: commonAssumptions})
	registerRuntime(&runtimeCheck{ID: "C02", Profile: schema.ProfileServerTransport, Inner: []string{"c02", "c02ts"}, Prefix: "u", Variant: "server", Prepare: prepareTS,
		Batches: [2]int{1, 10}, PerBatch: [2]int{64, 64}, Cases: [2]int{200, 600},
		Rule:        "cases = (schema with path variables and query-annotated fields of every URL kind on every verb, incl. repeated query fields) x RPC x raw HTTP request: URL values per kind drawn from {clearly valid canonical forms, clearly invalid (non-numeric, fractional, out of range, empty), grey (only judged for no-5xx)}, canonical or fully percent-encoded segments, missing/present query parameters x body in {absent, zero-length, {}, object/wire message carrying only the non-URL fields} x content type {JSON, binary}. Oracle = reference binder B: handler-visible request == body fields + URL values, or 400 whose violations name an offending field and no dispatch. Non-trivial = body verb with a body carrying other fields, or >= 1 offending URL value / missing required parameter; distinct by (request line, body).",
		Assumptions: append([]string{"grey URL spellings (+5, 0x10, T, inf, leading spaces) are generated but only checked for no panic / no 5xx", "repeated occurrences of a singular query parameter are not generated (first/last-wins is undocumented)"}, commonAssumptions...)})
	registerRuntime(&runtimeCheck{ID: "C09", Profile: schema.ProfileHeaders, Inner: []string{"c09", "c09ts"}, Prefix: "h", Variant: "server", Prepare: prepareTS,
		Batches: [2]int{1, 10}, PerBatch: [2]int{64, 64}, Cases: [2]int{250, 800},
		Rule:        "cases = (schema with service- and method-level header declarations: required/optional x type {string,integer,number,boolean,array,unset} x format {uuid,email,date-time,date,time,unset}, overriding) x RPC x header value set (absent, empty, must-accept, must-reject per type/format incl. non-UTF-8, grey) x body valid / undecodable. Oracle = reference header validator H with documented merge semantics: dispatch iff every required header is in its must-accept set, else 400 with exactly one violation per offending header even when the body is undecodable; grey values only judged for no-5xx; one case in five is a request written from the published OpenAPI header parameters alone (required ones with well-formed values, no others), which must be dispatched. Non-trivial = a required header with a format or non-string type, an override, or >= 2 offending headers; distinct by (request line, header set).",
		Assumptions: append([]string{"must-accept / must-reject sets come from RFC 4122, RFC 3339 and sebuf's documentation (time = HH:MM:SS); everything else is grey", "service/method declarations whose names differ only in case are skipped (override semantics undocumented)"}, commonAssumptions...)})
	registerRuntime(&runtimeCheck{ID: "C10", Profile: schema.ProfileErrors, Inner: []string{"c10", "c10ts", "c10tssrv"}, Prefix: "e", Prepare: prepareTS,
		Second: &runtimeCheck{Profile: schema.ProfileServerTransport, Inner: []string{"c10url"}, Prefix: "q", Variant: "server",
			Batches: [2]int{1, 6}, PerBatch: [2]int{48, 64}, Cases: [2]int{100, 400},
			Rule: "server-only schemas with path variables and (repeated, renamed) query parameters x raw requests carrying exactly one unconvertible URL value or lacking a required query parameter; oracle: 400 ValidationError in the request's content type whose violation names the proto field (not the parameter name)"},
		Batches: [2]int{1, 10}, PerBatch: [2]int{48, 64}, Cases: [2]int{250, 800},
		Rule:        "cases = (schema with buf.validate rules on top-level, nested, repeated and map-value fields, required headers, custom *Error messages) x RPC x error source {header violation, rule violation, plain error, sebuf Error, wrapped sebuf Error, handler-returned ValidationError (+wrapped: status and body must agree), custom *Error message (+wrapped)} x content type {JSON, binary} x error hook {none, returns nil, returns message, sets status, sets header, writes body, combinations}; the call goes through the generated Go client; the emitted TypeScript server is driven over raw HTTP with handler Errors (500 {message}), handler ValidationErrors (400, same violations), missing required headers (400, one violation each, no dispatch) and an onError hook. Oracle = documented error contract E: status, hook header, body decoded in the request's content type (message equality / violation field names = dotted proto paths or header names computed by the reference validator), and client error type (errors.As ValidationError / Error, or an error carrying status or body). Non-trivial = a hook is installed, binary content type, or a nested violation path; distinct by (case, wire body).",
		Assumptions: append([]string{"rule violations come from the stand-in validator (standard-rule subset); subscripts in field paths are ignored when comparing"}, commonAssumptions...)})
	registerRuntime(&runtimeCheck{ID: "C11", Profile: schema.ProfileCodec, Inner: []string{"c11", "c11client", "c11ts"}, Prefix: "f", Prepare: prepareTS, ServerOnlyEvery: 4,
		Batches: [2]int{1, 12}, PerBatch: [2]int{128, 64}, Cases: [2]int{200, 1000},
		Rule:        "server cases = (schema from the codec profile: every message shape with a custom decoder) x body-carrying RPC x structure-aware mutation of the model-encoded valid body {a field replaced by a value invalid in every accepted form (wrong JSON type, non-numeric / fractional / overflowing numbers, text invalid in the declared bytes/timestamp encoding, at depth <= 3), truncation at any offset, trailing garbage, null/array/scalar at top level, nesting to 200000, invalid UTF-8, duplicate keys, 1e999999, hundreds of bytes of non-ASCII text the decoder quotes back, random bytes, random / truncated protobuf wire data} x content types incl. parameters, unknown and empty. Oracle: no panic, status in {200,400}, a 400 body is a ValidationError with >= 1 violation and no dispatch, bodies invalid in every accepted form are never dispatched, dispatched binary bodies equal the reference decoding, latency within 100x the unit's median (re-checked). Client cases = arbitrary (status, content type, body kind) served by a stub transport to the generated Go client: returns value or error, never panics, never hangs (20 s), never reports success for status >= 400 or a transport failure. Non-trivial = wrong-type mutation or a message with a custom decoder (server); any non-valid body (client); distinct by case text.",
		Assumptions: append([]string{"the deciding search is rapid's structure-aware mutation in both tiers; native coverage-guided fuzzing of generated packages is not registered (per-run packages have no stable corpus)", "duplicate keys, huge numbers and invalid UTF-8 are only judged for clean rejection or faithful dispatch, not for a fixed verdict"}, commonAssumptions...)})
	registerRuntime(&runtimeCheck{ID: "C17", Profile: schema.ProfileConcurrency, Inner: []string{"c17"}, Prefix: "r", Race: true,
		Second: &runtimeCheck{Profile: schema.ProfileMock, Inner: []string{"c17mock"}, Prefix: "k", Variant: "server", Param: "generate_mock=true", Race: true,
			Filter: func(s *schema.Schema, avoid map[string]string) bool {
				return avoid["mock_unsupported_fields"] == "" || schema.MockCompilable(s)
			},
			Batches: [2]int{1, 4}, PerBatch: [2]int{24, 32}, Cases: [2]int{20, 60},
			Rule: "the generated server backed by the emitted mock implementation (generate_mock=true): random multisets of 8-40 valid calls over all routes and services of the package at parallelism {2,4,8,16} under the race detector; mock answers are random, so the oracle is that every call answered 200 alone is answered 200 in the crowd, nothing panics and the race detector stays silent"},
		Batches: [2]int{1, 8}, PerBatch: [2]int{32, 32}, Cases: [2]int{40, 120},
		Rule:        "cases = (multi-service, multi-method schema with distinct per-route required headers and URL parameters) x random multiset of 10-80 calls (route, request, per-call header options present/absent, content type) x parallelism in {1,2,4,8,16,32}; calls run concurrently through shared generated clients against one shared generated server in a binary built with -race; handlers are pure functions of the request (incl. deterministic failures). Oracle: no race detector report, and every call's response/error equals the result of the same call issued alone on a fresh server and fresh clients. Non-trivial = multiset touching >= 2 routes at parallelism >= 4; distinct by (parallelism, call list).",
		Assumptions: append([]string{"schedules are sampled by the Go scheduler, not enumerated: a race-free run says nothing beyond the executions seen (weakest claim of the set)", "in-memory transport: the generated client/server code runs concurrently, the kernel network stack does not"}, commonAssumptions...)})
	registerRuntime(&runtimeCheck{ID: "C20", Profile: schema.ProfileMock, Inner: []string{"c20"}, Prefix: "o", Variant: "server", Param: "generate_mock=true", Race: true,
		BrokenIsViolation: true,
		Filter: func(s *schema.Schema, avoid map[string]string) bool {
			return avoid["mock_unsupported_fields"] == "" || schema.MockCompilable(s)
		},
		Batches: [2]int{1, 10}, PerBatch: [2]int{112, 64}, Cases: [2]int{60, 300},
		Rule:        "cases = (schema generated with generate_mock=true: response fields of the kinds/cardinalities the mock generator handles today plus every kind it skips, nested and map fields, several services, field_examples incl. unparsable entries) x RPC x valid request (JSON or binary) x repeated invocations. Oracle: the package incl. *_http_mock.pb.go builds and vets; the generated server backed by NewMock<Service>Server answers 200; the body decodes into the response type and is the documented JSON form of it; a field declaring examples holds one of the parsable ones. Non-trivial = response type with fields; distinct by (request, response body).",
		Assumptions: append([]string{"while KF-C20-1 is open, schemas whose response types use field shapes the mock generator cannot compile are rejected by the generator filter (counted in classes) and demonstrated by the pinned replay", "validation of mock responses against the OpenAPI response schema is performed by C06's machinery on the same kind of bodies, not repeated here"}, commonAssumptions...)})
	registerRuntime(&runtimeCheck{ID: "C06", Profile: schema.ProfileContractRules, Inner: []string{"c06"}, Prefix: "g", Prepare: prepareOpenAPI,
		Batches: [2]int{1, 10}, PerBatch: [2]int{64, 64}, Cases: [2]int{100, 400},
		Rule:        "cases = (schema from the contract profile: codec annotations, URL parameters of every kind, headers) x RPC x (request value, response value) x mode {success, handler error -> default response, malformed body -> 400, request refused by its buf.validate rules (field- or message-level) -> 400}; the Go client's request body and the Go server's response body are captured on the wire together with the path, query and header values as sent. Oracle: Python jsonschema (Draft 2020-12, $refs resolved in the service's document) against the operation's requestBody / response / parameter schemas, parameters deserialised per the simple/form defaults, plus a walker that reports wire properties no applicable subschema describes; each successful request is sent again under a Content-Type the server does not know (or none) and what it answers under application/json is validated the same way; converse: the JSON form of default request/response messages satisfies their component schemas. Non-trivial = annotated request/response type or an error response; distinct by wire traffic.",
		Assumptions: append([]string{"format is an annotation in 2020-12 and is not asserted", "the TypeScript client's request bodies are validated by C08's runs against the same schemas, not here"}, commonAssumptions...)})
	registerRuntime(&runtimeCheck{ID: "C08", Profile: schema.ProfileInterop, Inner: []string{"c08"}, Prefix: "i", Prepare: prepareTS,
		Batches: [2]int{1, 8}, PerBatch: [2]int{32, 48}, Cases: [2]int{40, 200},
		Rule:        "cases = (schema from the interop profile: routes combining path variables with query parameters, several services per file, service- and method-level headers, codec annotations) x RPC x pair {TS client -> Go server, Go client -> TS server, TS client -> TS server} x (request, response) values restricted to the JSON-representable contract form x header options (raw headers, typed helper properties on client and call options). The emitted .ts modules are imported in Node 22 (load failure = violation); the TS server runs behind node:http with a template-matching dispatcher over its RouteDescriptors; the Go server listens on loopback. Oracle: the handler of the same RPC saw the caller's request and the caller got the handler's response, compared through the message types on the contract JSON form; required headers are validated by the Go server, so a helper that sets another header name yields 400. Non-trivial = route with path variable and query parameter on a bodiless verb, or a typed header helper; distinct by (pair, request, response).",
		Assumptions: append([]string{"Node's type stripping executes the emitted TypeScript; type errors are invisible (no tsc offline)", "values are limited to |int| <= 2^53 and finite floats: what JavaScript numbers can carry"}, commonAssumptions...)})
	registerRuntime(&runtimeCheck{ID: "C07", Profile: schema.ProfileContract, Inner: []string{"c07"}, Prefix: "y", Prepare: prepareTS, ServerOnlyEvery: 2,
		Batches: [2]int{1, 8}, PerBatch: [2]int{80, 64}, Cases: [2]int{80, 300},
		Rule:        "cases = (schema from the contract profile) x RPC x value x source {JSON the generated Go server returns, contract-form request body the Go server accepts, object the generated TS server passes to its handler (request sent by the generated Go client)}. The declarations of *_client.ts and *_server.ts are read by a parser of exactly the emitted subset (interfaces, string-literal unions, object-literal unions, intersections, Record<>, arrays, ?, | null; method signatures of client classes) and the value must inhabit the declared type structurally, with every property on the wire declared at that position; the two plugins' declarations of the same type must be equal. Non-trivial = every judged value (distinct by wire text).",
		Assumptions: append([]string{"no TypeScript compiler offline: inhabitation is decided by a structural checker over the emitted declaration subset; a declaration it cannot parse is an infrastructure error (exit 2), never a violation"}, commonAssumptions...)})
	registerRuntime(&runtimeCheck{ID: "C03", Profile: schema.ProfileRoutes, Inner: []string{"c03", "c02ts"}, Prefix: "n", Prepare: prepareTS,
		Batches: [2]int{1, 8}, PerBatch: [2]int{48, 64}, Cases: [2]int{25, 80},
		Rule:        "cases = (service with base_path in {absent, /a, /a/, /, multi-segment} x method config {verb only, path only, both; absent/defaulted paths only while the recorded finding is closed} x templates with 0-3 variables first/last/adjacent x verbs x method-name shapes x Go package name != proto package tail) x RPC x request with every URL-bound field non-default. Observed dynamically: the Go client's request line and body (recording RoundTripper), the Go server's routing of that request (which handler ran), the TS client's request through an injected fetch, the TS server's RouteDescriptors, the OpenAPI operation. Oracle: same verb, same path, same query parameters, body fields in the same place, exactly one TS route (this RPC's) matches, OpenAPI template/verb/path parameters/requestBody agree. Non-trivial = RPC with a path variable or query parameter, or a defaulted config; distinct by request line.",
		Assumptions: append([]string{"agreement is observed on concrete requests (values substituted), not by comparing template strings, so differences in spelling that route identically are not flagged"}, commonAssumptions...)})
	registerRuntime(&runtimeCheck{ID: "C01", Profile: schema.ProfileTransport, Inner: []string{"c01"}, Prefix: "t",
		Batches: [2]int{1, 10}, PerBatch: [2]int{64, 64}, Cases: [2]int{150, 500},
		Rule:        "cases = (schema from the transport profile: verbs, base paths, 0-3 path variables of every URL kind, query parameters, body fields of every kind/cardinality, JSON-mapping annotations) x RPC x (request value incl. reserved URL characters, non-ASCII, numeric extremes; response value) x content type {application/json, application/x-protobuf, application/octet-stream} set per client or per call x base URL with/without trailing slash. The generated Go client calls the generated Go server through an in-memory transport. Oracle: exactly one handler call of the same RPC, norm(sent)==seen, norm(returned)==received (norm only for JSON). Non-trivial = URL-bound value with reserved/non-ASCII characters or >= 9 digits, or a non-JSON content type, or an annotated body; distinct by (RPC, content type, request, response).",
		Assumptions: append([]string{"required query parameters are drawn non-zero: the client documents zero-value elision"}, commonAssumptions...)})
}

// prepareOpenAPI emits the JSON OpenAPI documents of every schema of a batch into a directory the
// inner engine reads, and tells it where the jsonschema oracle script lives.
func prepareOpenAPI(c *core.Ctx, batch int, schemas []*schema.Schema) (map[string]string, error) {
	dir := filepath.Join(c.Scratch, fmt.Sprintf("openapi-%d", batch))
	for _, s := range schemas {
		_, raw, msg, err := openapiDocs(c, s, "json")
		if err != nil {
			return nil, err
		}
		if msg != "" {
			fmt.Printf("note: schema %s: %s (left to C12/C16)\n", s.ID, msg)
			continue
		}
		for name, content := range raw {
			p := filepath.Join(dir, s.ID, name)
			if err := os.MkdirAll(filepath.Dir(p), 0o755); err != nil {
				return nil, err
			}
			if err := os.WriteFile(p, []byte(content), 0o644); err != nil {
				return nil, err
			}
		}
	}
	return map[string]string{"openapi_dir": dir, "validator_script": filepath.Join(core.Root(), "py", "validate.py")}, nil
}

// prepareTS emits the TypeScript client and server modules of every schema of a batch.
func prepareTS(c *core.Ctx, batch int, schemas []*schema.Schema) (map[string]string, error) {
	dir := filepath.Join(c.Scratch, fmt.Sprintf("ts-%d", batch))
	for _, s := range schemas {
		req, err := schema.Request("", s)
		if err != nil {
			return nil, err
		}
		for _, pl := range []string{plugin.TSClient, plugin.TSServer} {
			res := c.Plugins.Run(pl, req, plugin.Opts{})
			if crashed, why := res.Crashed(); crashed {
				return nil, fmt.Errorf("%s crashed on %s: %s", pl, s.ID, why)
			}
			if res.Err() != "" {
				fmt.Printf("note: schema %s refused by %s (left to C12): %s\n", s.ID, pl, trunc(res.Err(), 200))
				continue
			}
			for name, content := range res.Files() {
				p := filepath.Join(dir, s.ID, pl, name)
				if err := os.MkdirAll(filepath.Dir(p), 0o755); err != nil {
					return nil, err
				}
				if err := os.WriteFile(p, []byte(content), 0o644); err != nil {
					return nil, err
				}
			}
		}
	}
	ex, err := prepareOpenAPI(c, batch, schemas)
	if err != nil {
		return nil, err
	}
	ex["ts_dir"] = dir
	ex["driver_script"] = filepath.Join(core.Root(), "node", "driver.mjs")
	return ex, nil
}

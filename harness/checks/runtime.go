package checks

import (
	"fmt"

	"verif/harness/core"
	"verif/harness/schema"
)

// runtimeCheck describes an outer check that builds batches of generated packages and runs
// inner properties against the emitted code.
type runtimeCheck struct {
	ID          string
	Profile     func(avoid map[string]string) *schema.Profile
	Inner       []string
	Variant     string
	Param       string
	Race        bool
	Batches     [2]int // quick, thorough
	PerBatch    [2]int
	Cases       [2]int
	Rule        string
	Assumptions []string
	Prefix      string
	Extra       map[string]string
}

func (rc *runtimeCheck) run(c *core.Ctx) error {
	if err := runPinned(c, Registry[rc.ID]); err != nil {
		return err
	}
	avoid := c.KF.Avoid()
	batches := c.Pick(rc.Batches[0], rc.Batches[1])
	per := c.Pick(rc.PerBatch[0], rc.PerBatch[1])
	cases := c.Pick(rc.Cases[0], rc.Cases[1])
	c.Ev.Coverage.Rule = rc.Rule
	c.Ev.Assumptions = rc.Assumptions
	prof := rc.Profile(avoid)
	variant := rc.Variant
	if variant == "" {
		variant = "both"
	}
	for b := 0; b < batches; b++ {
		schemas := drawSchemas(c, prof, rc.Prefix, per, b)
		for _, s := range schemas {
			countAvoided(c, s, avoid)
		}
		spec := &batchSpec{Name: fmt.Sprintf("%s-%d", rc.ID, b), Variant: variant, Schemas: schemas, Param: rc.Param, Race: rc.Race,
			Checks: rc.Inner, Cases: cases, Extra: rc.Extra}
		out, err := runBatch(c, spec)
		if err != nil {
			if ic, ok := err.(*innerCrash); ok {
				c.Violation("process-died", map[string]any{"property": rc.ID, "kind": "crash", "output": ic.Output}, "batch process died without a report: "+trunc(ic.Output, 1200))
				continue
			}
			return err
		}
		c.Ev.Coverage.Schemas += len(schemas)
		noteBroken(c, out)
		reportInner(c, spec, out, "")
	}
	return nil
}

func registerRuntime(rc *runtimeCheck) {
	register(&Check{ID: rc.ID, Run: rc.run, Replay: replayInner})
}

var commonAssumptions = []string{
	"requests travel through an in-memory http.RoundTripper that re-parses the request line as a server would; no real sockets",
	"generated code is compiled against a stand-in protovalidate module implementing the standard-rule subset",
	"reference model M encodes only documented behaviour; undocumented forms are skipped and counted (unspecified_skipped)",
}

func init() {
	registerRuntime(&runtimeCheck{ID: "C05", Profile: schema.ProfileCodec, Inner: []string{"c05"}, Prefix: "j",
		Batches: [2]int{1, 10}, PerBatch: [2]int{64, 64}, Cases: [2]int{120, 400},
		Rule:        "cases = (schema from the codec profile with every RPC on an explicit route) x RPC x (request value, response value). The generated Go server is driven with raw HTTP: the request body is the reference model's encoding of the request value, the handler returns the response value. Oracle: handler-visible request == value (accepted form) and the response body tree == model encoding (sent form), compared field by field incl. un-annotated fields. Non-trivial = request or response type carries an annotation at any depth, or the value is presence-sensitive; distinct by (RPC, request value, response value). Contexts are counted in classes request:ctx:* / response:ctx:*.",
		Assumptions: commonAssumptions})
	registerRuntime(&runtimeCheck{ID: "C02", Profile: schema.ProfileServerTransport, Inner: []string{"c02"}, Prefix: "u", Variant: "server",
		Batches: [2]int{1, 10}, PerBatch: [2]int{64, 64}, Cases: [2]int{200, 600},
		Rule:        "cases = (schema with path variables and query-annotated fields of every URL kind on every verb, incl. repeated query fields) x RPC x raw HTTP request: URL values per kind drawn from {clearly valid canonical forms, clearly invalid (non-numeric, fractional, out of range, empty), grey (only judged for no-5xx)}, canonical or fully percent-encoded segments, missing/present query parameters x body in {absent, zero-length, {}, object/wire message carrying only the non-URL fields} x content type {JSON, binary}. Oracle = reference binder B: handler-visible request == body fields + URL values, or 400 whose violations name an offending field and no dispatch. Non-trivial = body verb with a body carrying other fields, or >= 1 offending URL value / missing required parameter; distinct by (request line, body).",
		Assumptions: append([]string{"grey URL spellings (+5, 0x10, T, inf, leading spaces) are generated but only checked for no panic / no 5xx", "repeated occurrences of a singular query parameter are not generated (first/last-wins is undocumented)"}, commonAssumptions...)})
	registerRuntime(&runtimeCheck{ID: "C09", Profile: schema.ProfileHeaders, Inner: []string{"c09"}, Prefix: "h", Variant: "server",
		Batches: [2]int{1, 10}, PerBatch: [2]int{64, 64}, Cases: [2]int{250, 800},
		Rule:        "cases = (schema with service- and method-level header declarations: required/optional x type {string,integer,number,boolean,array,unset} x format {uuid,email,date-time,date,time,unset}, overriding) x RPC x header value set (absent, empty, must-accept, must-reject per type/format incl. non-UTF-8, grey) x body valid / undecodable. Oracle = reference header validator H with documented merge semantics: dispatch iff every required header is in its must-accept set, else 400 with exactly one violation per offending header even when the body is undecodable; grey values only judged for no-5xx. Non-trivial = a required header with a format or non-string type, an override, or >= 2 offending headers; distinct by (request line, header set).",
		Assumptions: append([]string{"must-accept / must-reject sets come from RFC 4122, RFC 3339 and sebuf's documentation (time = HH:MM:SS); everything else is grey", "service/method declarations whose names differ only in case are skipped (override semantics undocumented)"}, commonAssumptions...)})
	registerRuntime(&runtimeCheck{ID: "C10", Profile: schema.ProfileErrors, Inner: []string{"c10"}, Prefix: "e",
		Batches: [2]int{1, 10}, PerBatch: [2]int{48, 64}, Cases: [2]int{250, 800},
		Rule:        "cases = (schema with buf.validate rules on top-level, nested, repeated and map-value fields, required headers, custom *Error messages) x RPC x error source {header violation, rule violation, plain error, sebuf Error, wrapped sebuf Error, handler-returned ValidationError, custom *Error message (+wrapped)} x content type {JSON, binary} x error hook {none, returns nil, returns message, sets status, sets header, writes body, combinations}; the call goes through the generated Go client. Oracle = documented error contract E: status, hook header, body decoded in the request's content type (message equality / violation field names = dotted proto paths or header names computed by the reference validator), and client error type (errors.As ValidationError / Error, or an error carrying status or body). Non-trivial = a hook is installed, binary content type, or a nested violation path; distinct by (case, wire body).",
		Assumptions: append([]string{"rule violations come from the stand-in validator (standard-rule subset); subscripts in field paths are ignored when comparing"}, commonAssumptions...)})
	registerRuntime(&runtimeCheck{ID: "C01", Profile: schema.ProfileTransport, Inner: []string{"c01"}, Prefix: "t",
		Batches: [2]int{1, 10}, PerBatch: [2]int{64, 64}, Cases: [2]int{150, 500},
		Rule:        "cases = (schema from the transport profile: verbs, base paths, 0-3 path variables of every URL kind, query parameters, body fields of every kind/cardinality, JSON-mapping annotations) x RPC x (request value incl. reserved URL characters, non-ASCII, numeric extremes; response value) x content type {application/json, application/x-protobuf, application/octet-stream} set per client or per call x base URL with/without trailing slash. The generated Go client calls the generated Go server through an in-memory transport. Oracle: exactly one handler call of the same RPC, norm(sent)==seen, norm(returned)==received (norm only for JSON). Non-trivial = URL-bound value with reserved/non-ASCII characters or >= 9 digits, or a non-JSON content type, or an annotated body; distinct by (RPC, content type, request, response).",
		Assumptions: append([]string{"required query parameters are drawn non-zero: the client documents zero-value elision"}, commonAssumptions...)})
}

package checks

import (
	"encoding/json"
	"fmt"
	"strings"
	"time"

	"pgregory.net/rapid"

	"verif/harness/core"
	"verif/harness/plugin"
	"verif/harness/rapidx"
	"verif/harness/schema"
)

// C16 — every plugin terminates with an answer for every valid descriptor set.

const (
	c16Timeout  = 20 * time.Second
	c16MaxRSSKB = 2 << 20 // 2 GiB
)

type c16Case struct {
	Property string         `json:"property"`
	Plugin   string         `json:"plugin"`
	Param    string         `json:"param"`
	Schema   *schema.Schema `json:"schema"`
	Observed string         `json:"observed,omitempty"`
}

func init() {
	register(&Check{ID: "C16", Run: runC16, Replay: replayC16})
}

func c16Eval(c *core.Ctx, s *schema.Schema, plug, param string) (bool, string, *plugin.Result, error) {
	req, err := schema.Request(param, s)
	if err != nil {
		return false, "", nil, err
	}
	if _, err := schema.Gate(req); err != nil {
		return false, "", nil, fmt.Errorf("generator bug: descriptor gate: %w", err)
	}
	res := c.Plugins.Run(plug, req, plugin.Opts{Timeout: c16Timeout})
	if res.TimedOut {
		// re-run alone before a timeout counts
		res = c.Plugins.Run(plug, req, plugin.Opts{Timeout: c16Timeout})
	}
	if crashed, why := res.Crashed(); crashed {
		return true, fmt.Sprintf("%s param=%q: %s (exit=%d wall=%s rss=%dMB) stderr: %s", plug, param, why, res.ExitCode, res.Wall.Round(time.Millisecond), res.MaxRSSKB>>10, firstLines(res.Stderr, 6)), res, nil
	}
	if res.MaxRSSKB > c16MaxRSSKB {
		return true, fmt.Sprintf("%s param=%q: peak RSS %d MB exceeds 2 GiB", plug, param, res.MaxRSSKB>>10), res, nil
	}
	return false, fmt.Sprintf("%s ok in %s", plug, res.Wall.Round(time.Millisecond)), res, nil
}

func firstLines(s string, n int) string {
	l := strings.Split(s, "\n")
	if len(l) > n {
		l = l[:n]
	}
	return strings.Join(l, " | ")
}

func c16Params(t *rapid.T, s *schema.Schema, avoid map[string]string, ev *core.Evidence) map[string]string {
	params := map[string]string{}
	mock := rapid.IntRange(0, 2).Draw(t, "mock") == 0
	if mock {
		if hasTag(s, "cycle:in_response") && avoid["mock_recursive_response"] != "" {
			ev.ExcludedBy(avoid["mock_recursive_response"]+":mock_recursive_response", 1)
		} else {
			params[plugin.GoHTTP] = "generate_mock=true"
		}
	}
	switch rapid.IntRange(0, 5).Draw(t, "fmt") {
	case 0:
		params[plugin.OpenAPI] = "format=json"
	case 1:
		params[plugin.OpenAPI] = "format=yml"
	case 2:
		params[plugin.OpenAPI] = "format=yaml"
	case 3:
		params[plugin.OpenAPI] = "format=toml"
	}
	if rapid.IntRange(0, 4).Draw(t, "paths") == 0 {
		for _, p := range []string{plugin.GoHTTP, plugin.GoClient, plugin.TSClient, plugin.TSServer} {
			if params[p] == "" {
				params[p] = "paths=source_relative"
			} else {
				params[p] += ",paths=source_relative"
			}
		}
	}
	// parameter strings protoc would pass through verbatim: bare words, trailing and doubled commas, empty
	// keys and values. A plugin may ignore or refuse them; it must still answer.
	if rapid.IntRange(0, 4).Draw(t, "oddparam") == 0 {
		p := plugin.All[rapid.IntRange(0, len(plugin.All)-1).Draw(t, "oddparam_plugin")]
		odd := rapid.SampledFrom([]string{"annotate_code", "debug", ",", "=", "a=b=c", "format=", "=json", " ", "paths", "generate_mock", "format=json,", ",format=json", "format=json,,x=1", "x"}).Draw(t, "oddparam_value")
		if params[p] != "" && rapid.Bool().Draw(t, "oddparam_append") {
			params[p] += "," + odd
		} else {
			params[p] = odd
		}
	}
	return params
}

func runC16(c *core.Ctx) error {
	ch := Registry["C16"]
	if err := runPinned(c, ch); err != nil {
		return err
	}
	avoid := c.KF.Avoid()
	total := c.Pick(1200, 8000)
	chunks := c.Pick(12, 40)
	c.Ev.Coverage.Rule = "cases = (one in four an ordinary schema from the full profile with every annotation, otherwise a degenerate schema drawn by rapid: type cycles through singular/repeated/map/oneof fields, mutual cycles, chains and nested definitions to depth 60, 100-400 fields, very long names, well-known types, empty messages/services, shared request types, missing go_package, odd identifiers; one case in two also carries one misused annotation from the C12 catalogue at a random placement, in 3 of 5 of those cases on a message that is itself the response or request type of an RPC) x plugin x parameters (generate_mock, format, paths, and malformed parameter strings: bare words, stray commas, empty keys or values); each case is one plugin process judged on exit status, stdout, stderr, wall time (20 s, re-run alone before it counts) and peak RSS (2 GiB). Non-trivial = schema has a type cycle, depth >= 8, >= 100 fields, an empty service, a well-known type or a missing go_package; distinct by (schema, plugin, parameter)."
	c.Ev.Assumptions = []string{"termination is observed with a bound (20 s, 2 GiB), not proved", "descriptor well-formedness is enforced by the generator and protodesc.NewFiles, standing in for protoc"}
	full := schema.ProfileFull(avoid)
	for k := 0; k < chunks; k++ {
		var last *c16Case
		n := 0
		res := rapidx.Check("C16", total/chunks, uint64(c.SubSeed(k)), 60*time.Second, func(t *rapid.T) {
			var s *schema.Schema
			if rapid.IntRange(0, 3).Draw(t, "annotated_schema") == 0 {
				// every fourth descriptor set is an ordinary, fully annotated one: each annotation has code paths of
				// its own in every plugin (warnings, helper tables, codec files)
				s = schema.Generate(t, full, "d0001")
				c.Ev.Class("schema_source:full_profile", 1)
			} else {
				s = schema.GenerateDegenerate(t, "d0001", avoid)
			}
			misused := ""
			if rapid.IntRange(0, 1).Draw(t, "misuse") == 0 {
				// a well-formed request may carry a misused annotation: the answer is then an error message (or
				// files, for plugins that do not check the rule), never a crash
				rule := schema.RuleCatalogue[rapid.IntRange(0, len(schema.RuleCatalogue)-1).Draw(t, "misused_rule")]
				pl := schema.Placements[rapid.IntRange(0, len(schema.Placements)-1).Draw(t, "misused_at")]
				schema.InjectShape = -1
				// half of them on a message that is itself an RPC's response or request type
				schema.InjectAsBody = rapid.SampledFrom([]int{-1, -1, 0, 0, 1}).Draw(t, "misused_as_body")
				inj := schema.Inject(t, s, rule, pl)
				schema.InjectAsBody = -1
				if inj.Shape == "as_rpc_body" {
					c.Ev.Class("misused_annotation:on_rpc_body", 1)
				}
				misused = inj.Rule
				c.Ev.Class("misused_annotation:"+inj.Rule, 1)
			}
			params := c16Params(t, s, avoid, c.Ev)
			n++
			nontrivial := misused != "" || hasTag(s, "cycle:") || hasTag(s, "depth:") || hasTag(s, "wide") || hasTag(s, "empty_service") || hasTag(s, "wkt") || hasTag(s, "no_go_package") || hasTag(s, "long_names")
			type out struct {
				plug   string
				failed bool
				msg    string
				err    error
			}
			results := make(chan out, len(plugin.All))
			for _, p := range plugin.All {
				go func(p string) {
					f, msg, _, err := c16Eval(c, s, p, params[p])
					results <- out{p, f, msg, err}
				}(p)
			}
			var fail *out
			for range plugin.All {
				o := <-results
				if o.err != nil {
					panic(o.err)
				}
				c.Ev.Eval(1)
				if nontrivial {
					c.Ev.Nontrivial(schemaKey(s) + "|" + o.plug + "|" + params[o.plug])
				}
				if o.failed && (fail == nil || o.plug < fail.plug) {
					oo := o
					fail = &oo
				}
			}
			for _, tg := range s.Tags {
				if strings.HasPrefix(tg, "cycle:") || strings.HasPrefix(tg, "depth:") || strings.HasPrefix(tg, "wide") || tg == "wkt" || tg == "empty_service" || tg == "no_go_package" || tg == "long_names" || tg == "wkt_empty_rpc" {
					c.Ev.Class(tg, 1)
				}
			}
			for _, p := range sortedKeys(params) {
				c.Ev.Class("param:"+p+":"+params[p], 1)
			}
			countAvoided(c, s, avoid)
			if n <= 3 {
				c.Ev.Sample(map[string]any{"schema_tags": s.Tags, "params": params, "messages": len(s.AllMessages()), "schema": s}, 3)
			}
			if fail != nil {
				last = &c16Case{Property: "C16", Plugin: fail.plug, Param: params[fail.plug], Schema: s, Observed: fail.msg}
				t.Fatalf("%s", fail.msg)
			}
		})
		c.Ev.Coverage.Schemas += res.Passed
		if res.Failed && last != nil {
			c.Violation("c16-"+last.Plugin, last, last.Observed)
		} else if res.Failed {
			return fmt.Errorf("rapid failed without a recorded case: %s", res.Message)
		}
	}
	return nil
}

func replayC16(c *core.Ctx, doc json.RawMessage) (bool, string, error) {
	var cs c16Case
	if err := json.Unmarshal(doc, &cs); err != nil {
		return false, "", err
	}
	failed, msg, _, err := c16Eval(c, cs.Schema, cs.Plugin, cs.Param)
	return failed, msg, err
}

package checks

import (
	"encoding/json"
	"fmt"
	"strings"
	"time"

	"pgregory.net/rapid"

	"verif/harness/core"
	"verif/harness/plugin"
	"verif/harness/rapidx"
	"verif/harness/schema"
)

// C12 — misused annotations stop generation; valid definitions are never refused.

type c12Case struct {
	Property  string            `json:"property"`
	Kind      string            `json:"kind"` // "injection" | "valid"
	Plugin    string            `json:"plugin"`
	Injection *schema.Injection `json:"injection,omitempty"`
	Schema    *schema.Schema    `json:"schema"`
	Observed  string            `json:"observed,omitempty"`
}

func init() { register(&Check{ID: "C12", Run: runC12, Replay: replayC12}) }

// c12Judge runs one plugin on an (already injected or valid) schema.
func c12Judge(c *core.Ctx, s *schema.Schema, plug string, inj *schema.Injection) (string, error) {
	req, err := schema.Request("", s)
	if err != nil {
		return "", err
	}
	if _, err := schema.Gate(req); err != nil {
		return "", fmt.Errorf("generator bug: gate: %w", err)
	}
	res := c.Plugins.Run(plug, req, plugin.Opts{})
	if crashed, why := res.Crashed(); crashed {
		return fmt.Sprintf("%s crashed: %s: %s", plug, why, trunc(res.Stderr, 300)), nil
	}
	if inj == nil {
		if e := res.Err(); e != "" {
			return fmt.Sprintf("%s refused a definition that breaks no documented rule: %s", plug, trunc(e, 400)), nil
		}
		return "", nil
	}
	e := res.Err()
	if e == "" {
		return fmt.Sprintf("%s accepted a definition that breaks rule %s (placement %s) and emitted %d files", plug, inj.Rule, inj.Placement, len(res.Files())), nil
	}
	if n := len(res.Files()); n > 0 {
		return fmt.Sprintf("%s reported %q but still emitted %d files", plug, trunc(e, 200), n), nil
	}
	for _, o := range inj.Offenders {
		if strings.Contains(e, o) {
			return "", nil
		}
	}
	return fmt.Sprintf("%s failed for rule %s but its message names none of %v: %q", plug, inj.Rule, inj.Offenders, trunc(e, 300)), nil
}

func c12Plugins(inj *schema.Injection) []string {
	if inj.Class == "json" {
		return []string{plugin.GoHTTP, plugin.GoClient}
	}
	return []string{plugin.GoHTTP}
}

func runC12(c *core.Ctx) error {
	ch := Registry["C12"]
	if err := runPinned(c, ch); err != nil {
		return err
	}
	avoid := c.KF.Avoid()
	perCell := c.Pick(4, 40)
	c.Ev.Coverage.Rule = "cases = valid schema (full profile) + exactly one injected rule violation from the 24-rule catalogue at a placement in {top-level message, nested message, service-less file of the same run, imported non-generated file} with random valid surroundings; judged at the plugin boundary: go-http (all rules) and go-client (JSON-mapping rules except unwrap) must report an error naming the offender and emit zero files. Converse: every base schema must be accepted by all five plugins. Every rule x placement cell is enumerated; non-trivial = placement other than top-level or a base schema that emits >= 3 files before the offender is reached; distinct by (base schema, rule, placement, plugin)."
	c.Ev.Assumptions = []string{"a rule counts as enforced when the error text names the offending message, field, oneof or enum"}
	prof := schema.ProfileFull(avoid)
	cell := 0
	for _, rule := range schema.RuleCatalogue {
		placements := schema.Placements
		if schema.RuleClass(rule) == "http" {
			placements = []string{"top"}
		}
		for _, pl := range placements {
			cell++
			sw := "c12:" + rule + ":" + pl
			if id := avoid[sw]; id != "" {
				c.Ev.ExcludedBy(id+":"+sw, perCell)
				continue
			}
			if id := avoid["c12:*:"+pl]; id != "" {
				c.Ev.ExcludedBy(id+":c12:*:"+pl, perCell)
				continue
			}
			var last *c12Case
			caseNo := 0
			res := rapidx.Check("C12", perCell, uint64(c.SubSeed(cell)), 30*time.Second, func(t *rapid.T) {
				s := schema.Generate(t, prof, "v0001")
				// converse on the base schema
				for _, p := range plugin.All {
					msg, err := c12Judge(c, s, p, nil)
					if err != nil {
						panic(err)
					}
					c.Ev.Eval(1)
					c.Ev.Class("valid:"+p, 1)
					if msg != "" {
						last = &c12Case{Property: "C12", Kind: "valid", Plugin: p, Schema: s, Observed: msg}
						t.Fatalf("%s", msg)
					}
				}
				baseFiles := len(s.AllMessages())
				schema.InjectShape = cell + caseNo
				caseNo++
				inj := schema.Inject(t, s, rule, pl)
				if inj.Shape != "" {
					c.Ev.Class("shape:"+inj.Shape, 1)
				}
				for _, p := range c12Plugins(inj) {
					msg, err := c12Judge(c, s, p, inj)
					if err != nil {
						panic(err)
					}
					c.Ev.Eval(1)
					c.Ev.Class("rule:"+rule, 1)
					c.Ev.Class("placement:"+inj.Placement, 1)
					if inj.Placement != "top" || baseFiles >= 6 {
						c.Ev.Nontrivial(schemaKey(s) + "|" + p)
					}
					if msg != "" {
						last = &c12Case{Property: "C12", Kind: "injection", Plugin: p, Injection: inj, Schema: s, Observed: msg}
						t.Fatalf("%s", msg)
					}
				}
				countAvoided(c, s, avoid)
				c.Ev.Sample(map[string]any{"injection": inj, "schema": s}, 2)
			})
			c.Ev.Coverage.Schemas += res.Passed
			if res.Failed && last != nil {
				name := "c12-valid-" + last.Plugin
				if last.Injection != nil {
					name = "c12-" + last.Injection.Rule + "-" + last.Injection.Placement + "-" + last.Plugin
				}
				c.Violation(name, last, last.Observed)
			} else if res.Failed {
				return fmt.Errorf("rapid failed without a recorded case: %s", res.Message)
			}
		}
	}
	return nil
}

func replayC12(c *core.Ctx, doc json.RawMessage) (bool, string, error) {
	var cs c12Case
	if err := json.Unmarshal(doc, &cs); err != nil {
		return false, "", err
	}
	msg, err := c12Judge(c, cs.Schema, cs.Plugin, cs.Injection)
	if err != nil {
		return false, "", err
	}
	if msg != "" {
		return true, msg, nil
	}
	return false, "plugin behaves as documented", nil
}

package checks

import (
	"encoding/json"
	"fmt"
	"google.golang.org/protobuf/types/descriptorpb"
	"strings"
	"time"

	"google.golang.org/protobuf/proto"
	"google.golang.org/protobuf/types/pluginpb"
	"pgregory.net/rapid"

	"verif/harness/core"
	"verif/harness/plugin"
	"verif/harness/rapidx"
	"verif/harness/schema"
)

// C15 — generation is a pure, order-independent function of the definitions.

type c15Case struct {
	Property  string         `json:"property"`
	Plugin    string         `json:"plugin"`
	Variation string         `json:"variation"`
	Schema    *schema.Schema `json:"schema"`
	Other     *schema.Schema `json:"other,omitempty"`
	Param     string         `json:"param,omitempty"`
	ParamAlt  string         `json:"param_alt,omitempty"`
	Observed  string         `json:"observed,omitempty"`
}

func init() { register(&Check{ID: "C15", Run: runC15, Replay: replayC15}) }

// outcome is what a plugin run produced, reduced to what must be stable.
type outcome struct {
	err   string
	files map[string]string
}

func runOutcome(c *core.Ctx, plug string, req *pluginpb.CodeGeneratorRequest, env []string) (*outcome, error) {
	res := c.Plugins.Run(plug, req, plugin.Opts{Env: env})
	if crashed, why := res.Crashed(); crashed {
		return nil, fmt.Errorf("%s crashed (%s): %s", plug, why, trunc(res.Stderr, 300))
	}
	return &outcome{err: res.Err(), files: res.Files()}, nil
}

// diffOutcome compares the files named in only (nil = all files of a) between two outcomes.
func diffOutcome(a, b *outcome, only func(name string) bool, sameSet bool) string {
	if (a.err == "") != (b.err == "") {
		return fmt.Sprintf("one run failed (%q) and the other did not (%q)", a.err, b.err)
	}
	if a.err != "" {
		return ""
	}
	for _, n := range sortedKeys(a.files) {
		if only != nil && !only(n) {
			continue
		}
		bc, ok := b.files[n]
		if !ok {
			return fmt.Sprintf("file %s missing in the second run", n)
		}
		if bc != a.files[n] {
			return fmt.Sprintf("file %s differs: %s", n, firstDiff(a.files[n], bc))
		}
	}
	if sameSet {
		for _, n := range sortedKeys(b.files) {
			if _, ok := a.files[n]; !ok {
				return fmt.Sprintf("file %s only in the second run", n)
			}
		}
	}
	return ""
}

func firstDiff(a, b string) string {
	al, bl := strings.Split(a, "\n"), strings.Split(b, "\n")
	for i := 0; i < len(al) && i < len(bl); i++ {
		if al[i] != bl[i] {
			return fmt.Sprintf("line %d: %q vs %q", i+1, trunc(al[i], 160), trunc(bl[i], 160))
		}
	}
	return fmt.Sprintf("length %d vs %d lines", len(al), len(bl))
}

// c15Variation evaluates one variation for one plugin; returns a non-empty message on disagreement.
func c15Variation(c *core.Ctx, plug, variation string, s, other *schema.Schema, param, paramAlt string) (string, error) {
	base, err := schema.Request(param, s)
	if err != nil {
		return "", err
	}
	if _, err := schema.Gate(base); err != nil {
		return "", fmt.Errorf("generator bug: gate: %w", err)
	}
	ref, err := runOutcome(c, plug, base, nil)
	if err != nil {
		return err.Error(), nil
	}
	ours := func(name string) bool { return true }
	switch variation {
	case "rerun":
		for _, env := range [][]string{{"GOMAXPROCS=1"}, {"GOMAXPROCS=4"}, {"GOMAXPROCS=16"}, nil} {
			o, err := runOutcome(c, plug, base, env)
			if err != nil {
				return err.Error(), nil
			}
			if d := diffOutcome(ref, o, nil, true); d != "" {
				return fmt.Sprintf("repeated run (%v): %s", env, d), nil
			}
		}
	case "extra_files":
		// add other's files to proto_file without generating them
		oreq, err := schema.Request(param, s, other)
		if err != nil {
			return "", err
		}
		oreq.FileToGenerate = base.FileToGenerate
		oreq.SourceFileDescriptors = base.SourceFileDescriptors
		o, err := runOutcome(c, plug, oreq, nil)
		if err != nil {
			return err.Error(), nil
		}
		if d := diffOutcome(ref, o, nil, true); d != "" {
			return "extra unrelated files in the request: " + d, nil
		}
	case "multi_invocation":
		both, err := schema.Request(param, s, other)
		if err != nil {
			return "", err
		}
		o, err := runOutcome(c, plug, both, nil)
		if err != nil {
			return err.Error(), nil
		}
		if d := diffOutcome(ref, o, ours, false); d != "" {
			return "generated together with another package: " + d, nil
		}
		// and the other way round
		both2, _ := schema.Request(param, other, s)
		o2, err := runOutcome(c, plug, both2, nil)
		if err != nil {
			return err.Error(), nil
		}
		if d := diffOutcome(ref, o2, ours, false); d != "" {
			return "generated after another package: " + d, nil
		}
		if d := diffOutcome(o, o2, nil, true); d != "" {
			return "order of packages in one invocation: " + d, nil
		}
	case "permute_files":
		if len(base.FileToGenerate) < 2 {
			return "", nil
		}
		perm := proto.Clone(base).(*pluginpb.CodeGeneratorRequest)
		n := len(perm.FileToGenerate)
		for i := 0; i < n/2; i++ {
			perm.FileToGenerate[i], perm.FileToGenerate[n-1-i] = perm.FileToGenerate[n-1-i], perm.FileToGenerate[i]
		}
		o, err := runOutcome(c, plug, perm, nil)
		if err != nil {
			return err.Error(), nil
		}
		if d := diffOutcome(ref, o, nil, true); d != "" {
			return "file_to_generate reversed: " + d, nil
		}
	case "single_file":
		// per-file invocation (protoc a.proto; protoc b.proto) against all files in one invocation: whatever a
		// single-file run emits must be byte-identical to the same file of the joint run
		if len(base.FileToGenerate) < 2 {
			return "", nil
		}
		owner := map[string]string{}
		for _, fn := range base.FileToGenerate {
			one := proto.Clone(base).(*pluginpb.CodeGeneratorRequest)
			one.FileToGenerate = []string{fn}
			var src []*descriptorpb.FileDescriptorProto
			for _, fd := range one.SourceFileDescriptors {
				if fd.GetName() == fn {
					src = append(src, fd)
				}
			}
			one.SourceFileDescriptors = src
			o, err := runOutcome(c, plug, one, nil)
			if err != nil {
				return err.Error(), nil
			}
			if d := diffOutcome(o, ref, nil, false); d != "" {
				return fmt.Sprintf("%s generated alone vs together with the package's other files: %s", fn, d), nil
			}
			// the output for a file is produced when that file is requested, not when a file that imports it is:
			// two single-file runs never emit the same output file
			for _, n := range sortedKeys(o.files) {
				if prev, dup := owner[n]; dup {
					return fmt.Sprintf("output file %s is emitted both when only %s and when only %s is requested: a file that is merely imported contributed output", n, prev, fn), nil
				}
				owner[n] = fn
			}
		}
		if ref.err == "" && len(owner) != len(ref.files) {
			return fmt.Sprintf("the files generated one by one yield %d output files, all together %d", len(owner), len(ref.files)), nil
		}
	case "param_spelling":
		alt, err := schema.Request(paramAlt, s)
		if err != nil {
			return "", err
		}
		o, err := runOutcome(c, plug, alt, nil)
		if err != nil {
			return err.Error(), nil
		}
		if d := diffOutcome(ref, o, nil, true); d != "" {
			return fmt.Sprintf("parameter %q vs %q: %s", param, paramAlt, d), nil
		}
	default:
		return "", fmt.Errorf("unknown variation %q", variation)
	}
	return "", nil
}

var c15Variations = []string{"rerun", "extra_files", "multi_invocation", "permute_files", "single_file", "param_spelling"}

// spellings returns semantics-preserving parameter pairs for a plugin.
func c15Spellings(plug string) [][2]string {
	switch plug {
	case plugin.OpenAPI:
		return [][2]string{{"", "format=yaml"}, {"format=yaml", "format=yml"}, {"format=json", " format = json "}, {"format=json", "x=1,format=json"}, {"format=json", "format=json,x=1"},
			// the position of a parameter in a longer list does not matter either
			{"format=json", "x=1,y=2,format=json"}, {"format=json", "x=1,format=json,y=2"}, {"format=yaml", "x=1,y=2,z=3,format=yaml"}}
	case plugin.GoHTTP:
		return [][2]string{{"", "generate_mock=false"}, {"generate_mock=true", "generate_mock=1"}, {"", "paths=import"}, {"generate_mock=true", "paths=import,generate_mock=true"}}
	default:
		return [][2]string{{"", "paths=import"}}
	}
}

func runC15(c *core.Ctx) error {
	ch := Registry["C15"]
	if err := runPinned(c, ch); err != nil {
		return err
	}
	avoid := c.KF.Avoid()
	total := c.Pick(100, 1500)
	chunks := c.Pick(5, 30)
	c.Ev.Coverage.Rule = "cases = (valid schema from the full profile, second schema with disjoint package) x plugin x variation in {rerun in fresh processes at GOMAXPROCS 1/4/16 (fresh map seeds), extra unrelated files in proto_file, single- vs multi-package invocation in both orders, file_to_generate reversed, each file of a multi-file package generated alone vs all together, semantics-preserving parameter spellings}; oracle = byte equality per generated file name; for files generated one by one additionally: no output file is emitted by two different single-file runs and together they yield as many files as the joint run. Non-trivial = schema emitting >= 2 files for the plugin, or with >= 3 headers, >= 2 enums, a second file, or unwrap; distinct by (schema, plugin, variation)."
	c.Ev.Assumptions = []string{"map-order nondeterminism is probabilistic: each rerun is a fresh process with a fresh hash seed", "only parameter spellings the plugins document as equivalent are compared"}
	prof := schema.ProfileFull(avoid)
	for k := 0; k < chunks; k++ {
		var last *c15Case
		n := 0
		res := rapidx.Check("C15", total/chunks, uint64(c.SubSeed(k)), 45*time.Second, func(t *rapid.T) {
			s := schema.Generate(t, prof, "a0001")
			other := schema.Generate(t, schema.ProfilePlain(avoid), "b0002")
			// keep service names distinct so per-service OpenAPI files do not collide across packages
			for _, f := range other.Files {
				for _, sv := range f.Services {
					sv.Name = "Other" + sv.Name
				}
			}
			// the next version of the same API in its own package (api.v1 / api.v2): same service, method and header
			// names. OpenAPI documents are named after the service alone, so that plugin keeps the renamed neighbour.
			var twin *schema.Schema
			if rapid.Bool().Draw(t, "twin_package") {
				if b, err := json.Marshal(s); err == nil {
					tw := &schema.Schema{}
					if json.Unmarshal([]byte(strings.ReplaceAll(string(b), s.ID, "c0002")), tw) == nil {
						twin = tw
						c.Ev.Class("neighbour:same_names_other_package", 1)
					}
				}
			}
			n++
			heads, enums := 0, len(s.AllEnums())
			for _, f := range s.Files {
				for _, sv := range f.Services {
					heads += len(sv.Headers)
					for _, m := range sv.Methods {
						heads += len(m.Headers)
					}
				}
			}
			type out struct {
				plug, variation, msg, p1, p2 string
				err                          error
			}
			var jobs []out
			for _, p := range plugin.All {
				for _, v := range c15Variations {
					o := out{plug: p, variation: v}
					if v == "param_spelling" {
						sp := c15Spellings(p)
						pair := sp[rapid.IntRange(0, len(sp)-1).Draw(t, "spelling")]
						o.p1, o.p2 = pair[0], pair[1]
					} else if p == plugin.GoHTTP && rapid.Bool().Draw(t, "mock:"+v) {
						// the mock generator keeps state across the files of an invocation
						o.p1 = "generate_mock=true"
					}
					jobs = append(jobs, o)
				}
			}
			results := make(chan out, len(jobs))
			sem := make(chan struct{}, 8)
			for _, j := range jobs {
				go func(j out) {
					sem <- struct{}{}
					defer func() { <-sem }()
					o := other
					if twin != nil && j.plug != plugin.OpenAPI {
						o = twin
					}
					j.msg, j.err = c15Variation(c, j.plug, j.variation, s, o, j.p1, j.p2)
					results <- j
				}(j)
			}
			var fail *out
			for range jobs {
				o := <-results
				if o.err != nil {
					panic(o.err)
				}
				c.Ev.Eval(1)
				c.Ev.Class("variation:"+o.variation, 1)
				if heads >= 3 || enums >= 2 || len(s.Files) > 1 || hasTag(s, "feat:unwrap") || len(s.AllMessages()) >= 6 {
					c.Ev.Nontrivial(schemaKey(s) + "|" + o.plug + "|" + o.variation)
				}
				if o.msg != "" && (fail == nil || o.plug+o.variation < fail.plug+fail.variation) {
					oo := o
					fail = &oo
				}
			}
			for _, tg := range []string{"second_file", "feat:unwrap_combined", "feat:unwrap_root_map", "feat:flatten", "header_override", "nested_type"} {
				if hasTag(s, tg) {
					c.Ev.Class("schema:"+tg, 1)
				}
			}
			if len(s.Files) > 1 {
				c.Ev.Class("schema:generate_files>=2", 1)
			}
			countAvoided(c, s, avoid)
			if n <= 2 {
				c.Ev.Sample(map[string]any{"schema": s, "variations": c15Variations, "plugins": plugin.All}, 2)
			}
			if fail != nil {
				failOther := other
				if twin != nil && fail.plug != plugin.OpenAPI {
					failOther = twin
				}
				last = &c15Case{Property: "C15", Plugin: fail.plug, Variation: fail.variation, Schema: s, Other: failOther, Param: fail.p1, ParamAlt: fail.p2, Observed: fail.msg}
				t.Fatalf("%s %s: %s", fail.plug, fail.variation, fail.msg)
			}
		})
		c.Ev.Coverage.Schemas += res.Passed
		if res.Failed && last != nil {
			if res.Flaky {
				last.Observed = "(non-deterministic across identical runs) " + last.Observed
			}
			c.Violation("c15-"+last.Plugin+"-"+last.Variation, last, last.Plugin+" "+last.Variation+": "+last.Observed)
		} else if res.Failed {
			return fmt.Errorf("rapid failed without a recorded case: %s", res.Message)
		}
	}
	return nil
}

func replayC15(c *core.Ctx, doc json.RawMessage) (bool, string, error) {
	var cs c15Case
	if err := json.Unmarshal(doc, &cs); err != nil {
		return false, "", err
	}
	// nondeterminism is probabilistic: try several times
	for i := 0; i < 5; i++ {
		msg, err := c15Variation(c, cs.Plugin, cs.Variation, cs.Schema, cs.Other, cs.Param, cs.ParamAlt)
		if err != nil {
			return false, "", err
		}
		if msg != "" {
			return true, msg, nil
		}
	}
	return false, "outputs identical", nil
}

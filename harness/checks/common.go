// Package checks holds one executable check per property.
package checks

import (
	"encoding/json"
	"fmt"
	"os"
	"path/filepath"
	"sort"
	"strings"
	"sync"

	"google.golang.org/protobuf/types/pluginpb"

	"verif/harness/core"
	"verif/harness/plugin"
	"verif/harness/schema"
)

// Check is one registered property check.
type Check struct {
	ID     string
	Run    func(c *core.Ctx) error
	Replay func(c *core.Ctx, doc json.RawMessage) (failed bool, summary string, err error)
}

// Registry maps property ids to checks.
var Registry = map[string]*Check{}

func register(ch *Check) { Registry[ch.ID] = ch }

// runPinned re-runs the pinned replays of this property's known findings. An open finding
// that still fails prints KNOWN-FINDING; a fixed finding that fails again is a violation.
func runPinned(c *core.Ctx, ch *Check) error {
	for _, f := range c.KF.ForProperty(c.Prop) {
		b, err := os.ReadFile(filepath.Join(core.Root(), f.Replay))
		if err != nil {
			return fmt.Errorf("pinned replay of %s: %w", f.ID, err)
		}
		failed, summary, err := ch.Replay(c, b)
		if err != nil {
			return fmt.Errorf("pinned replay of %s: %w", f.ID, err)
		}
		c.Ev.Eval(1)
		switch {
		case failed && f.Status == "open":
			c.Known(f)
			c.Ev.Coverage.KnownFindings = append(c.Ev.Coverage.KnownFindings, f.ID)
		case failed:
			var doc any
			_ = json.Unmarshal(b, &doc)
			c.Violation("regression-"+f.ID, doc, "finding "+f.ID+" recorded as fixed fails again: "+summary)
		case f.Status == "open":
			fmt.Printf("note: open finding %s no longer reproduces from its pinned replay\n", f.ID)
		}
	}
	return nil
}

// schemaKey is a canonical string for a schema.
func schemaKey(s *schema.Schema) string {
	b, _ := json.Marshal(s)
	return string(b)
}

func hasTag(s *schema.Schema, prefix string) bool {
	for _, t := range s.Tags {
		if strings.HasPrefix(t, prefix) {
			return true
		}
	}
	return false
}

func countAvoided(c *core.Ctx, s *schema.Schema, avoid map[string]string) {
	for sw, n := range s.Avoided {
		c.Ev.ExcludedBy(avoid[sw]+":"+sw, n)
	}
}

// runAll runs the named plugins on a request in parallel.
func runAll(set *plugin.Set, names []string, req *pluginpb.CodeGeneratorRequest, params map[string]string, o plugin.Opts) map[string]*plugin.Result {
	out := map[string]*plugin.Result{}
	var mu sync.Mutex
	var wg sync.WaitGroup
	for _, n := range names {
		wg.Add(1)
		go func(n string) {
			defer wg.Done()
			r := req
			if p, ok := params[n]; ok && p != "" {
				r2 := *req
				r2.Parameter = &p
				r = &r2
			}
			res := set.Run(n, r, o)
			mu.Lock()
			out[n] = res
			mu.Unlock()
		}(n)
	}
	wg.Wait()
	return out
}

func sortedKeys[V any](m map[string]V) []string {
	ks := make([]string, 0, len(m))
	for k := range m {
		ks = append(ks, k)
	}
	sort.Strings(ks)
	return ks
}

func trunc(s string, n int) string {
	if len(s) > n {
		return s[:n] + "…"
	}
	return s
}

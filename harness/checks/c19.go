package checks

import (
	"encoding/json"
	"errors"
	"fmt"
	"math"
	"path/filepath"
	"strconv"
	"strings"
	"time"

	"buf.build/go/protovalidate"
	"google.golang.org/protobuf/reflect/protoreflect"
	"google.golang.org/protobuf/types/dynamicpb"
	"pgregory.net/rapid"

	"verif/harness/core"
	"verif/harness/model"
	"verif/harness/oas"
	"verif/harness/rapidx"
	"verif/harness/schema"
)

// C19 — OpenAPI constraints accept exactly what the declared validation rules accept.

type c19Case struct {
	Property string         `json:"property"`
	Schema   *schema.Schema `json:"schema"`
	Field    string         `json:"field,omitempty"`
	Probe    string         `json:"probe,omitempty"`
	Observed string         `json:"observed,omitempty"`
}

func init() { register(&Check{ID: "C19", Run: runC19, Replay: replayC19}) }

// probes returns values of interest for fd given its IR rules.
func c19Probes(t *rapid.T, f *schema.Field, fd protoreflect.FieldDescriptor) []protoreflect.Value {
	r := f.Rules
	if r == nil {
		r = &schema.Rules{}
	}
	var out []protoreflect.Value
	num := func(s string) {
		add := func(x float64, bigInt string) {
			switch fd.Kind() {
			case protoreflect.Int32Kind, protoreflect.Sint32Kind, protoreflect.Sfixed32Kind:
				if x >= math.MinInt32 && x <= math.MaxInt32 {
					out = append(out, protoreflect.ValueOfInt32(int32(x)))
				}
			case protoreflect.Uint32Kind, protoreflect.Fixed32Kind:
				if x >= 0 && x <= math.MaxUint32 {
					out = append(out, protoreflect.ValueOfUint32(uint32(x)))
				}
			case protoreflect.FloatKind:
				// the neighbour of the largest finite value is an infinity: non-finite values travel as
				// strings, which is C06's subject, not a question about the published constraint
				if !math.IsInf(float64(float32(x)), 0) {
					out = append(out, protoreflect.ValueOfFloat32(float32(x)))
				}
			case protoreflect.DoubleKind:
				if !math.IsInf(x, 0) {
					out = append(out, protoreflect.ValueOfFloat64(x))
				}
			}
		}
		switch fd.Kind() {
		case protoreflect.Int64Kind, protoreflect.Sint64Kind, protoreflect.Sfixed64Kind:
			v, err := strconv.ParseInt(s, 10, 64)
			if err != nil {
				return
			}
			for _, d := range []int64{-1, 0, 1} {
				if (d < 0 && v == math.MinInt64) || (d > 0 && v == math.MaxInt64) {
					continue
				}
				out = append(out, protoreflect.ValueOfInt64(v+d))
			}
		case protoreflect.Uint64Kind, protoreflect.Fixed64Kind:
			v, err := strconv.ParseUint(s, 10, 64)
			if err != nil {
				return
			}
			for _, d := range []int64{-1, 0, 1} {
				if (d < 0 && v == 0) || (d > 0 && v == math.MaxUint64) {
					continue
				}
				out = append(out, protoreflect.ValueOfUint64(uint64(int64(v)+d)))
			}
		case protoreflect.FloatKind:
			x, _ := strconv.ParseFloat(s, 64)
			x32 := float32(x)
			// the shortest decimal of a float32 equal to the bound can fall on either side of the
			// bound's exact value: only the neighbours are probed for 32-bit floats
			add(float64(math.Nextafter32(x32, float32(math.Inf(-1)))), "")
			add(float64(math.Nextafter32(x32, float32(math.Inf(1)))), "")
		case protoreflect.DoubleKind:
			x, _ := strconv.ParseFloat(s, 64)
			add(math.Nextafter(x, math.Inf(-1)), "")
			add(x, "")
			add(math.Nextafter(x, math.Inf(1)), "")
		default:
			x, _ := strconv.ParseFloat(s, 64)
			add(x-1, "")
			add(x, "")
			add(x+1, "")
		}
	}
	for _, p := range []*string{r.Gt, r.Gte, r.Lt, r.Lte, r.NumConst} {
		if p != nil {
			num(*p)
		}
	}
	for _, s := range r.NumIn {
		num(s)
	}
	switch fd.Kind() {
	case protoreflect.StringKind:
		if !fd.IsList() && !fd.IsMap() {
			lens := map[int]bool{}
			for _, p := range []*uint64{r.MinLen, r.MaxLen} {
				if p != nil {
					for _, d := range []int{-1, 0, 1} {
						if n := int(*p) + d; n >= 0 {
							lens[n] = true
						}
					}
				}
			}
			for n := range lens {
				out = append(out, protoreflect.ValueOfString(strings.Repeat("a", n)), protoreflect.ValueOfString(strings.Repeat("é", n)), protoreflect.ValueOfString(strings.Repeat("😀", n)))
			}
			for _, s := range append(append([]string{}, r.StrIn...), "active", "Active", "123", "true", "zzz", "abc", "a1c", "12", "123", "1234", "foo-AB", "x1", "") {
				out = append(out, protoreflect.ValueOfString(s))
			}
			if r.StrConst != nil {
				out = append(out, protoreflect.ValueOfString(*r.StrConst), protoreflect.ValueOfString(*r.StrConst+"x"))
			}
		}
	}
	// a few random in-kind values
	if !fd.IsList() && !fd.IsMap() {
		for i := 0; i < 3; i++ {
			switch fd.Kind() {
			case protoreflect.Int32Kind, protoreflect.Sint32Kind, protoreflect.Sfixed32Kind:
				out = append(out, protoreflect.ValueOfInt32(rapid.Int32Range(-200, 200).Draw(t, "rnd")))
			case protoreflect.Uint32Kind, protoreflect.Fixed32Kind:
				out = append(out, protoreflect.ValueOfUint32(rapid.Uint32Range(0, 200).Draw(t, "rnd")))
			case protoreflect.Int64Kind, protoreflect.Sint64Kind, protoreflect.Sfixed64Kind:
				out = append(out, protoreflect.ValueOfInt64(rapid.Int64Range(-200, 200).Draw(t, "rnd")))
			case protoreflect.Uint64Kind, protoreflect.Fixed64Kind:
				out = append(out, protoreflect.ValueOfUint64(rapid.Uint64Range(0, 200).Draw(t, "rnd")))
			case protoreflect.FloatKind:
				out = append(out, protoreflect.ValueOfFloat32(float32(rapid.Float64Range(-200, 200).Draw(t, "rnd"))))
			case protoreflect.DoubleKind:
				out = append(out, protoreflect.ValueOfFloat64(rapid.Float64Range(-200, 200).Draw(t, "rnd")))
			}
		}
	}
	return out
}

// c19VariantProperty finds the property schema of a oneof member inside the oneOf / anyOf / allOf branches of a
// component schema (following $refs into the document).
func c19VariantProperty(doc any, node map[string]any, name string, depth int) any {
	if node == nil || depth > 6 {
		return nil
	}
	if ref := oas.Str(node["$ref"]); ref != "" {
		if t, ok := oas.ResolvePointer(doc, ref); ok {
			return c19VariantProperty(doc, oas.Obj(t), name, depth+1)
		}
		return nil
	}
	if p, ok := oas.Obj(node["properties"])[name]; ok && depth > 0 {
		return p
	}
	for _, k := range []string{"oneOf", "anyOf", "allOf"} {
		for _, b := range oas.Arr(node[k]) {
			if p := c19VariantProperty(doc, oas.Obj(b), name, depth+1); p != nil {
				return p
			}
		}
	}
	return nil
}

// wellKnownFormat is the JSON Schema format name matching a well-known string rule.
var wellKnownFormat = map[string]string{"email": "email", "uuid": "uuid", "uri": "uri", "hostname": "hostname", "ipv4": "ipv4", "ipv6": "ipv6"}

// c19Eval checks one schema; probesRun counts (field, probe) evaluations.
func c19Eval(c *core.Ctx, t *rapid.T, val *oas.Validator, s *schema.Schema, onProbe func(field string, boundary bool, key string)) (msg, field, probe string, err error) {
	docs, _, pmsg, err := openapiDocs(c, s, "json")
	if err != nil {
		return "", "", "", err
	}
	if pmsg != "" {
		return pmsg, "", "", nil
	}
	req, _ := schema.Request("", s)
	files, gerr := schema.Gate(req)
	if gerr != nil {
		return "", "", "", gerr
	}
	doc := docs["RuleService.openapi.json"]
	if doc == nil {
		return "no RuleService document", "", "", nil
	}
	docID := "c19-" + s.ID
	if err := val.Load(docID, doc); err != nil {
		return "", "", "", err
	}
	defer val.Unload(docID)
	d, derr := files.FindDescriptorByName(protoreflect.FullName(s.Pkg + ".CheckRequest"))
	if derr != nil {
		return "", "", "", derr
	}
	md := d.(protoreflect.MessageDescriptor)
	comp := oas.Obj(oas.Get(doc, "components", "schemas", "CheckRequest"))
	if comp == nil {
		return "no component schema for CheckRequest", "", "", nil
	}
	required := map[string]bool{}
	for _, r := range oas.Arr(comp["required"]) {
		required[oas.Str(r)] = true
	}
	irMsg := s.AllMessages()[s.Pkg+".CheckRequest"]
	for _, f := range irMsg.Fields {
		fd := md.Fields().ByName(protoreflect.Name(f.Name))
		prop := oas.Obj(comp["properties"])[fd.JSONName()]
		if f.Oneof != "" {
			// a member of the discriminated oneof is described inside its variant branch; its rules bind there
			if f.Rules == nil {
				continue
			}
			prop = c19VariantProperty(doc, comp, fd.JSONName(), 0)
			if prop == nil {
				continue // how the variant branches are laid out is C06's / C18's business
			}
		}
		if prop == nil {
			return fmt.Sprintf("property %s missing from the component schema", fd.JSONName()), f.Name, "", nil
		}
		wantReq := f.Rules != nil && f.Rules.Required
		if required[fd.JSONName()] != wantReq {
			return fmt.Sprintf("field %s: listed as required = %v, rules require it = %v", f.Name, required[fd.JSONName()], wantReq), f.Name, "required", nil
		}
		if f.Rules != nil && f.Rules.WellKnown != "" {
			if want, ok := wellKnownFormat[f.Rules.WellKnown]; ok {
				if got := oas.Str(oas.Obj(prop)["format"]); got != want {
					return fmt.Sprintf("field %s: rule string.%s is published with format %q, expected %q", f.Name, f.Rules.WellKnown, got, want), f.Name, "format", nil
				}
			} else if got := oas.Str(oas.Obj(prop)["format"]); f.Rules.WellKnown == "address" && (got == "ip" || got == "ipv4" || got == "ipv6") {
				return fmt.Sprintf("field %s: rule string.address (hostname or IP) is published with the narrower format %q", f.Name, got), f.Name, "format", nil
			}
			continue
		}
		judge := func(m *dynamicpb.Message, label string, boundary bool) (string, error) {
			// R: reference rule semantics, restricted to this field
			rOK := true
			if verr := protovalidate.Validate(m); verr != nil {
				var ve *protovalidate.ValidationError
				if errors.As(verr, &ve) {
					for _, v := range ve.Violations {
						els := v.Proto.GetField().GetElements()
						if len(els) > 0 && els[0].GetFieldName() == f.Name && v.Proto.GetRuleId() != "required" {
							rOK = false
						}
					}
				}
			}
			tree, eerr := model.Encode(m)
			if eerr != nil {
				return "", nil
			}
			inst, present := tree.(map[string]any)[fd.JSONName()]
			if !present {
				return "", nil // zero value: not on the wire
			}
			// a float/double property is a binary64 number: an integer literal such as 72057594037927940 is
			// the shortest decimal of 2^56 and denotes that double, so numeric keywords are read as doubles
			// (an arbitrary-precision reading would compare 72057594037927940 with 72057594037927936)
			judged := prop
			if f.Kind.IsFloat() {
				judged = asDoubles(prop)
			}
			ver, verr := val.ValidateSchema(docID, judged, toPlain(inst))
			if verr != nil {
				return "", verr
			}
			ib, _ := json.Marshal(inst)
			onProbe(f.Name, boundary, f.Name+"="+string(ib))
			if ver.Valid != rOK {
				pb, _ := json.Marshal(prop)
				return fmt.Sprintf("field %s (%s%s): value %s — rules accept: %v, OpenAPI schema accepts: %v\nschema: %s\nrules: %s\nschema errors: %s",
					f.Name, f.Kind, cardSuffix(f), ib, rOK, ver.Valid, trunc(string(pb), 400), rulesJSON(f.Rules), trunc(ver.Errors, 300)), nil
			}
			return "", nil
		}
		switch {
		case fd.IsList():
			counts := map[int]bool{0: true, 1: true, 2: true}
			for _, p := range []*uint64{f.Rules.MinItems, f.Rules.MaxItems} {
				if p != nil {
					for _, dd := range []int{-1, 0, 1} {
						if n := int(*p) + dd; n >= 0 {
							counts[n] = true
						}
					}
				}
			}
			for n := range counts {
				for _, dup := range []bool{false, true} {
					m := dynamicpb.NewMessage(md)
					l := m.Mutable(fd).List()
					for i := 0; i < n; i++ {
						k := i
						if dup && i == n-1 && n >= 2 {
							k = 0
						}
						switch fd.Kind() {
						case protoreflect.StringKind:
							l.Append(protoreflect.ValueOfString(fmt.Sprintf("v%d", k)))
						case protoreflect.Int32Kind:
							l.Append(protoreflect.ValueOfInt32(int32(k + 1)))
						case protoreflect.BoolKind:
							l.Append(protoreflect.ValueOfBool(k%2 == 0))
						default:
							l.Append(protoreflect.ValueOfFloat64(float64(k) + 0.5))
						}
					}
					if fd.Kind() == protoreflect.BoolKind && n > 2 {
						continue
					}
					if msg, err := judge(m, fmt.Sprintf("%d items dup=%v", n, dup), true); err != nil || msg != "" {
						return msg, f.Name, fmt.Sprintf("%d items dup=%v", n, dup), err
					}
				}
			}
		case fd.IsMap():
			counts := map[int]bool{0: true, 1: true}
			for _, p := range []*uint64{f.Rules.MinPairs, f.Rules.MaxPairs} {
				if p != nil {
					for _, dd := range []int{-1, 0, 1} {
						if n := int(*p) + dd; n >= 0 {
							counts[n] = true
						}
					}
				}
			}
			for n := range counts {
				m := dynamicpb.NewMessage(md)
				mp := m.Mutable(fd).Map()
				for i := 0; i < n; i++ {
					k := protoreflect.ValueOfString(fmt.Sprintf("k%d", i)).MapKey()
					if fd.MapValue().Kind() == protoreflect.StringKind {
						mp.Set(k, protoreflect.ValueOfString("v"))
					} else {
						mp.Set(k, protoreflect.ValueOfInt32(int32(i+1)))
					}
				}
				if msg, err := judge(m, fmt.Sprintf("%d pairs", n), true); err != nil || msg != "" {
					return msg, f.Name, fmt.Sprintf("%d pairs", n), err
				}
			}
		default:
			for _, pv := range c19Probes(t, f, fd) {
				m := dynamicpb.NewMessage(md)
				m.Set(fd, pv)
				if msg, err := judge(m, pv.String(), true); err != nil || msg != "" {
					return msg, f.Name, pv.String(), err
				}
			}
		}
	}
	return "", "", "", nil
}

func cardSuffix(f *schema.Field) string {
	if f.Card != schema.Singular {
		return " " + string(f.Card)
	}
	if f.Ann != nil && f.Ann.Int64Encoding == 2 {
		return " int64_encoding=NUMBER"
	}
	return ""
}

func rulesJSON(r *schema.Rules) string {
	b, _ := json.Marshal(r)
	return string(b)
}

// toPlain converts model trees (json.Number) into plain JSON-marshalable values.
func toPlain(v any) any { return v }

// asDoubles returns a copy of a schema in which every numeric literal is rewritten in a form that JSON
// readers take as a binary64 value.
func asDoubles(v any) any {
	switch t := v.(type) {
	case map[string]any:
		out := map[string]any{}
		for k, x := range t {
			switch k {
			case "const", "enum", "minimum", "maximum", "exclusiveMinimum", "exclusiveMaximum", "oneOf", "anyOf", "allOf", "items", "not":
				out[k] = asDoubles(x)
			default:
				out[k] = x
			}
		}
		return out
	case []any:
		out := make([]any, len(t))
		for i, x := range t {
			out[i] = asDoubles(x)
		}
		return out
	case json.Number:
		if f, err := strconv.ParseFloat(string(t), 64); err == nil && !math.IsInf(f, 0) {
			s := strconv.FormatFloat(f, 'e', -1, 64)
			return json.Number(s)
		}
		return t
	default:
		return v
	}
}

func runC19(c *core.Ctx) error {
	if err := runPinned(c, Registry["C19"]); err != nil {
		return err
	}
	avoid := c.KF.Avoid()
	val, err := oas.StartValidator(filepath.Join(core.Root(), "py", "validate.py"))
	if err != nil {
		return err
	}
	defer val.Close()
	total := c.Pick(400, 6000)
	chunks := c.Pick(3, 25)
	c.Ev.Coverage.Rule = "cases = (schema whose request message carries supported buf.validate rules: string min/max length, pattern (RE2 ∩ ECMA-262 subset), in, const, well-known formats; numeric gt/gte/lt/lte, in, const on every integer width/signedness and float/double incl. 64-bit as string and as NUMBER, bounds negative/zero/extreme; repeated min/max/unique; map min/max pairs; required) x field x probe value (at, just below and just above every bound - next representable float for float kinds -, ASCII / 2-byte / astral strings of boundary lengths, members and near-misses of in/const, duplicate items, pair counts, random values). Oracle: reference rule semantics R(value) == JSON Schema 2020-12 verdict of the value's JSON form against the field's property schema (python jsonschema, $refs resolved in the document); required[] membership == rule; well-known rule -> matching format. Non-trivial = every probe (all are boundary or rule-derived); distinct by (schema, field, JSON value)."
	c.Ev.Assumptions = []string{"R is the stand-in validator's implementation of the documented rule semantics (lengths in code points, comparisons in the field's own type)", "format is an annotation in JSON Schema 2020-12: only its name is compared", "zero values of implicit-presence fields are not on the wire and are not probed"}
	for k := 0; k < chunks; k++ {
		var last *c19Case
		res := rapidx.Check("C19", total/chunks, uint64(c.SubSeed(k)), 30*time.Second, func(t *rapid.T) {
			s := schema.GenerateRules(t, "x0001", avoid)
			msg, field, probe, err := c19Eval(c, t, val, s, func(field string, boundary bool, key string) {
				c.Ev.Eval(1)
				c.Ev.Nontrivial(schemaKey(s) + "|" + key)
			})
			if err != nil {
				panic(err)
			}
			for _, tg := range s.Tags {
				if strings.HasPrefix(tg, "rule:") {
					c.Ev.Class(tg, 1)
				}
			}
			countAvoided(c, s, avoid)
			c.Ev.Sample(map[string]any{"schema": s}, 2)
			if msg != "" {
				last = &c19Case{Property: "C19", Schema: s, Field: field, Probe: probe, Observed: msg}
				t.Fatalf("%s", msg)
			}
		})
		c.Ev.Coverage.Schemas += res.Passed
		if res.Failed && last != nil {
			c.Violation("c19-"+last.Field, last, last.Observed)
		} else if res.Failed {
			return fmt.Errorf("rapid failed without a recorded case: %s", res.Message)
		}
	}
	return nil
}

func replayC19(c *core.Ctx, doc json.RawMessage) (bool, string, error) {
	var cs c19Case
	if err := json.Unmarshal(doc, &cs); err != nil {
		return false, "", err
	}
	val, err := oas.StartValidator(filepath.Join(core.Root(), "py", "validate.py"))
	if err != nil {
		return false, "", err
	}
	defer val.Close()
	var msg string
	res := rapidx.Check("C19-replay", 3, 7, time.Second, func(t *rapid.T) {
		m, _, _, err := c19Eval(c, t, val, cs.Schema, func(string, bool, string) {})
		if err != nil {
			panic(err)
		}
		if m != "" {
			msg = m
			t.Fatalf("%s", m)
		}
	})
	_ = res
	return msg != "", orOK(msg, "schema constraints agree with the rules"), nil
}

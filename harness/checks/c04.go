package checks

import (
	"encoding/json"
	"fmt"
	"os"
	"path/filepath"

	"pgregory.net/rapid"

	"verif/harness/core"
	"verif/harness/schema"
)

// C04 — generated Go JSON codecs round-trip every message value.

func init() { register(&Check{ID: "C04", Run: runC04, Replay: replayInner}) }

// drawSchemas draws n schemas deterministically from the run seed.
func drawSchemas(c *core.Ctx, prof *schema.Profile, prefix string, n, salt int) []*schema.Schema {
	var out []*schema.Schema
	for i := 0; i < n; i++ {
		id := fmt.Sprintf("%s%04d", prefix, i)
		g := rapid.Custom(func(t *rapid.T) *schema.Schema { return schema.Generate(t, prof, id) })
		out = append(out, g.Example(c.SubSeed(salt*100000+i)))
	}
	if dir := os.Getenv("VERIF_DUMP_SCHEMAS"); dir != "" {
		_ = os.MkdirAll(dir, 0o755)
		for _, s := range out {
			b, _ := json.Marshal(s)
			_ = os.WriteFile(filepath.Join(dir, s.ID+".json"), b, 0o644)
		}
	}
	return out
}

func noteBroken(c *core.Ctx, out *batchOutcome) {
	for _, u := range out.Broken {
		c.Ev.Class("excluded:does_not_build(see C13)", 1)
		fmt.Printf("note: schema %s does not build or vet and is left to C13: %s\n", u.Schema.ID, trunc(firstLines(u.BuildErr+u.VetErr, 3), 300))
	}
	for _, u := range out.Rejected {
		c.Ev.Class("excluded:rejected_by_plugin(see C12)", 1)
		b, _ := json.Marshal(u.PluginErr)
		fmt.Printf("note: schema %s rejected by a plugin and is left to C12: %s\n", u.Schema.ID, trunc(string(b), 300))
	}
}

func runC04(c *core.Ctx) error {
	if err := runPinned(c, Registry["C04"]); err != nil {
		return err
	}
	avoid := c.KF.Avoid()
	batches := c.Pick(1, 12)
	per := c.Pick(64, 64)
	cases := c.Pick(150, 400)
	c.Ev.Coverage.Rule = "cases = (schema from the codec profile: every JSON-mapping annotation on the cardinalities it is accepted on, multi-word and digit field names, nested/map/oneof/optional fields) x message type x value drawn from the message descriptor (zero/absent/boundary values, presence states). Relations: (a) Unmarshal(Marshal(v)) == norm(v) with the server/client dispatch (json.Marshaler else protojson); (b) Unmarshal(model-encoded contract form) == norm(v). Non-trivial = message with >= 1 annotated construct or a presence-sensitive value (optional set to zero, empty non-nil message); distinct by (message type, value)."
	c.Ev.Assumptions = []string{"reference model M encodes only what annotations.proto / CLAUDE.md document; undocumented forms are skipped and counted", "generated code is compiled against a stand-in protovalidate module (not exercised by codecs)"}
	prof := schema.ProfileCodec(avoid)
	for b := 0; b < batches; b++ {
		schemas := drawSchemas(c, prof, "k", per, b)
		for _, s := range schemas {
			countAvoided(c, s, avoid)
			if hasTag(s, "companion_package") {
				c.Ev.Class("schema:companion_package", 1)
			}
			if hasTag(s, "second_file") {
				c.Ev.Class("schema:second_file", 1)
			}
		}
		spec := &batchSpec{Name: fmt.Sprintf("c04-%d", b), Variant: "both", Schemas: schemas, Checks: []string{"c04"}, Cases: cases}
		out, err := runBatch(c, spec)
		if err != nil {
			return err
		}
		c.Ev.Coverage.Schemas += len(schemas)
		noteBroken(c, out)
		if err := reportInner(c, spec, out, ""); err != nil {
			return err
		}
	}
	return nil
}

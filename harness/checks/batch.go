package checks

import (
	"bytes"
	"encoding/json"
	"fmt"
	"os"
	"os/exec"
	"path/filepath"
	"strings"
	"sync"
	"time"

	"verif/harness/core"
	"verif/harness/inner"
	"verif/harness/schema"
	"verif/harness/ws"
)

// batchSpec describes one workspace build + inner run.
type batchSpec struct {
	Name       string
	Variant    string // both | server | client
	Schemas    []*schema.Schema
	Param      string                      // go-http parameter
	ParamFor   func(*schema.Schema) string // per-schema go-http parameter (overrides Param)
	Race       bool
	Checks     []string
	Cases      int
	Shards     int
	Only       string
	OnlyUnit   string
	Seed       uint64
	Extra      map[string]string
	Shrink     string
	Timeout    time.Duration
	KeepBroken bool     // do not drop units that fail to build (C13 judges them)
	NoAvoid    []string // avoidance switches to turn off (pinned replays of open findings)
	// ServerOnlyEvery > 0 (variant "both" only): every n-th unit is built from protoc-gen-go-http alone, the
	// layout of a project that does not use the Go client; inner checks that need a client skip such units.
	ServerOnlyEvery int
}

type batchOutcome struct {
	WS       *ws.Workspace
	Units    []*ws.Unit // all units added (including those that failed to build)
	Broken   []*ws.Unit // units that failed build or vet (removed before the batch build)
	Rejected []*ws.Unit // units refused by go-http / go-client
	Results  []*inner.Result
	Races    []string // race detector reports found in the output of the batch processes
}

// inner seed used when spec.Seed is 0
func (b *batchSpec) seed(c *core.Ctx) uint64 {
	if b.Seed != 0 {
		return b.Seed
	}
	return c.Seed
}

// runBatch builds the workspace and runs the inner engine. Units that do not build are
// removed (they are C13's business) and listed in Broken.
func runBatch(c *core.Ctx, spec *batchSpec) (*batchOutcome, error) {
	dir, err := os.MkdirTemp(c.Scratch, "ws-"+spec.Name+"-")
	if err != nil {
		return nil, err
	}
	w, err := ws.New(dir, spec.Variant, c.Plugins, c.ToolDir)
	if err != nil {
		return nil, err
	}
	out := &batchOutcome{WS: w}
	for i, s := range spec.Schemas {
		param := spec.Param
		if spec.ParamFor != nil {
			param = spec.ParamFor(s)
		}
		uv := ""
		if n := spec.ServerOnlyEvery; n > 0 && (spec.Variant == "" || spec.Variant == "both") && i%n == n-1 {
			uv = "server"
			c.Ev.Class("build:server_only_unit", 1)
		}
		u, err := w.AddVariant(s, param, i%2 == 1, uv)
		if err != nil {
			return nil, err
		}
		out.Units = append(out.Units, u)
	}
	for _, u := range append([]*ws.Unit{}, w.Units...) {
		if len(u.PluginErr) > 0 {
			out.Rejected = append(out.Rejected, u)
			w.RemoveUnit(u)
		}
	}
	if err := w.BuildAndVet(); err != nil {
		return nil, err
	}
	for _, u := range append([]*ws.Unit{}, w.Units...) {
		if u.BuildErr != "" || u.VetErr != "" {
			out.Broken = append(out.Broken, u)
			// a package that compiles but fails vet still runs (the batch binary is built with -vet=off):
			// C13 judges the vet report, the runtime checks judge what the code does
			if u.BuildErr != "" {
				w.RemoveUnit(u)
			}
		}
	}
	if len(spec.Checks) == 0 || len(w.Units) == 0 {
		return out, nil
	}
	bin, err := w.BuildBatch(spec.Race)
	if err != nil {
		return nil, err
	}
	shards := spec.Shards
	if shards <= 0 {
		shards = 12
	}
	timeout := spec.Timeout
	if timeout == 0 {
		timeout = 20 * time.Minute
	}
	var mu sync.Mutex
	var wg sync.WaitGroup
	var firstErr error
	for sh := 0; sh < shards; sh++ {
		wg.Add(1)
		go func(sh int) {
			defer wg.Done()
			av := c.KF.Avoid()
			for _, sw := range spec.NoAvoid {
				delete(av, sw)
			}
			cfg := &inner.Config{Checks: spec.Checks, Seed: spec.seed(c), Cases: spec.Cases, Shard: sh, Shards: shards,
				Report: filepath.Join(dir, fmt.Sprintf("report-%d.json", sh)), Only: spec.Only, OnlyUnit: spec.OnlyUnit,
				Avoid: av, Extra: spec.Extra, Shrink: spec.Shrink}
			cb, _ := json.Marshal(cfg)
			cpath := filepath.Join(dir, fmt.Sprintf("config-%d.json", sh))
			_ = os.WriteFile(cpath, cb, 0o644)
			cmd := exec.Command(bin, "-test.run", "^TestInner$", "-test.timeout", "0")
			cmd.Dir = dir
			cmd.Env = append(os.Environ(), "VERIF_INNER_CONFIG="+cpath)
			var ob bytes.Buffer
			cmd.Stdout = &ob
			cmd.Stderr = &ob
			done := make(chan error, 1)
			if err := cmd.Start(); err != nil {
				mu.Lock()
				firstErr = err
				mu.Unlock()
				return
			}
			go func() { done <- cmd.Wait() }()
			var runErr error
			select {
			case runErr = <-done:
			case <-time.After(timeout):
				_ = cmd.Process.Kill()
				runErr = fmt.Errorf("inner shard %d timed out after %s", sh, timeout)
			}
			if strings.Contains(ob.String(), "WARNING: DATA RACE") {
				mu.Lock()
				out.Races = append(out.Races, raceExcerpt(ob.String()))
				mu.Unlock()
			}
			rb, rerr := os.ReadFile(cfg.Report)
			if rerr != nil {
				mu.Lock()
				if firstErr == nil {
					firstErr = &innerCrash{Output: tailStr(ob.String(), 6000), Err: runErr}
				}
				mu.Unlock()
				return
			}
			var rep inner.Report
			if err := json.Unmarshal(rb, &rep); err != nil {
				mu.Lock()
				firstErr = err
				mu.Unlock()
				return
			}
			mu.Lock()
			out.Results = append(out.Results, rep.Results...)
			mu.Unlock()
		}(sh)
	}
	wg.Wait()
	if firstErr != nil {
		return out, firstErr
	}
	return out, nil
}

// innerCrash is returned when a batch process died without writing its report (a fatal
// runtime error inside generated code, e.g. stack overflow or concurrent map writes).
type innerCrash struct {
	Output string
	Err    error
}

func (e *innerCrash) Error() string {
	return fmt.Sprintf("inner process died without a report (%v):\n%s", e.Err, e.Output)
}

func tailStr(s string, n int) string {
	if len(s) > n {
		return "…" + s[len(s)-n:]
	}
	return s
}

// innerReplay is the replay document of an inner failure.
type innerReplay struct {
	Property string            `json:"property"`
	Kind     string            `json:"kind"` // "inner"
	Variant  string            `json:"variant"`
	Param    string            `json:"param,omitempty"`
	Check    string            `json:"check"`
	Unit     string            `json:"unit"`
	Cases    int               `json:"cases"`
	Seed     uint64            `json:"seed"` // config seed the batch ran with
	Schema   *schema.Schema    `json:"schema"`
	Extra    map[string]string `json:"extra,omitempty"`
	NoAvoid  []string          `json:"no_avoid,omitempty"`
	Observed string            `json:"observed,omitempty"`
}

// reportInner turns failed inner results into violations and folds counts into the evidence.
func reportInner(c *core.Ctx, spec *batchSpec, out *batchOutcome, label string) error {
	var infraErr error
	byID := map[string]*schema.Schema{}
	for _, s := range spec.Schemas {
		byID[s.ID] = s
	}
	for _, r := range out.Results {
		c.Ev.Eval(r.Cases)
		c.Ev.NontrivialHashes(r.Nontrivial)
		c.Ev.Coverage.Unspecified += r.Unspecified
		for k, v := range r.Classes {
			c.Ev.Class(label+k, v)
		}
		for k, v := range r.Excluded {
			c.Ev.ExcludedBy(k, v)
		}
		for _, s := range r.Samples {
			c.Ev.Sample(map[string]any{"check": r.Check, "schema": r.Schema, "unit": r.Unit, "case": s}, 4)
		}
		if r.Failed && strings.HasPrefix(r.Message, "infrastructure:") {
			infraErr = fmt.Errorf("%s/%s: %s", r.Schema, r.Unit, r.Message)
			continue
		}
		if r.Failed {
			variant := spec.Variant
			for _, u := range out.Units {
				if u.Schema.ID == r.Schema && u.Variant != "" {
					variant = u.Variant
				}
			}
			doc := &innerReplay{Property: c.Prop, Kind: "inner", Variant: variant, Param: spec.Param, Check: r.Check, Unit: r.Unit,
				Cases: spec.Cases, Seed: spec.seed(c), Schema: byID[r.Schema], Extra: spec.Extra, Observed: r.Message}
			c.Violation(r.Check+"-"+r.Schema+"-"+r.Unit, doc, fmt.Sprintf("[%s %s/%s] %s", r.Check, r.Schema, r.Unit, firstFailLine(r.Message)))
		}
	}
	return infraErr
}

func firstFailLine(msg string) string {
	// rapid's message: "[rapid] failed after N tests: <our message>\nTo reproduce..."
	if i := strings.Index(msg, "\nTo reproduce"); i > 0 {
		j := strings.Index(msg[i+1:], "Failed test output:")
		_ = j
		return msg[:i]
	}
	return msg
}

// replayInner rebuilds the single schema and re-runs the failing unit with the same seed.
func replayInner(c *core.Ctx, doc json.RawMessage) (bool, string, error) {
	var r innerReplay
	if err := json.Unmarshal(doc, &r); err != nil {
		return false, "", err
	}
	if needsOpenAPI[r.Check] || needsTS[r.Check] {
		prep := prepareOpenAPI
		if needsTS[r.Check] {
			prep = prepareTS
		}
		ex, err := prep(c, 9000, []*schema.Schema{r.Schema})
		if err != nil {
			return false, "", err
		}
		if r.Extra == nil {
			r.Extra = map[string]string{}
		}
		for k, v := range ex {
			r.Extra[k] = v
		}
	}
	spec := &batchSpec{Name: "replay", Variant: r.Variant, Schemas: []*schema.Schema{r.Schema}, Param: r.Param, Checks: []string{r.Check},
		Cases: r.Cases, Shards: 1, Only: r.Schema.ID, OnlyUnit: r.Unit, Seed: r.Seed, Extra: r.Extra, NoAvoid: r.NoAvoid, Shrink: "2s"}
	out, err := runBatch(c, spec)
	if err != nil {
		if ic, ok := err.(*innerCrash); ok {
			return true, "process died: " + ic.Output, nil
		}
		return false, "", err
	}
	if len(out.Broken) > 0 || len(out.Rejected) > 0 {
		return false, "", fmt.Errorf("replay schema no longer builds or is rejected: %s", describeBroken(out))
	}
	for _, res := range out.Results {
		if os.Getenv("VERIF_DEBUG") != "" {
			fmt.Printf("debug: unit %s/%s/%s cases=%d skipped=%q failed=%v classes=%v\n", res.Check, res.Schema, res.Unit, res.Cases, res.Skipped, res.Failed, res.Classes)
		}
		if res.Failed && strings.HasPrefix(res.Message, "infrastructure:") {
			return false, "", fmt.Errorf("%s", res.Message)
		}
		if res.Failed {
			return true, firstFailLine(res.Message), nil
		}
	}
	return false, "property holds on the recorded case", nil
}

func describeBroken(out *batchOutcome) string {
	var b strings.Builder
	for _, u := range out.Broken {
		fmt.Fprintf(&b, "%s: %s %s; ", u.Schema.ID, trunc(u.BuildErr, 300), trunc(u.VetErr, 300))
	}
	for _, u := range out.Rejected {
		fmt.Fprintf(&b, "%s rejected: %v; ", u.Schema.ID, u.PluginErr)
	}
	return b.String()
}

// raceExcerpt cuts the first race report out of a process output.
func raceExcerpt(out string) string {
	i := strings.Index(out, "WARNING: DATA RACE")
	if i < 0 {
		return ""
	}
	rest := out[i:]
	if j := strings.Index(rest[1:], "=================="); j > 0 {
		rest = rest[:j+1]
	}
	if len(rest) > 5000 {
		rest = rest[:5000] + "…"
	}
	return rest
}

// needsOpenAPI lists inner checks that read emitted OpenAPI documents.
var needsOpenAPI = map[string]bool{"c06": true}

// needsTS lists inner checks that load emitted TypeScript modules.
var needsTS = map[string]bool{"c08": true, "c07": true, "c03": true, "c09ts": true, "c02ts": true, "c10ts": true, "c11ts": true, "c10tssrv": true}

package checks

import (
	"encoding/json"
	"fmt"
	"strings"

	"verif/harness/core"
	"verif/harness/inner"
	"verif/harness/schema"
)

// C14 part (b): a package generated with the client plugin alone encodes and decodes every
// message exactly as the server side does. The same deterministic value stream is pushed
// through a server-only and a client-only build of the same schemas (two binaries: proto
// registration forbids both in one process) and the per-message digests are compared.

func init() {
	runC14b = runC14bImpl
	replayC14b = replayC14bImpl
}

func c14bDigests(c *core.Ctx, schemas []*schema.Schema, variant string, cases int) (map[string]*inner.Result, *batchOutcome, error) {
	spec := &batchSpec{Name: "c14b-" + variant, Variant: variant, Schemas: schemas, Checks: []string{"digest"}, Cases: cases, Seed: c.Seed}
	out, err := runBatch(c, spec)
	if err != nil {
		return nil, nil, err
	}
	m := map[string]*inner.Result{}
	for _, r := range out.Results {
		m[r.Schema+"/"+r.Unit] = r
	}
	return m, out, nil
}

func firstLineDiff(a, b string) string {
	al, bl := strings.Split(a, "\n"), strings.Split(b, "\n")
	for i := 0; i < len(al) && i < len(bl); i++ {
		if al[i] != bl[i] {
			return fmt.Sprintf("value #%d\n  server-only: %s\n  client-only: %s", i, trunc(al[i], 500), trunc(bl[i], 500))
		}
	}
	return fmt.Sprintf("%d vs %d lines", len(al), len(bl))
}

func c14bCompare(c *core.Ctx, schemas []*schema.Schema, cases int, record bool) ([]*c14Case, error) {
	srv, sout, err := c14bDigests(c, schemas, "server", cases)
	if err != nil {
		return nil, err
	}
	cli, cout, err := c14bDigests(c, schemas, "client", cases)
	if err != nil {
		return nil, err
	}
	byID := map[string]*schema.Schema{}
	for _, s := range schemas {
		byID[s.ID] = s
	}
	skip := map[string]bool{}
	for _, o := range []*batchOutcome{sout, cout} {
		for _, u := range o.Broken {
			skip[u.Schema.ID] = true
		}
		for _, u := range o.Rejected {
			skip[u.Schema.ID] = true
		}
	}
	if record {
		noteBroken(c, sout)
		noteBroken(c, cout)
	}
	var bad []*c14Case
	for _, k := range sortedKeys(srv) {
		sr := srv[k]
		if skip[sr.Schema] {
			continue
		}
		cr, ok := cli[k]
		if record {
			c.Ev.Eval(sr.Cases)
			c.Ev.NontrivialHashes(sr.Nontrivial)
			c.Ev.Class("b:messages_compared", 1)
			if len(sr.Samples) > 0 {
				c.Ev.Sample(map[string]any{"part": "b", "schema": sr.Schema, "message": sr.Unit, "first_value_line": sr.Samples[0]}, 4)
			}
		}
		if !ok {
			bad = append(bad, &c14Case{Property: "C14", Kind: "behaviour", Schema: byID[sr.Schema], File: sr.Unit, Observed: "message type missing from the client-only build"})
			continue
		}
		if sr.Digest != cr.Digest {
			bad = append(bad, &c14Case{Property: "C14", Kind: "behaviour", Schema: byID[sr.Schema], File: sr.Unit,
				Observed: fmt.Sprintf("message %s is encoded/decoded differently by a client-only package: %s", sr.Unit, firstLineDiff(sr.Message, cr.Message))})
		}
	}
	return bad, nil
}

func runC14bImpl(c *core.Ctx) error {
	avoid := c.KF.Avoid()
	prof := schema.ProfileCodec(avoid)
	prof.SecondFile = true
	if id := avoid["client_no_unwrap"]; id != "" {
		// open finding: go-client has no unwrap emitter; keep the rest of the codec space comparable
		for _, f := range []string{"unwrap_root_list", "unwrap_root_map", "unwrap_map_value", "unwrap_combined"} {
			delete(prof.Features, f)
		}
		c.Ev.ExcludedBy(id+":client_no_unwrap", 1)
	}
	batches := c.Pick(1, 8)
	per := c.Pick(48, 64)
	cases := c.Pick(40, 120)
	for b := 0; b < batches; b++ {
		schemas := drawSchemas(c, prof, "q", per, 700+b)
		for _, s := range schemas {
			countAvoided(c, s, avoid)
		}
		bad, err := c14bCompare(c, schemas, cases, true)
		if err != nil {
			return err
		}
		seen := map[string]bool{}
		for _, cs := range bad {
			if seen[cs.Schema.ID] {
				continue // one violation per schema is enough
			}
			seen[cs.Schema.ID] = true
			inner, _ := json.Marshal(map[string]any{"cases": cases, "seed": c.Seed})
			cs.Inner = inner
			c.Violation("c14-behaviour-"+cs.Schema.ID, cs, cs.Observed)
		}
	}
	return nil
}

func replayC14bImpl(c *core.Ctx, cs *c14Case) (bool, string, error) {
	var in struct {
		Cases int    `json:"cases"`
		Seed  uint64 `json:"seed"`
	}
	_ = json.Unmarshal(cs.Inner, &in)
	if in.Cases == 0 {
		in.Cases = 60
	}
	if in.Seed != 0 {
		c.Seed = in.Seed
	}
	bad, err := c14bCompare(c, []*schema.Schema{cs.Schema}, in.Cases, false)
	if err != nil {
		return false, "", err
	}
	if len(bad) > 0 {
		return true, bad[0].Observed, nil
	}
	return false, "server-only and client-only builds behave identically", nil
}

package checks

import (
	"encoding/json"
	"fmt"
	"os"
	"path/filepath"
	"regexp"
	"strings"

	"verif/harness/core"
	"verif/harness/nodedrv"
	"verif/harness/plugin"
	"verif/harness/schema"
	"verif/harness/ws"
)

// C13 — everything the generators emit builds: Go compiles and vets, TypeScript loads.

type c13Case struct {
	Property string         `json:"property"`
	Kind     string         `json:"kind"` // "go" | "ts"
	Variant  string         `json:"variant,omitempty"`
	Param    string         `json:"param,omitempty"`
	Schema   *schema.Schema `json:"schema"`
	Observed string         `json:"observed,omitempty"`
}

func init() { register(&Check{ID: "C13", Run: runC13, Replay: replayC13}) }

var posRe = regexp.MustCompile(`[^\s:]+\.go:\d+:\d+: `)

// c13Go builds + vets one schema in one variant; returns "" when fine.
func c13Go(c *core.Ctx, s *schema.Schema, variant, param string) (string, error) {
	spec := &batchSpec{Name: "c13", Variant: variant, Schemas: []*schema.Schema{s}, Param: param}
	out, err := runBatch(c, spec)
	if err != nil {
		return "", err
	}
	defer os.RemoveAll(out.WS.Dir)
	if len(out.Rejected) > 0 {
		return "", nil // acceptance is C12's concern
	}
	for _, u := range out.Broken {
		return goFailure(u), nil
	}
	return "", nil
}

var identRe = regexp.MustCompile(`[A-Za-z_][A-Za-z0-9_]*(\.[A-Za-z_][A-Za-z0-9_]*)+|"[^"]*"|\b[A-Za-z_]*[A-Z0-9][A-Za-z0-9_]*\b|\d+`)

// errClass reduces a compiler/vet message to its template so that the reducer keeps the same
// kind of failure while shrinking.
func errClass(msg string) string {
	line := firstLines(msg, 2)
	if i := strings.Index(line, " | "); i >= 0 {
		if j := strings.Index(line[i+3:], " | "); j >= 0 {
			line = line[i+3 : i+3+j]
		} else {
			line = line[i+3:]
		}
	}
	line = posRe.ReplaceAllString(line, "")
	return identRe.ReplaceAllString(line, "_")
}

func goFailure(u *ws.Unit) string {
	if u.BuildErr != "" {
		return "go build: " + firstLines(u.BuildErr, 5)
	}
	return "go vet: " + firstLines(u.VetErr, 5)
}

// c13TS emits and loads the TypeScript of one schema; returns "" when fine.
func c13TS(c *core.Ctx, drv *nodedrv.Driver, s *schema.Schema, dir string) (string, int, error) {
	req, err := schema.Request("", s)
	if err != nil {
		return "", 0, err
	}
	if _, err := schema.Gate(req); err != nil {
		return "", 0, fmt.Errorf("generator bug: gate: %w", err)
	}
	n := 0
	for _, p := range []string{plugin.TSClient, plugin.TSServer} {
		res := c.Plugins.Run(p, req, plugin.Opts{})
		if crashed, why := res.Crashed(); crashed {
			return fmt.Sprintf("%s crashed: %s", p, why), n, nil
		}
		if res.Err() != "" {
			continue
		}
		for _, name := range sortedKeys(res.Files()) {
			path := filepath.Join(dir, s.ID, p, name)
			if err := os.MkdirAll(filepath.Dir(path), 0o755); err != nil {
				return "", n, err
			}
			if err := os.WriteFile(path, []byte(res.Files()[name]), 0o644); err != nil {
				return "", n, err
			}
			n++
			r, err := drv.Call(map[string]any{"op": "load", "path": path})
			if err != nil {
				return "", n, err
			}
			if !r.OK() {
				return fmt.Sprintf("%s: module %s does not load: %s", p, name, trunc(r.Err(), 400)), n, nil
			}
		}
	}
	return "", n, nil
}

func hostileNontrivial(s *schema.Schema) bool {
	if hasTag(s, "name:digits") || hasTag(s, "feat:") || len(s.Files) > 1 {
		return true
	}
	return false
}

func runC13(c *core.Ctx) error {
	if err := runPinned(c, Registry["C13"]); err != nil {
		return err
	}
	avoid := c.KF.Avoid()
	drv, err := nodedrv.Start(filepath.Join(core.Root(), "node", "driver.mjs"))
	if err != nil {
		return err
	}
	defer drv.Close()
	batches := c.Pick(1, 12)
	per := c.Pick(40, 60)
	c.Ev.Coverage.Rule = "cases = schema from the compile-matrix profile or, for half of them, from the minimal profile (one service, one RPC, <= 2 fields: single-construct files) (each annotation on each cardinality the plugins accept it on, several annotations per message, annotations on oneof members, identifier-hostile field/method names, several services per file, service-less second files, mock generation) x plugin subset {go-http only, go-client only, both in one package (alternating write order)}; oracle = `go build` plus the vet analyzers `go test` runs on the emitted package with protoc-gen-go output (no harness glue in the package), and a clean import of every emitted .ts module in Node 22. Non-trivial = schema with a JSON-mapping annotation, a digit/hostile identifier or a second file; distinct by (schema, subset)."
	c.Ev.Assumptions = []string{"generated Go is compiled against a stand-in protovalidate module with the same API", "TypeScript is loaded by Node's type stripping: syntax/load errors are detected, type errors are not (no tsc offline)"}
	prof := schema.ProfileMatrix(avoid)
	reductions := 0
	maxReductions := c.Pick(3, 12)
	for b := 0; b < batches; b++ {
		schemas := drawSchemas(c, prof, "m", per, b)
		// single-construct files: what a rich file masks (an import or helper another construct provides)
		schemas = append(schemas, drawSchemas(c, schema.ProfileMinimal(avoid), "n", per, b)...)
		for _, s := range schemas {
			countAvoided(c, s, avoid)
		}
		for vi, variant := range []string{"both", "server", "client"} {
			param := ""
			if variant != "client" && (b+vi)%2 == 0 {
				param = "generate_mock=true"
			}
			mockFor := func(s *schema.Schema) string {
				if param == "" {
					return ""
				}
				if avoid["mock_unsupported_fields"] != "" && !schema.MockCompilable(s) {
					c.Ev.ExcludedBy(avoid["mock_unsupported_fields"]+":mock_unsupported_fields", 1)
					return ""
				}
				return param
			}
			spec := &batchSpec{Name: fmt.Sprintf("c13-%d-%s", b, variant), Variant: variant, Schemas: schemas, ParamFor: mockFor}
			out, err := runBatch(c, spec)
			if err != nil {
				return err
			}
			for _, u := range out.Units {
				c.Ev.Eval(1)
				c.Ev.Class("subset:"+variant, 1)
				if u.HasMock {
					c.Ev.Class("param:"+param, 1)
				}
				if hostileNontrivial(u.Schema) {
					c.Ev.Nontrivial(schemaKey(u.Schema) + "|" + variant + "|" + mockFor(u.Schema))
				}
				for _, tg := range u.Schema.Tags {
					if strings.HasPrefix(tg, "feat:") || strings.HasPrefix(tg, "int64:") || strings.HasPrefix(tg, "timestamp:") || strings.HasPrefix(tg, "bytes:") || strings.HasPrefix(tg, "name:") || strings.HasPrefix(tg, "header_text:") || strings.HasPrefix(tg, "enum_value:") || strings.HasPrefix(tg, "oneof_value:") || strings.HasPrefix(tg, "examples:") || strings.HasPrefix(tg, "header_example:") || strings.HasPrefix(tg, "foreign_rpc_body") || tg == "nested_rpc_body" || tg == "companion_package" || tg == "second_service_file" {
						c.Ev.Class(tg, 1)
					}
				}
			}
			for _, u := range out.Rejected {
				c.Ev.Class("excluded:rejected_by_plugin(see C12)", 1)
				bb, _ := json.Marshal(u.PluginErr)
				fmt.Printf("note: schema %s rejected by a plugin (left to C12): %s\n", u.Schema.ID, trunc(string(bb), 300))
			}
			seenClass := map[string]bool{}
			for _, u := range out.Broken {
				msg := goFailure(u)
				class := errClass(msg)
				s := u.Schema
				uparam := mockFor(u.Schema)
				if !seenClass[class] && reductions < maxReductions {
					reductions++
					s = schema.Reduce(u.Schema, 40, func(cand *schema.Schema) bool {
						m, err := c13Go(c, cand, variant, uparam)
						return err == nil && m != "" && errClass(m) == class
					})
					if m, err := c13Go(c, s, variant, uparam); err == nil && m != "" {
						msg = m
					}
				}
				seenClass[class] = true
				c.Violation("c13-go-"+variant, &c13Case{Property: "C13", Kind: "go", Variant: variant, Param: uparam, Schema: s, Observed: msg},
					fmt.Sprintf("emitted Go package (%s, param %q) does not build/vet: %s", variant, uparam, msg))
			}
			_ = os.RemoveAll(out.WS.Dir)
		}
		// TypeScript
		tsDir := filepath.Join(c.Scratch, fmt.Sprintf("ts-%d", b))
		for _, s := range schemas {
			msg, n, err := c13TS(c, drv, s, tsDir)
			if err != nil {
				return err
			}
			c.Ev.Eval(n)
			c.Ev.Class("subset:typescript_modules", n)
			if hostileNontrivial(s) {
				c.Ev.Nontrivial(schemaKey(s) + "|ts")
			}
			if msg != "" {
				red := s
				if reductions < maxReductions {
					reductions++
					red = schema.Reduce(s, 60, func(cand *schema.Schema) bool {
						m, _, err := c13TS(c, drv, cand, filepath.Join(tsDir, "red"))
						return err == nil && m != ""
					})
					if m, _, err := c13TS(c, drv, red, filepath.Join(tsDir, "red2")); err == nil && m != "" {
						msg = m
					}
				}
				c.Violation("c13-ts", &c13Case{Property: "C13", Kind: "ts", Schema: red, Observed: msg}, msg)
			}
		}
		_ = os.RemoveAll(tsDir)
		c.Ev.Coverage.Schemas += len(schemas)
		if b == 0 {
			c.Ev.Sample(map[string]any{"schema": schemas[0], "subsets": []string{"both", "server", "client", "typescript"}}, 1)
			c.Ev.Sample(map[string]any{"schema": schemas[len(schemas)-1]}, 2)
		}
	}
	return nil
}

func replayC13(c *core.Ctx, doc json.RawMessage) (bool, string, error) {
	var cs c13Case
	if err := json.Unmarshal(doc, &cs); err != nil {
		return false, "", err
	}
	if cs.Kind == "ts" {
		drv, err := nodedrv.Start(filepath.Join(core.Root(), "node", "driver.mjs"))
		if err != nil {
			return false, "", err
		}
		defer drv.Close()
		msg, _, err := c13TS(c, drv, cs.Schema, filepath.Join(c.Scratch, "ts-replay"))
		if err != nil {
			return false, "", err
		}
		return msg != "", orOK(msg, "all TypeScript modules load"), nil
	}
	msg, err := c13Go(c, cs.Schema, cs.Variant, cs.Param)
	if err != nil {
		return false, "", err
	}
	return msg != "", orOK(msg, "package builds and vets"), nil
}

func orOK(msg, ok string) string {
	if msg == "" {
		return ok
	}
	return msg
}

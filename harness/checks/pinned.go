package checks

import (
	"encoding/json"
	"fmt"
	"os"
	"path/filepath"

	"verif/harness/core"
	"verif/harness/schema"
)

// Pinned replays: small hand-built schemas, one per confirmed finding (open or fixed). They are
// written by `verif pin` into /verif/replays and re-run first by every check.

type pinned struct {
	File string // relative to /verif/replays
	Doc  any
}

func baseSchema(id string) (*schema.Schema, *schema.Message, *schema.Message, *schema.Method, *schema.Service) {
	req := &schema.Message{Name: "DoRequest", Fields: []*schema.Field{{Name: "name", Number: 1, Kind: schema.KString, Card: schema.Singular}}}
	resp := &schema.Message{Name: "DoResponse", Fields: []*schema.Field{{Name: "ok", Number: 1, Kind: schema.KBool, Card: schema.Singular}}}
	pkg := id + ".pin.v1"
	m := &schema.Method{Name: "Do", Input: pkg + ".DoRequest", Output: pkg + ".DoResponse", HasConfig: true, Path: "/things", Verb: 2}
	svc := &schema.Service{Name: "PinService", Methods: []*schema.Method{m}}
	s := &schema.Schema{ID: id, Pkg: pkg, GoPkg: id + "pin", GoPath: "verif.test/gen/" + id, Profile: "pinned",
		Files: []*schema.File{{Name: id + "/api.proto", Generate: true, Messages: []*schema.Message{req, resp}, Services: []*schema.Service{svc}}}}
	return s, req, resp, m, svc
}

func fld(name string, num int32, k schema.Kind, card schema.Card) *schema.Field {
	return &schema.Field{Name: name, Number: num, Kind: k, Card: card}
}

func pinnedCases() []pinned {
	var out []pinned
	goCase := func(prop, file, variant, param string, s *schema.Schema) {
		out = append(out, pinned{File: file, Doc: &c13Case{Property: prop, Kind: "go", Variant: variant, Param: param, Schema: s}})
	}
	// ---- C13 fixed ----
	{
		s, req, _, _, _ := baseSchema("p0001")
		req.Oneofs = []*schema.Oneof{{Name: "content", Discriminator: "type"}}
		req.Fields = append(req.Fields, &schema.Field{Name: "text", Number: 2, Kind: schema.KString, Card: schema.Singular, Oneof: "content"},
			&schema.Field{Name: "count", Number: 3, Kind: schema.KInt32, Card: schema.Singular, Oneof: "content"})
		goCase("C13", "C13/oneof_discriminator_vet.json", "both", "", s)
	}
	{
		s, req, _, m, _ := baseSchema("p0002")
		m.Verb, m.Path = 1, "/things/{name}"
		req.Fields = append(req.Fields, &schema.Field{Name: "page", Number: 2, Kind: schema.KInt32, Card: schema.Singular, Ann: &schema.Ann{Query: &schema.Query{Name: "page"}}})
		out = append(out, pinned{File: "C13/ts_server_url_declared_twice.json", Doc: &c13Case{Property: "C13", Kind: "ts", Schema: s}})
	}
	{
		s, _, _, m, svc := baseSchema("p0003")
		svc.Headers = []*schema.Header{{Name: "X-API-Key", Type: "string", Required: true}}
		m.Headers = []*schema.Header{{Name: "X-API-Key", Type: "string", Required: true, Format: "uuid"}}
		goCase("C13", "C13/duplicate_header_helper.json", "client", "", s)
	}
	{
		s, req, _, m, _ := baseSchema("p0004")
		m.Verb, m.Path = 1, "/things/{field_2}"
		req.Fields = []*schema.Field{fld("field_2", 1, schema.KString, schema.Singular)}
		goCase("C13", "C13/path_param_digit_name.json", "client", "", s)
	}
	{
		s, _, resp, _, _ := baseSchema("p0005")
		resp.Fields = []*schema.Field{{Name: "items", Number: 1, Kind: schema.KString, Card: schema.Repeated, Ann: &schema.Ann{Unwrap: true}}}
		goCase("C13", "C13/unwrap_scalar_unused_import.json", "server", "", s)
	}
	// ---- C13 open ----
	{
		s, req, _, _, _ := baseSchema("p0006")
		req.Fields = append(req.Fields, &schema.Field{Name: "big", Number: 2, Kind: schema.KInt64, Card: schema.Singular, Ann: &schema.Ann{Int64Encoding: 2}},
			&schema.Field{Name: "nick", Number: 3, Kind: schema.KString, Card: schema.Optional, Ann: &schema.Ann{Nullable: true}})
		goCase("C13", "C13/multi_feature.json", "both", "", s)
	}
	{
		s, req, _, _, _ := baseSchema("p0007")
		req.Fields = append(req.Fields, &schema.Field{Name: "big", Number: 2, Kind: schema.KInt64, Card: schema.Optional, Ann: &schema.Ann{Int64Encoding: 2}})
		goCase("C13", "C13/int64_number_optional.json", "both", "", s)
	}
	{
		s, req, _, _, _ := baseSchema("p0008")
		req.Fields = append(req.Fields, &schema.Field{Name: "stamps", Number: 2, Kind: schema.KTimestamp, Card: schema.Repeated, Ann: &schema.Ann{TimestampFormat: 2}})
		goCase("C13", "C13/timestamp_format_repeated.json", "both", "", s)
	}
	{
		s, req, _, _, _ := baseSchema("p0009")
		req.Fields = append(req.Fields, &schema.Field{Name: "blobs", Number: 2, Kind: schema.KBytes, Card: schema.Repeated, Ann: &schema.Ann{BytesEncoding: 5}})
		goCase("C13", "C13/bytes_encoding_repeated.json", "both", "", s)
	}
	{
		s, _, resp, _, _ := baseSchema("p0010")
		line := &schema.Message{Name: "Line", Fields: []*schema.Field{fld("text", 1, schema.KString, schema.Singular)}}
		s.Files[0].Messages = append(s.Files[0].Messages, line)
		resp.Fields = []*schema.Field{{Name: "by_key", Number: 1, Kind: schema.KMessage, TypeRef: s.Pkg + ".Line", Card: schema.Map, MapKey: schema.KUint64, Ann: &schema.Ann{Unwrap: true}}}
		goCase("C13", "C13/unwrap_root_map_nonstring_key.json", "server", "", s)
	}
	{
		s, _, resp, _, _ := baseSchema("p0011")
		wrap := &schema.Message{Name: "TagList", Fields: []*schema.Field{{Name: "items", Number: 1, Kind: schema.KString, Card: schema.Repeated, Ann: &schema.Ann{Unwrap: true}}}}
		s.Files[0].Messages = append(s.Files[0].Messages, wrap)
		resp.Fields = []*schema.Field{fld("nick", 1, schema.KString, schema.Optional),
			{Name: "tags", Number: 2, Kind: schema.KMessage, TypeRef: s.Pkg + ".TagList", Card: schema.Map, MapKey: schema.KString}}
		goCase("C13", "C13/unwrap_container_optional_sibling.json", "server", "", s)
	}
	{
		s, req, _, m, _ := baseSchema("p0012")
		m.Verb = 1
		req.Fields = []*schema.Field{{Name: "ids", Number: 1, Kind: schema.KInt32, Card: schema.Repeated, Ann: &schema.Ann{Query: &schema.Query{Name: "id"}}}}
		goCase("C13", "C13/query_repeated_client.json", "client", "", s)
	}
	{
		s, req, _, _, _ := baseSchema("p0014")
		req.Oneofs = []*schema.Oneof{{Name: "content", Discriminator: "type"}}
		req.Fields = append(req.Fields, &schema.Field{Name: "text", Number: 2, Kind: schema.KString, Card: schema.Singular, Oneof: "content"},
			&schema.Field{Name: "at", Number: 3, Kind: schema.KTimestamp, Card: schema.Singular, Oneof: "content"})
		goCase("C13", "C13/oneof_disc_timestamp_variant.json", "both", "", s)
	}
	innerCase := func(prop, file, variant, check, unit string, s *schema.Schema, noAvoid ...string) {
		param := ""
		if check == "c20" {
			param = "generate_mock=true"
		}
		out = append(out, pinned{File: file, Doc: &innerReplay{Property: prop, Kind: "inner", Variant: variant, Param: param, Check: check, Unit: unit,
			Cases: 300, Seed: 7, Schema: s, NoAvoid: noAvoid}})
	}
	{
		s, _, resp, _, _ := baseSchema("p0012")
		wrap := &schema.Message{Name: "TagList", Fields: []*schema.Field{{Name: "items", Number: 1, Kind: schema.KString, Card: schema.Repeated, Ann: &schema.Ann{Unwrap: true}}}}
		s.Files[0].Messages = append(s.Files[0].Messages, wrap)
		resp.Fields = []*schema.Field{fld("total", 1, schema.KInt64, schema.Singular), fld("ratio", 3, schema.KDouble, schema.Singular),
			{Name: "tags", Number: 2, Kind: schema.KMessage, TypeRef: s.Pkg + ".TagList", Card: schema.Map, MapKey: schema.KString}}
		innerCase("C05", "C05/unwrap_container_int64_sibling_as_number.json", "server", "c05", "PinService.Do", s, "unwrap_container_siblings_json")
	}
	// ---- runtime: fixed ----
	{
		s, req, _, m, _ := baseSchema("p0020")
		m.Verb, m.Path = 3, "/things/{name}"
		req.Fields = append(req.Fields, fld("display_name", 2, schema.KString, schema.Singular))
		innerCase("C02", "C02/body_resets_url_fields.json", "server", "c02", "PinService.Do", s)
		s8, req8, _, m8, _ := baseSchema("p0021")
		m8.Verb, m8.Path = 1, "/things/{num}"
		req8.Fields = []*schema.Field{fld("num", 1, schema.KInt32, schema.Singular)}
		innerCase("C02", "C02/ts_server_dispatches_unconvertible_url_value.json", "server", "c02ts", "PinService.Do", s8, "ts_server_no_url_validation")
		s9, req9, _, m9, _ := baseSchema("p0022")
		m9.Verb, m9.Path = 2, "/things"
		req9.Fields = []*schema.Field{fld("name", 1, schema.KString, schema.Singular), {Name: "page", Number: 2, Kind: schema.KInt32, Card: schema.Singular, Ann: &schema.Ann{Query: &schema.Query{Name: "page"}}}}
		innerCase("C02", "C02/ts_server_ignores_query_on_body_verb.json", "server", "c02ts", "PinService.Do", s9, "ts_server_query_ignored_on_body_verbs")
	}
	{
		s, _, _, _, _ := baseSchema("p0021")
		innerCase("C01", "C01/client_octet_stream.json", "both", "c01", "PinService.Do", s)
	}
	{
		s, _, resp, _, _ := baseSchema("p0022")
		resp.Fields = []*schema.Field{{Name: "items", Number: 1, Kind: schema.KString, Card: schema.Repeated, Ann: &schema.Ann{Unwrap: true}}}
		innerCase("C05", "C05/unwrap_empty_null.json", "server", "c05", "PinService.Do", s)
	}
	// ---- runtime: open ----
	{
		s, _, resp, _, _ := baseSchema("p0023")
		child := &schema.Message{Name: "Thing", Fields: []*schema.Field{{Name: "big", Number: 1, Kind: schema.KInt64, Card: schema.Singular, Ann: &schema.Ann{Int64Encoding: 2}}}}
		s.Files[0].Messages = append(s.Files[0].Messages, child)
		resp.Fields = append(resp.Fields, &schema.Field{Name: "thing", Number: 2, Kind: schema.KMessage, TypeRef: s.Pkg + ".Thing", Card: schema.Singular})
		innerCase("C05", "C05/annotated_child_of_plain_parent.json", "server", "c05", "PinService.Do", s, "annotated_nested")
	}
	{
		s, _, resp, _, _ := baseSchema("p0024")
		s.Files[0].Enums = []*schema.Enum{{Name: "Status", Values: []*schema.EnumValue{{Name: "STATUS_UNSPECIFIED", Number: 0}, {Name: "STATUS_ACTIVE", Number: 1, Custom: "active"}}}}
		resp.Fields = append(resp.Fields, &schema.Field{Name: "status", Number: 2, Kind: schema.KEnum, TypeRef: s.Pkg + ".Status", Card: schema.Singular})
		innerCase("C05", "C05/enum_value_custom.json", "server", "c05", "PinService.Do", s, "enum_value_custom")
	}
	{
		s, _, resp, _, _ := baseSchema("p0025")
		s.Files[0].Enums = []*schema.Enum{{Name: "Status", Values: []*schema.EnumValue{{Name: "STATUS_UNSPECIFIED", Number: 0}, {Name: "STATUS_ACTIVE", Number: 1}}}}
		resp.Fields = append(resp.Fields, &schema.Field{Name: "status", Number: 2, Kind: schema.KEnum, TypeRef: s.Pkg + ".Status", Card: schema.Singular, Ann: &schema.Ann{EnumEncoding: 2}})
		innerCase("C05", "C05/enum_encoding_number.json", "server", "c05", "PinService.Do", s, "enum_number")
	}
	{
		s, _, resp, _, _ := baseSchema("p0026")
		resp.Fields = []*schema.Field{{Name: "items", Number: 1, Kind: schema.KInt64, Card: schema.Repeated, Ann: &schema.Ann{Unwrap: true}}}
		innerCase("C05", "C05/unwrap_scalar_encoding_json.json", "server", "c05", "PinService.Do", s, "unwrap_scalar_json")
	}
	{
		s, req, _, _, _ := baseSchema("p0027")
		addr := &schema.Message{Name: "Address", Fields: []*schema.Field{fld("street", 1, schema.KString, schema.Singular)}}
		s.Files[0].Messages = append(s.Files[0].Messages, addr)
		req.Fields = append(req.Fields, &schema.Field{Name: "addr", Number: 2, Kind: schema.KMessage, TypeRef: s.Pkg + ".Address", Card: schema.Singular, Ann: &schema.Ann{Flatten: true}})
		innerCase("C04", "C04/flatten_decode_drops_child.json", "both", "c04", "DoRequest", s, "flatten")
	}
	{
		s, req, _, _, _ := baseSchema("p0085")
		req.Fields = append(req.Fields, &schema.Field{Name: "seen_at", Number: 2, Kind: schema.KTimestamp, Card: schema.Singular, Ann: &schema.Ann{EmptyBehavior: 2}})
		innerCase("C04", "C04/empty_behavior_null_on_timestamp.json", "both", "c04", "DoRequest", s, "empty_behavior_wkt")
	}
	{
		s, req, _, _, _ := baseSchema("p0028")
		v := &schema.Message{Name: "Shipping", Fields: []*schema.Field{fld("zip_code", 1, schema.KString, schema.Singular), fld("weight", 2, schema.KInt64, schema.Singular)}}
		s.Files[0].Messages = append(s.Files[0].Messages, v)
		req.Oneofs = []*schema.Oneof{{Name: "content", Discriminator: "type", Flatten: true}}
		req.Fields = append(req.Fields, &schema.Field{Name: "shipping", Number: 2, Kind: schema.KMessage, TypeRef: s.Pkg + ".Shipping", Card: schema.Singular, Oneof: "content"})
		innerCase("C04", "C04/flattened_child_encoding_json.json", "both", "c04", "DoRequest", s, "child_encoding_json")
	}
	{
		s, _, _, m, _ := baseSchema("p0029")
		m.Path = ""
		innerCase("C03", "C03/default_path_go_client_404.json", "both", "c01", "PinService.Do", s, "default_path_disagreement")
	}
	{
		s, _, _, m, _ := baseSchema("p0030")
		m.Verb, m.Path = 1, "/things/{name}"
		innerCase("C01", "C01/path_dot_segments.json", "both", "c01", "PinService.Do", s, "path_dot_segments")
		out[len(out)-1].Doc.(*innerReplay).Extra = map[string]string{"force_path_value": ".."}
		s2, _, _, m2, _ := baseSchema("p0031")
		m2.Verb, m2.Path = 1, "/things/{name}"
		innerCase("C01", "C01/path_value_single_slash.json", "both", "c01", "PinService.Do", s2, "path_value_single_slash")
		out[len(out)-1].Doc.(*innerReplay).Extra = map[string]string{"force_path_value": "/"}
	}
	{
		s, req, _, _, _ := baseSchema("p0032")
		req.Fields = append(req.Fields, &schema.Field{Name: "page", Number: 2, Kind: schema.KInt32, Card: schema.Singular, Ann: &schema.Ann{Query: &schema.Query{Name: "page", Required: true}}})
		innerCase("C01", "C01/required_query_on_body_verb.json", "both", "c01", "PinService.Do", s, "required_query_on_body_verb")
	}
	{
		s, _, _, _, svc := baseSchema("p0033")
		svc.BasePath = "api"
		innerCase("C03", "C03/base_path_no_leading_slash.json", "both", "c01", "PinService.Do", s, "base_path_no_leading_slash")
	}
	{
		s, _, _, m, _ := baseSchema("p0084")
		m.Path = "things/all"
		innerCase("C03", "C03/method_path_no_leading_slash.json", "both", "c01", "PinService.Do", s, "method_path_no_leading_slash")
	}
	{
		s, req, _, m, _ := baseSchema("p0086")
		m.Path = "/things/{name}"
		req.Fields[0].Card = schema.Optional
		innerCase("C01", "C01/optional_path_field_pointer.json", "both", "c01", "PinService.Do", s, "path_var_optional")
	}
	{
		s, _, _, _, svc := baseSchema("p0034")
		svc.Headers = []*schema.Header{{Name: "X-Request-ID", Type: "string", Format: "uuid", Required: true}}
		innerCase("C09", "C09/uuid_header_nonhex_accepted.json", "server", "c09", "PinService.Do", s, "uuid_header_nonhex")
	}
	{
		s, _, _, m, svc := baseSchema("p0035")
		svc.Headers = []*schema.Header{{Name: "X-Tenant-ID", Type: "string", Required: true}}
		m.Headers = []*schema.Header{{Name: "X-Tenant-ID", Type: "string", Required: false}}
		innerCase("C09", "C09/optional_override_still_required.json", "server", "c09", "PinService.Do", s, "header_override_drops_required")
		s5, _, _, _, svc5 := baseSchema("p0033")
		svc5.Headers = []*schema.Header{{Name: "X-Count", Type: "number", Required: true}}
		innerCase("C09", "C09/ts_server_accepts_empty_number_header.json", "server", "c09ts", "PinService.Do", s5)
		s6, _, _, _, svc6 := baseSchema("p0034")
		svc6.Headers = []*schema.Header{{Name: "X-When", Type: "string", Format: "time", Required: true}}
		innerCase("C09", "C09/ts_server_accepts_out_of_range_time_header.json", "server", "c09ts", "PinService.Do", s6)
	}
	{
		s, req, _, _, _ := baseSchema("p0036")
		req.Fields = append(req.Fields, &schema.Field{Name: "blob", Number: 2, Kind: schema.KBytes, Card: schema.Singular, Ann: &schema.Ann{BytesEncoding: 5}})
		innerCase("C11", "C11/hex_invalid_read_as_base64.json", "both", "c11", "PinService.Do", s)
		s2, _, _, _, _ := baseSchema("p0037")
		innerCase("C11", "C11/invalid_utf8_plain_text_400.json", "both", "c11", "PinService.Do", s2)
		s3, _, _, _, _ := baseSchema("p0038")
		innerCase("C11", "C11/binary_body_read_error_dispatched.json", "both", "c11", "PinService.Do", s3)
	}
	{
		s, _, resp, _, _ := baseSchema("p0038")
		resp.Fields = []*schema.Field{{Name: "quota", Number: 1, Kind: schema.KUint64, Card: schema.Singular, Ann: &schema.Ann{Examples: []string{"7", "13"}}}}
		innerCase("C20", "C20/examples_ignored_for_unhandled_kinds.json", "server", "c20", "PinService.Do", s)
		s7, _, resp7, _, _ := baseSchema("p0061")
		s7.Files = append(s7.Files, &schema.File{Name: "p0061/types.proto", Generate: true,
			Messages: []*schema.Message{{Name: "Owner", Fields: []*schema.Field{{Name: "first_name", Number: 1, Kind: schema.KString, Card: schema.Singular, Ann: &schema.Ann{Examples: []string{"alpha", "beta"}}}}}}})
		resp7.Fields = append(resp7.Fields, &schema.Field{Name: "owner", Number: 2, Kind: schema.KMessage, TypeRef: s7.Pkg + ".Owner", Card: schema.Singular})
		out = append(out, pinned{File: "C20/examples_of_types_in_other_files_ignored.json", Doc: &innerReplay{Property: "C20", Kind: "inner", Variant: "server", Param: "generate_mock=true", Check: "c20", Unit: "PinService.Do",
			Cases: 300, Seed: 7, Schema: s7, NoAvoid: []string{"mock_examples_other_file"}}})
		out[len(out)-1].Doc.(*innerReplay).Param = "generate_mock=true"
		s2, _, resp2, _, _ := baseSchema("p0039")
		resp2.Fields = []*schema.Field{{Name: "quota", Number: 1, Kind: schema.KInt64, Card: schema.Singular, Ann: &schema.Ann{Examples: []string{"not-a-number", "7", "13"}}}}
		innerCase("C20", "C20/unparsable_example_default.json", "server", "c20", "PinService.Do", s2)
		out[len(out)-1].Doc.(*innerReplay).Param = "generate_mock=true"
	}
	{
		s, _, resp, _, _ := baseSchema("p0040")
		types := &schema.File{Name: "p0040/types.proto", Generate: true, Messages: []*schema.Message{{Name: "Counter", Fields: []*schema.Field{
			{Name: "total", Number: 1, Kind: schema.KInt64, Card: schema.Singular, Ann: &schema.Ann{Int64Encoding: 2}}}}}}
		s.Files = append(s.Files, types)
		resp.Fields = append(resp.Fields, &schema.Field{Name: "counter", Number: 2, Kind: schema.KMessage, TypeRef: s.Pkg + ".Counter", Card: schema.Singular})
		out = append(out, pinned{File: "C14/client_serviceless_int64_codec.json", Doc: &c14Case{Property: "C14", Kind: "behaviour", Schema: s}})
		s2, _, resp2, _, _ := baseSchema("p0041")
		resp2.Fields = []*schema.Field{{Name: "items", Number: 1, Kind: schema.KString, Card: schema.Repeated, Ann: &schema.Ann{Unwrap: true}}}
		out = append(out, pinned{File: "C14/client_has_no_unwrap_codec.json", Doc: &c14Case{Property: "C14", Kind: "behaviour", Schema: s2}})
	}
	{
		s, _, _, _, svc := baseSchema("p0042")
		svc2 := &schema.Service{Name: "OtherService", Methods: []*schema.Method{{Name: "Do", Input: s.Pkg + ".DoRequest", Output: s.Pkg + ".DoResponse", HasConfig: true, Path: "/other", Verb: 2}}}
		s.Files[0].Services = append(s.Files[0].Services, svc2)
		_ = svc
		goCase("C13", "C13/same_method_name_two_services.json", "server", "", s)
		s2, req2, _, _, _ := baseSchema("p0043")
		req2.Oneofs = []*schema.Oneof{{Name: "content", Discriminator: "@type"}}
		req2.Fields = append(req2.Fields, &schema.Field{Name: "text", Number: 2, Kind: schema.KString, Card: schema.Singular, Oneof: "content"})
		out = append(out, pinned{File: "C13/ts_discriminator_not_identifier.json", Doc: &c13Case{Property: "C13", Kind: "ts", Schema: s2}})
	}
	{
		s, _, _, m, svc := baseSchema("p0044")
		svc.Headers = []*schema.Header{{Name: "X-API-Key", Type: "string", Required: true}}
		m.Headers = []*schema.Header{{Name: "x-api-key", Type: "string", Required: true, Format: "uuid"}}
		out = append(out, pinned{File: "C18/header_case_variant_declared_twice.json", Doc: &c18Case{Property: "C18", Schema: s}})
	}
	{
		s, _, _, _, svc := baseSchema("p0049")
		svc.Headers = []*schema.Header{{Name: "X-Tenant", Type: "string", Required: true, Description: "the \"tenant\" id", Example: "C:\\temp"}}
		out = append(out, pinned{File: "C12/header_text_with_quotes_refused_by_go_http.json", Doc: &c12Case{Property: "C12", Kind: "valid", Plugin: "protoc-gen-go-http", Schema: s}})
		s2, _, _, _, svc2 := baseSchema("p0050")
		svc2.Headers = []*schema.Header{{Name: "X-Tenant", Type: "string", Required: true, Description: "line one\nline two"}}
		out = append(out, pinned{File: "C12/multiline_header_description_refused_by_go_client.json", Doc: &c12Case{Property: "C12", Kind: "valid", Plugin: "protoc-gen-go-client", Schema: s2}})
		s3, req3, _, _, _ := baseSchema("p0051")
		s3.Files[0].Enums = append(s3.Files[0].Enums, &schema.Enum{Name: "Height", Values: []*schema.EnumValue{{Name: "HEIGHT_UNSPECIFIED", Number: 0}, {Name: "HEIGHT_TALL", Number: 1, Custom: "5'6\""}}})
		req3.Fields = append(req3.Fields, &schema.Field{Name: "height", Number: 2, Kind: schema.KEnum, TypeRef: s3.Pkg + ".Height", Card: schema.Singular})
		out = append(out, pinned{File: "C12/enum_value_with_quote_refused.json", Doc: &c12Case{Property: "C12", Kind: "valid", Plugin: "protoc-gen-go-http", Schema: s3}})
		out = append(out, pinned{File: "C13/ts_enum_value_with_quote.json", Doc: &c13Case{Property: "C13", Kind: "ts", Schema: s3}})
		s4, _, resp4, _, _ := baseSchema("p0052")
		s4.Files = append(s4.Files, &schema.File{Name: "p0052/ext/common.proto", Companion: true, Pkg: "p0052.ext", GoPath: s4.GoPath + "/ext", GoPkg: "ext",
			Messages: []*schema.Message{{Name: "Address", Fields: []*schema.Field{fld("city", 1, schema.KString, schema.Singular)}}}})
		resp4.Fields = append(resp4.Fields, &schema.Field{Name: "home", Number: 2, Kind: schema.KMessage, TypeRef: "p0052.ext.Address", Card: schema.Singular, Ann: &schema.Ann{Flatten: true}})
		goCase("C13", "C13/flatten_child_from_other_package.json", "server", "", s4)
		s5, _, _, _, _ := baseSchema("p0053")
		s5.Files = append(s5.Files, &schema.File{Name: "p0053/second_service.proto", Generate: true,
			Messages: []*schema.Message{{Name: "PingRequest"}, {Name: "PingResponse", Fields: []*schema.Field{fld("ok", 1, schema.KBool, schema.Singular)}}},
			Services: []*schema.Service{{Name: "OtherService", Methods: []*schema.Method{{Name: "Ping", Input: s5.Pkg + ".PingRequest", Output: s5.Pkg + ".PingResponse", HasConfig: true, Path: "/ping", Verb: 2}}}}})
		goCase("C13", "C13/two_service_files_in_one_package.json", "both", "", s5)
	}
	{
		// two RPCs without an explicit path under a base_path: both are published at the base path
		s, _, _, m, svc := baseSchema("p0045")
		svc.BasePath = "/api/v1"
		m.HasConfig, m.Path, m.Verb = false, "", 0
		svc.Methods = append(svc.Methods, &schema.Method{Name: "Undo", Input: s.Pkg + ".DoRequest", Output: s.Pkg + ".DoResponse"})
		out = append(out, pinned{File: "C18/default_paths_collapse_into_one_operation.json", Doc: &c18Case{Property: "C18", Schema: s}})
	}
	{
		// Order.Item and Shipment.Item: one component schema "Item" for two different messages
		s, _, resp, _, _ := baseSchema("p0046")
		order := &schema.Message{Name: "Order", Fields: []*schema.Field{fld("id", 1, schema.KString, schema.Singular)},
			Nested: []*schema.Message{{Name: "Item", Fields: []*schema.Field{fld("sku", 1, schema.KString, schema.Singular)}}}}
		ship := &schema.Message{Name: "Shipment", Fields: []*schema.Field{fld("id", 1, schema.KString, schema.Singular)},
			Nested: []*schema.Message{{Name: "Item", Fields: []*schema.Field{fld("weight", 1, schema.KInt32, schema.Singular)}}}}
		order.Fields = append(order.Fields, &schema.Field{Name: "item", Number: 2, Kind: schema.KMessage, TypeRef: s.Pkg + ".Order.Item", Card: schema.Singular})
		ship.Fields = append(ship.Fields, &schema.Field{Name: "item", Number: 2, Kind: schema.KMessage, TypeRef: s.Pkg + ".Shipment.Item", Card: schema.Singular})
		s.Files[0].Messages = append(s.Files[0].Messages, order, ship)
		resp.Fields = append(resp.Fields, &schema.Field{Name: "order", Number: 2, Kind: schema.KMessage, TypeRef: s.Pkg + ".Order", Card: schema.Singular},
			&schema.Field{Name: "shipment", Number: 3, Kind: schema.KMessage, TypeRef: s.Pkg + ".Shipment", Card: schema.Singular})
		out = append(out, pinned{File: "C18/nested_messages_share_component_schema_name.json", Doc: &c18Case{Property: "C18", Schema: s, Strict: true}})
	}
	{
		// a string field whose examples are YAML 1.1 boolean words / number-like text
		s, _, resp, _, _ := baseSchema("p0047")
		resp.Fields = append(resp.Fields, &schema.Field{Name: "answer", Number: 2, Kind: schema.KString, Card: schema.Singular, Ann: &schema.Ann{Examples: []string{"no", "on", "123"}}})
		out = append(out, pinned{File: "C18/string_examples_become_booleans_in_json.json", Doc: &c18Case{Property: "C18", Schema: s}})
	}
	{
		s, _, _, _, svc := baseSchema("p0048")
		svc.Headers = []*schema.Header{{Name: "X-Answer", Type: "string", Required: true, Example: "no"}}
		out = append(out, pinned{File: "C18/string_header_example_becomes_boolean_in_json.json", Doc: &c18Case{Property: "C18", Schema: s}})
	}
	{
		s, _, resp, _, _ := baseSchema("p0060")
		resp.Oneofs = []*schema.Oneof{{Name: "content", Discriminator: "kind"}}
		resp.Fields = append(resp.Fields, &schema.Field{Name: "text", Number: 2, Kind: schema.KString, Card: schema.Singular, Oneof: "content"},
			&schema.Field{Name: "count", Number: 3, Kind: schema.KInt32, Card: schema.Singular, Oneof: "content"})
		innerCase("C06", "C06/discriminated_oneof_schema_unsatisfiable.json", "both", "c06", "PinService.Do", s, "oneof_disc_openapi_schema")
		s2, _, resp2, _, _ := baseSchema("p0061")
		resp2.Fields = append(resp2.Fields, fld("ratio", 2, schema.KDouble, schema.Singular))
		innerCase("C06", "C06/nan_sent_as_string.json", "both", "c06", "PinService.Do", s2, "float_nonfinite_vs_number_schema")
		s3, _, resp3, _, _ := baseSchema("p0062")
		s3.Files[0].Enums = []*schema.Enum{{Name: "Color", Values: []*schema.EnumValue{{Name: "COLOR_UNSPECIFIED", Number: 0}, {Name: "COLOR_RED", Number: 1}}}}
		resp3.Fields = append(resp3.Fields, &schema.Field{Name: "color", Number: 2, Kind: schema.KEnum, TypeRef: s3.Pkg + ".Color", Card: schema.Optional, Ann: &schema.Ann{Nullable: true}})
		innerCase("C06", "C06/nullable_enum_null_not_in_enum.json", "both", "c06", "PinService.Do", s3, "nullable_enum_schema")
	}
	{
		s, req, _, m, _ := baseSchema("p0070")
		m.Verb, m.Path = 1, "/things/{num}"
		req.Fields = []*schema.Field{fld("num", 1, schema.KBool, schema.Singular)}
		innerCase("C08", "C08/ts_server_bool_path_param_is_string.json", "both", "c08", "PinService.Do", s, "ts_server_path_params_are_strings")
		s2, req2, _, m2, _ := baseSchema("p0071")
		m2.Verb, m2.Path = 1, "/things"
		req2.Fields = []*schema.Field{{Name: "big", Number: 1, Kind: schema.KInt64, Card: schema.Singular, Ann: &schema.Ann{Query: &schema.Query{Name: "big"}}},
			{Name: "name", Number: 2, Kind: schema.KString, Card: schema.Singular, Ann: &schema.Ann{Query: &schema.Query{Name: "name"}}}}
		innerCase("C08", "C08/ts_server_absent_int64_query.json", "both", "c08", "PinService.Do", s2, "ts_server_absent_int64_query_empty_string")
		s3, _, _, m3, svc3 := baseSchema("p0072")
		svc3.Headers = []*schema.Header{{Name: "X-Count", Type: "string", Format: "time"}}
		m3.Headers = []*schema.Header{{Name: "X-Count", Type: "integer", Required: true}}
		innerCase("C09", "C09/ts_server_validates_service_and_method_header.json", "both", "c08", "PinService.Do", s3, "ts_header_override_not_merged")
	}
	{
		s, _, resp, _, _ := baseSchema("p0080")
		resp.Fields = append(resp.Fields, fld("total", 2, schema.KInt32, schema.Singular))
		innerCase("C07", "C07/required_property_omitted_when_zero.json", "both", "c07", "PinService.Do", s, "ts_required_but_omitted_when_zero")
		s2, req2, _, m2, _ := baseSchema("p0081")
		m2.Verb, m2.Path = 3, "/things/{num}"
		req2.Fields = []*schema.Field{fld("num", 1, schema.KInt32, schema.Singular), fld("name", 2, schema.KString, schema.Singular)}
		innerCase("C07", "C07/ts_handler_path_param_is_string.json", "both", "c07", "PinService.Do", s2, "ts_handler_path_params_typed_as_strings")
		s3, _, resp3, _, _ := baseSchema("p0082")
		child := &schema.Message{Name: "Extra", Fields: []*schema.Field{fld("note", 1, schema.KString, schema.Singular)}}
		s3.Files[0].Messages = append(s3.Files[0].Messages, child)
		resp3.Fields = append(resp3.Fields, &schema.Field{Name: "extra", Number: 2, Kind: schema.KMessage, TypeRef: s3.Pkg + ".Extra", Card: schema.Singular, Ann: &schema.Ann{EmptyBehavior: 2}})
		innerCase("C07", "C07/empty_behavior_null_not_in_type.json", "both", "c07", "PinService.Do", s3, "ts_empty_behavior_null_not_declared")
		s4, _, resp4, _, _ := baseSchema("p0083")
		s4.Files[0].Messages = append(s4.Files[0].Messages, &schema.Message{Name: "Note", Fields: []*schema.Field{fld("text", 1, schema.KString, schema.Singular)}})
		resp4.Oneofs = []*schema.Oneof{{Name: "content", Discriminator: "kind"}}
		resp4.Fields = append(resp4.Fields, &schema.Field{Name: "note", Number: 2, Kind: schema.KMessage, TypeRef: s4.Pkg + ".Note", Card: schema.Singular, Oneof: "content"},
			&schema.Field{Name: "count", Number: 3, Kind: schema.KInt32, Card: schema.Singular, Oneof: "content"})
		innerCase("C07", "C07/unflattened_discriminated_oneof_nested_in_type.json", "both", "c07", "PinService.Do", s4, "ts_oneof_disc_nested_under_oneof_name")
	}
	// ---- C19 ----
	rules := func(id string, fields ...*schema.Field) *schema.Schema {
		pkg := id + ".rules.v1"
		req := &schema.Message{Name: "CheckRequest", Fields: fields}
		resp := &schema.Message{Name: "CheckResponse", Fields: []*schema.Field{fld("ok", 1, schema.KBool, schema.Singular)}}
		return &schema.Schema{ID: id, Pkg: pkg, GoPkg: id + "rules", GoPath: "verif.test/gen/" + id, Profile: "pinned",
			Files: []*schema.File{{Name: id + "/rules.proto", Generate: true, Messages: []*schema.Message{req, resp},
				Services: []*schema.Service{{Name: "RuleService", Methods: []*schema.Method{{Name: "Check", Input: pkg + ".CheckRequest", Output: pkg + ".CheckResponse", HasConfig: true, Path: "/check", Verb: 2}}}}}}}
	}
	sp := func(v string) *string { return &v }
	up := func(v uint64) *uint64 { return &v }
	c19 := func(file string, s *schema.Schema) {
		out = append(out, pinned{File: file, Doc: &c19Case{Property: "C19", Schema: s}})
	}
	c19("C19/exclusive_bounds_rendered_false.json", rules("p0050", &schema.Field{Name: "f0_count", Number: 1, Kind: schema.KInt32, Card: schema.Singular, Rules: &schema.Rules{Gt: sp("0"), Lt: sp("10")}}))
	c19("C19/rules_dropped_for_uint32.json", rules("p0051", &schema.Field{Name: "f0_count", Number: 1, Kind: schema.KUint32, Card: schema.Singular, Rules: &schema.Rules{Gte: sp("5"), Lte: sp("10")}}))
	c19("C19/untagged_yaml_scalar_const.json", rules("p0052", &schema.Field{Name: "f0_label", Number: 1, Kind: schema.KString, Card: schema.Singular, Rules: &schema.Rules{StrConst: sp("123")}}))
	c19("C19/zero_upper_bound_dropped.json", rules("p0053", &schema.Field{Name: "f0_label", Number: 1, Kind: schema.KString, Card: schema.Singular, Rules: &schema.Rules{MaxLen: up(0)}}))
	c19("C19/numeric_bounds_on_string_typed_int64.json", rules("p0054", &schema.Field{Name: "f0_count", Number: 1, Kind: schema.KInt64, Card: schema.Singular, Rules: &schema.Rules{Gte: sp("5")}}))
	c19("C19/bounds_beyond_2_53_rounded.json", rules("p0055", &schema.Field{Name: "f0_count", Number: 1, Kind: schema.KInt64, Card: schema.Singular, Ann: &schema.Ann{Int64Encoding: 2}, Rules: &schema.Rules{Gte: sp("9007199254740993")}}))
	c19("C19/address_published_as_ip.json", rules("p0056", &schema.Field{Name: "f0_label", Number: 1, Kind: schema.KString, Card: schema.Singular, Rules: &schema.Rules{WellKnown: "address"}}))
	// ---- C20 open ----
	{
		s, _, resp, _, _ := baseSchema("p0013")
		resp.Fields = []*schema.Field{fld("nick", 1, schema.KString, schema.Optional), fld("tags", 2, schema.KString, schema.Repeated), fld("small", 3, schema.KInt32, schema.Singular)}
		goCase("C20", "C20/mock_unsupported_fields.json", "server", "generate_mock=true", s)
	}
	return out
}

// WritePinned writes every pinned replay below /verif/replays.
func WritePinned() error {
	for _, p := range pinnedCases() {
		path := filepath.Join(core.Root(), "replays", p.File)
		if err := os.MkdirAll(filepath.Dir(path), 0o755); err != nil {
			return err
		}
		b, err := json.MarshalIndent(p.Doc, "", " ")
		if err != nil {
			return err
		}
		if err := os.WriteFile(path, append(b, '\n'), 0o644); err != nil {
			return err
		}
		fmt.Println("wrote", path)
	}
	return nil
}

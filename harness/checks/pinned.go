package checks

import (
	"encoding/json"
	"fmt"
	"os"
	"path/filepath"

	"verif/harness/core"
	"verif/harness/schema"
)

// Pinned replays: small hand-built schemas, one per confirmed finding (open or fixed). They are
// written by `verif pin` into /verif/replays and re-run first by every check.

type pinned struct {
	File string // relative to /verif/replays
	Doc  any
}

func baseSchema(id string) (*schema.Schema, *schema.Message, *schema.Message, *schema.Method, *schema.Service) {
	req := &schema.Message{Name: "DoRequest", Fields: []*schema.Field{{Name: "name", Number: 1, Kind: schema.KString, Card: schema.Singular}}}
	resp := &schema.Message{Name: "DoResponse", Fields: []*schema.Field{{Name: "ok", Number: 1, Kind: schema.KBool, Card: schema.Singular}}}
	pkg := id + ".pin.v1"
	m := &schema.Method{Name: "Do", Input: pkg + ".DoRequest", Output: pkg + ".DoResponse", HasConfig: true, Path: "/things", Verb: 2}
	svc := &schema.Service{Name: "PinService", Methods: []*schema.Method{m}}
	s := &schema.Schema{ID: id, Pkg: pkg, GoPkg: id + "pin", GoPath: "verif.test/gen/" + id, Profile: "pinned",
		Files: []*schema.File{{Name: id + "/api.proto", Generate: true, Messages: []*schema.Message{req, resp}, Services: []*schema.Service{svc}}}}
	return s, req, resp, m, svc
}

func fld(name string, num int32, k schema.Kind, card schema.Card) *schema.Field {
	return &schema.Field{Name: name, Number: num, Kind: k, Card: card}
}

func pinnedCases() []pinned {
	var out []pinned
	goCase := func(prop, file, variant, param string, s *schema.Schema) {
		out = append(out, pinned{File: file, Doc: &c13Case{Property: prop, Kind: "go", Variant: variant, Param: param, Schema: s}})
	}
	// ---- C13 fixed ----
	{
		s, req, _, _, _ := baseSchema("p0001")
		req.Oneofs = []*schema.Oneof{{Name: "content", Discriminator: "type"}}
		req.Fields = append(req.Fields, &schema.Field{Name: "text", Number: 2, Kind: schema.KString, Card: schema.Singular, Oneof: "content"},
			&schema.Field{Name: "count", Number: 3, Kind: schema.KInt32, Card: schema.Singular, Oneof: "content"})
		goCase("C13", "C13/oneof_discriminator_vet.json", "both", "", s)
	}
	{
		s, req, _, m, _ := baseSchema("p0002")
		m.Verb, m.Path = 1, "/things/{name}"
		req.Fields = append(req.Fields, &schema.Field{Name: "page", Number: 2, Kind: schema.KInt32, Card: schema.Singular, Ann: &schema.Ann{Query: &schema.Query{Name: "page"}}})
		out = append(out, pinned{File: "C13/ts_server_url_declared_twice.json", Doc: &c13Case{Property: "C13", Kind: "ts", Schema: s}})
	}
	{
		s, _, _, m, svc := baseSchema("p0003")
		svc.Headers = []*schema.Header{{Name: "X-API-Key", Type: "string", Required: true}}
		m.Headers = []*schema.Header{{Name: "X-API-Key", Type: "string", Required: true, Format: "uuid"}}
		goCase("C13", "C13/duplicate_header_helper.json", "client", "", s)
	}
	{
		s, req, _, m, _ := baseSchema("p0004")
		m.Verb, m.Path = 1, "/things/{field_2}"
		req.Fields = []*schema.Field{fld("field_2", 1, schema.KString, schema.Singular)}
		goCase("C13", "C13/path_param_digit_name.json", "client", "", s)
	}
	{
		s, _, resp, _, _ := baseSchema("p0005")
		resp.Fields = []*schema.Field{{Name: "items", Number: 1, Kind: schema.KString, Card: schema.Repeated, Ann: &schema.Ann{Unwrap: true}}}
		goCase("C13", "C13/unwrap_scalar_unused_import.json", "server", "", s)
	}
	// ---- C13 open ----
	{
		s, req, _, _, _ := baseSchema("p0006")
		req.Fields = append(req.Fields, &schema.Field{Name: "big", Number: 2, Kind: schema.KInt64, Card: schema.Singular, Ann: &schema.Ann{Int64Encoding: 2}},
			&schema.Field{Name: "nick", Number: 3, Kind: schema.KString, Card: schema.Optional, Ann: &schema.Ann{Nullable: true}})
		goCase("C13", "C13/multi_feature.json", "both", "", s)
	}
	{
		s, req, _, _, _ := baseSchema("p0007")
		req.Fields = append(req.Fields, &schema.Field{Name: "big", Number: 2, Kind: schema.KInt64, Card: schema.Optional, Ann: &schema.Ann{Int64Encoding: 2}})
		goCase("C13", "C13/int64_number_optional.json", "both", "", s)
	}
	{
		s, req, _, _, _ := baseSchema("p0008")
		req.Fields = append(req.Fields, &schema.Field{Name: "stamps", Number: 2, Kind: schema.KTimestamp, Card: schema.Repeated, Ann: &schema.Ann{TimestampFormat: 2}})
		goCase("C13", "C13/timestamp_format_repeated.json", "both", "", s)
	}
	{
		s, req, _, _, _ := baseSchema("p0009")
		req.Fields = append(req.Fields, &schema.Field{Name: "blobs", Number: 2, Kind: schema.KBytes, Card: schema.Repeated, Ann: &schema.Ann{BytesEncoding: 5}})
		goCase("C13", "C13/bytes_encoding_repeated.json", "both", "", s)
	}
	{
		s, _, resp, _, _ := baseSchema("p0010")
		line := &schema.Message{Name: "Line", Fields: []*schema.Field{fld("text", 1, schema.KString, schema.Singular)}}
		s.Files[0].Messages = append(s.Files[0].Messages, line)
		resp.Fields = []*schema.Field{{Name: "by_key", Number: 1, Kind: schema.KMessage, TypeRef: s.Pkg + ".Line", Card: schema.Map, MapKey: schema.KUint64, Ann: &schema.Ann{Unwrap: true}}}
		goCase("C13", "C13/unwrap_root_map_nonstring_key.json", "server", "", s)
	}
	{
		s, _, resp, _, _ := baseSchema("p0011")
		wrap := &schema.Message{Name: "TagList", Fields: []*schema.Field{{Name: "items", Number: 1, Kind: schema.KString, Card: schema.Repeated, Ann: &schema.Ann{Unwrap: true}}}}
		s.Files[0].Messages = append(s.Files[0].Messages, wrap)
		resp.Fields = []*schema.Field{fld("nick", 1, schema.KString, schema.Optional),
			{Name: "tags", Number: 2, Kind: schema.KMessage, TypeRef: s.Pkg + ".TagList", Card: schema.Map, MapKey: schema.KString}}
		goCase("C13", "C13/unwrap_container_optional_sibling.json", "server", "", s)
	}
	{
		s, req, _, m, _ := baseSchema("p0012")
		m.Verb = 1
		req.Fields = []*schema.Field{{Name: "ids", Number: 1, Kind: schema.KInt32, Card: schema.Repeated, Ann: &schema.Ann{Query: &schema.Query{Name: "id"}}}}
		goCase("C13", "C13/query_repeated_client.json", "client", "", s)
	}
	{
		s, req, _, _, _ := baseSchema("p0014")
		req.Oneofs = []*schema.Oneof{{Name: "content", Discriminator: "type"}}
		req.Fields = append(req.Fields, &schema.Field{Name: "text", Number: 2, Kind: schema.KString, Card: schema.Singular, Oneof: "content"},
			&schema.Field{Name: "at", Number: 3, Kind: schema.KTimestamp, Card: schema.Singular, Oneof: "content"})
		goCase("C13", "C13/oneof_disc_timestamp_variant.json", "both", "", s)
	}
	// ---- C20 open ----
	{
		s, _, resp, _, _ := baseSchema("p0013")
		resp.Fields = []*schema.Field{fld("nick", 1, schema.KString, schema.Optional), fld("tags", 2, schema.KString, schema.Repeated), fld("small", 3, schema.KInt32, schema.Singular)}
		goCase("C20", "C20/mock_unsupported_fields.json", "server", "generate_mock=true", s)
	}
	return out
}

// WritePinned writes every pinned replay below /verif/replays.
func WritePinned() error {
	for _, p := range pinnedCases() {
		path := filepath.Join(core.Root(), "replays", p.File)
		if err := os.MkdirAll(filepath.Dir(path), 0o755); err != nil {
			return err
		}
		b, err := json.MarshalIndent(p.Doc, "", " ")
		if err != nil {
			return err
		}
		if err := os.WriteFile(path, append(b, '\n'), 0o644); err != nil {
			return err
		}
		fmt.Println("wrote", path)
	}
	return nil
}

package checks

import (
	"encoding/json"
	"fmt"
	"strings"
	"time"

	"pgregory.net/rapid"

	"verif/harness/core"
	"verif/harness/plugin"
	"verif/harness/rapidx"
	"verif/harness/schema"
)

// C14 — go-http and go-client emit interchangeable codec files.
// Part (a), decided here at the plugin boundary: same-named files are identical apart from
// the generator name in the header comment. Part (b) (client-only package encodes/decodes like
// the server package) runs the emitted code; see c14b in runtime.go.

type c14Case struct {
	Property string          `json:"property"`
	Kind     string          `json:"kind"` // "identity" | "behaviour"
	Schema   *schema.Schema  `json:"schema"`
	File     string          `json:"file,omitempty"`
	Observed string          `json:"observed,omitempty"`
	Inner    json.RawMessage `json:"inner,omitempty"`
}

func init() { register(&Check{ID: "C14", Run: runC14, Replay: replayC14}) }

func normaliseGenerator(s string) string {
	s = strings.ReplaceAll(s, "protoc-gen-go-http", "protoc-gen-go-X")
	s = strings.ReplaceAll(s, "protoc-gen-go-client", "protoc-gen-go-X")
	return s
}

// c14Identity returns "" when every same-named file is identical; otherwise a description.
func c14Identity(c *core.Ctx, s *schema.Schema) (msg string, common int, file string, err error) {
	req, err := schema.Request("", s)
	if err != nil {
		return "", 0, "", err
	}
	if _, err := schema.Gate(req); err != nil {
		return "", 0, "", fmt.Errorf("generator bug: gate: %w", err)
	}
	rs := runAll(c.Plugins, []string{plugin.GoHTTP, plugin.GoClient}, req, nil, plugin.Opts{})
	h, cl := rs[plugin.GoHTTP], rs[plugin.GoClient]
	for _, r := range []*plugin.Result{h, cl} {
		if crashed, why := r.Crashed(); crashed {
			return fmt.Sprintf("%s crashed: %s", r.Plugin, why), 0, "", nil
		}
	}
	if h.Err() != "" || cl.Err() != "" {
		// acceptance is C12's concern; nothing to compare
		c.Ev.Class("a:skipped_plugin_refused_schema", 1)
		return "", 0, "", nil
	}
	hf, cf := h.Files(), cl.Files()
	for _, n := range sortedKeys(hf) {
		cc, ok := cf[n]
		if !ok {
			continue
		}
		common++
		if normaliseGenerator(hf[n]) != normaliseGenerator(cc) {
			return fmt.Sprintf("file %s differs between go-http and go-client: %s", n, firstDiff(normaliseGenerator(hf[n]), normaliseGenerator(cc))), common, n, nil
		}
	}
	return "", common, "", nil
}

func runC14(c *core.Ctx) error {
	ch := Registry["C14"]
	if err := runPinned(c, ch); err != nil {
		return err
	}
	avoid := c.KF.Avoid()
	total := c.Pick(150, 5000)
	chunks := c.Pick(3, 25)
	c.Ev.Coverage.Rule = "part (a): cases = valid schema (full profile: every codec feature, service-less second files, nested annotated types) run through go-http and go-client; oracle = byte equality of every file name both emit, after replacing the generator name. Non-trivial = schema for which both plugins emit >= 1 common file; distinct by schema. Part (b): see classes b:* — the same value stream is encoded/decoded by a server-only and a client-only build of the same schema and compared."
	prof := schema.ProfileFull(avoid)
	for k := 0; k < chunks; k++ {
		var last *c14Case
		n := 0
		res := rapidx.Check("C14", total/chunks, uint64(c.SubSeed(k)), 30*time.Second, func(t *rapid.T) {
			s := schema.Generate(t, prof, "c0001")
			n++
			msg, common, file, err := c14Identity(c, s)
			if err != nil {
				panic(err)
			}
			c.Ev.Eval(1)
			c.Ev.Class(fmt.Sprintf("a:common_files:%d", min(common, 6)), 1)
			if common > 0 {
				c.Ev.Nontrivial(schemaKey(s))
			}
			countAvoided(c, s, avoid)
			if common > 0 {
				c.Ev.Sample(map[string]any{"schema": s, "common_files": common}, 2)
			}
			if msg != "" {
				last = &c14Case{Property: "C14", Kind: "identity", Schema: s, File: file, Observed: msg}
				t.Fatalf("%s", msg)
			}
		})
		c.Ev.Coverage.Schemas += res.Passed
		if res.Failed && last != nil {
			c.Violation("c14-identity", last, last.Observed)
		} else if res.Failed {
			return fmt.Errorf("rapid failed without a recorded case: %s", res.Message)
		}
	}
	return runC14b(c)
}

// runC14b is replaced by the runtime part once the inner engine is linked in.
var runC14b = func(c *core.Ctx) error { return nil }
var replayC14b = func(c *core.Ctx, cs *c14Case) (bool, string, error) {
	return false, "", fmt.Errorf("behaviour replay not available")
}

func replayC14(c *core.Ctx, doc json.RawMessage) (bool, string, error) {
	var cs c14Case
	if err := json.Unmarshal(doc, &cs); err != nil {
		return false, "", err
	}
	if cs.Kind == "behaviour" {
		return replayC14b(c, &cs)
	}
	msg, _, _, err := c14Identity(c, cs.Schema)
	if err != nil {
		return false, "", err
	}
	if msg != "" {
		return true, msg, nil
	}
	return false, "files identical", nil
}

package checks

import (
	"encoding/json"
	"fmt"
	"regexp"
	"sort"
	"strings"
	"time"

	"google.golang.org/protobuf/reflect/protoreflect"
	"google.golang.org/protobuf/reflect/protoregistry"
	"pgregory.net/rapid"

	"verif/harness/core"
	"verif/harness/model"
	"verif/harness/oas"
	"verif/harness/plugin"
	"verif/harness/rapidx"
	"verif/harness/schema"
)

// C18 — each OpenAPI document is well-formed, complete and format-independent.

type c18Case struct {
	Property string         `json:"property"`
	Schema   *schema.Schema `json:"schema"`
	Observed string         `json:"observed,omitempty"`
	// Strict disables the tolerance an open finding turns on (pinned replays of that finding).
	Strict bool `json:"strict,omitempty"`
}

// c18SharedNames: while the finding about colliding component schema names is open, the "describes"
// assertion is not made for short names shared by several reachable messages; every other rule
// (references, parameters, operations, formats) is still checked on those documents.
var c18SharedNames struct {
	tolerate bool
	skipped  int
}

func init() { register(&Check{ID: "C18", Run: runC18, Replay: replayC18}) }

var tmplVarRe = regexp.MustCompile(`\{([^}]+)\}`)

// openapiDocs runs the OpenAPI plugin with a format parameter and parses every emitted file.
func openapiDocs(c *core.Ctx, s *schema.Schema, format string) (map[string]any, map[string]string, string, error) {
	param := ""
	if format != "" {
		param = "format=" + format
	}
	req, err := schema.Request(param, s)
	if err != nil {
		return nil, nil, "", err
	}
	if _, err := schema.Gate(req); err != nil {
		return nil, nil, "", fmt.Errorf("generator bug: gate: %w", err)
	}
	res := c.Plugins.Run(plugin.OpenAPI, req, plugin.Opts{})
	if crashed, why := res.Crashed(); crashed {
		return nil, nil, fmt.Sprintf("plugin crashed (%s): %s", why, trunc(res.Stderr, 300)), nil
	}
	if e := res.Err(); e != "" {
		return nil, nil, "plugin refused the schema: " + trunc(e, 300), nil
	}
	docs := map[string]any{}
	raw := res.Files()
	for name, content := range raw {
		var tree any
		var perr error
		if strings.HasSuffix(name, ".json") {
			tree, perr = oas.ParseJSON([]byte(content))
		} else {
			tree, perr = oas.ParseYAML([]byte(content))
		}
		if perr != nil {
			return nil, nil, fmt.Sprintf("%s does not parse: %v", name, perr), nil
		}
		docs[name] = tree
	}
	return docs, raw, "", nil
}

// reachableMessages returns the messages reachable from a service's RPCs (map entries and
// google.protobuf.* excluded), keyed by full name.
func reachableMessages(sd protoreflect.ServiceDescriptor) map[protoreflect.FullName]protoreflect.MessageDescriptor {
	out := map[protoreflect.FullName]protoreflect.MessageDescriptor{}
	var walk func(md protoreflect.MessageDescriptor)
	walk = func(md protoreflect.MessageDescriptor) {
		if md.IsMapEntry() || strings.HasPrefix(string(md.FullName()), "google.protobuf.") {
			return
		}
		if _, ok := out[md.FullName()]; ok {
			return
		}
		out[md.FullName()] = md
		fs := md.Fields()
		for i := 0; i < fs.Len(); i++ {
			fd := fs.Get(i)
			switch {
			case fd.IsMap():
				if fd.MapValue().Kind() == protoreflect.MessageKind {
					walk(fd.MapValue().Message())
				}
			case fd.Kind() == protoreflect.MessageKind:
				walk(fd.Message())
			}
		}
	}
	for i := 0; i < sd.Methods().Len(); i++ {
		walk(sd.Methods().Get(i).Input())
		walk(sd.Methods().Get(i).Output())
	}
	return out
}

// describes reports whether the component schema plausibly describes md: for messages without
// structural annotations every field's JSON name must be a declared property and vice versa.
func describes(doc any, schemaNode any, md protoreflect.MessageDescriptor) string {
	if model.HasAnnotations(md) || model.RootUnwrap(md) {
		return "" // annotated shapes are judged by instance validation (C06)
	}
	props := map[string]bool{}
	var collect func(n any, depth int)
	collect = func(n any, depth int) {
		if depth > 6 {
			return
		}
		o := oas.Obj(n)
		if o == nil {
			return
		}
		if ref := oas.Str(o["$ref"]); ref != "" {
			if t, ok := oas.ResolvePointer(doc, ref); ok {
				collect(t, depth+1)
			}
		}
		for k := range oas.Obj(o["properties"]) {
			props[k] = true
		}
		for _, key := range []string{"allOf", "oneOf", "anyOf"} {
			for _, sub := range oas.Arr(o[key]) {
				collect(sub, depth+1)
			}
		}
	}
	collect(schemaNode, 0)
	fs := md.Fields()
	want := map[string]bool{}
	for i := 0; i < fs.Len(); i++ {
		want[fs.Get(i).JSONName()] = true
	}
	for k := range want {
		if !props[k] {
			return fmt.Sprintf("component schema %s does not declare property %q of message %s (declared: %v)", md.Name(), k, md.FullName(), sortedBoolKeys(props))
		}
	}
	for k := range props {
		if !want[k] {
			return fmt.Sprintf("component schema %s declares property %q which message %s does not have", md.Name(), k, md.FullName())
		}
	}
	return ""
}

func sortedBoolKeys(m map[string]bool) []string {
	ks := make([]string, 0, len(m))
	for k := range m {
		ks = append(ks, k)
	}
	sort.Strings(ks)
	return ks
}

var httpVerbs = []string{"get", "put", "post", "delete", "options", "head", "patch", "trace"}

// checkDocument applies the structural rules to one parsed document.
func checkDocument(name string, doc any, sd protoreflect.ServiceDescriptor) string {
	root := oas.Obj(doc)
	if root == nil {
		return name + ": document root is not an object"
	}
	if v := oas.Str(root["openapi"]); !strings.HasPrefix(v, "3.1.") {
		return fmt.Sprintf("%s: openapi version %q is not 3.1.x", name, root["openapi"])
	}
	info := oas.Obj(root["info"])
	if info == nil || oas.Str(info["title"]) == "" || oas.Str(info["version"]) == "" {
		return name + ": info.title / info.version missing"
	}
	if root["paths"] == nil && root["components"] == nil && root["webhooks"] == nil {
		return name + ": none of paths / components / webhooks present"
	}
	var refs []string
	oas.Refs(doc, &refs)
	for _, r := range refs {
		if _, ok := oas.ResolvePointer(doc, r); !ok {
			return fmt.Sprintf("%s: reference %s does not resolve", name, r)
		}
	}
	opIDs := map[string]string{}
	ops := 0
	for _, p := range oas.Keys(oas.Obj(root["paths"])) {
		item := oas.Obj(oas.Obj(root["paths"])[p])
		if !strings.HasPrefix(p, "/") {
			return fmt.Sprintf("%s: path %q does not start with a slash", name, p)
		}
		vars := map[string]int{}
		for _, m := range tmplVarRe.FindAllStringSubmatch(p, -1) {
			vars[m[1]]++
		}
		for _, verb := range httpVerbs {
			op := oas.Obj(item[verb])
			if op == nil {
				continue
			}
			ops++
			id := oas.Str(op["operationId"])
			if id == "" {
				return fmt.Sprintf("%s: %s %s has no operationId", name, verb, p)
			}
			if prev, dup := opIDs[id]; dup {
				return fmt.Sprintf("%s: operationId %q used by %s and %s %s", name, id, prev, verb, p)
			}
			opIDs[id] = verb + " " + p
			seen := map[string]bool{}
			pathParams := map[string]int{}
			for _, prm := range append(oas.Arr(item["parameters"]), oas.Arr(op["parameters"])...) {
				po := oas.Obj(prm)
				if ref := oas.Str(po["$ref"]); ref != "" {
					if t, ok := oas.ResolvePointer(doc, ref); ok {
						po = oas.Obj(t)
					}
				}
				key := oas.Str(po["in"]) + ":" + oas.Str(po["name"])
				if oas.Str(po["in"]) == "header" {
					key = "header:" + strings.ToLower(oas.Str(po["name"]))
				}
				if seen[key] {
					return fmt.Sprintf("%s: %s %s declares parameter %s twice", name, verb, p, key)
				}
				seen[key] = true
				if oas.Str(po["in"]) == "path" {
					pathParams[oas.Str(po["name"])]++
					if req, _ := po["required"].(bool); !req {
						return fmt.Sprintf("%s: %s %s path parameter %q is not required", name, verb, p, po["name"])
					}
				}
				if po["schema"] == nil && po["content"] == nil {
					return fmt.Sprintf("%s: %s %s parameter %s has neither schema nor content", name, verb, p, key)
				}
			}
			for v, n := range vars {
				if n != 1 {
					return fmt.Sprintf("%s: template %s uses variable {%s} %d times", name, p, v, n)
				}
				if pathParams[v] != 1 {
					return fmt.Sprintf("%s: %s %s: template variable {%s} is declared %d times as a path parameter", name, verb, p, v, pathParams[v])
				}
			}
			for v := range pathParams {
				if vars[v] == 0 {
					return fmt.Sprintf("%s: %s %s declares path parameter %q which is not in the template", name, verb, p, v)
				}
			}
			if op["responses"] == nil {
				return fmt.Sprintf("%s: %s %s has no responses", name, verb, p)
			}
		}
	}
	if sd != nil {
		if ops != sd.Methods().Len() {
			return fmt.Sprintf("%s: %d operations for %d RPCs of service %s (two RPCs share a path item slot, or one is missing)", name, ops, sd.Methods().Len(), sd.Name())
		}
		for i := 0; i < sd.Methods().Len(); i++ {
			if _, ok := opIDs[string(sd.Methods().Get(i).Name())]; !ok {
				return fmt.Sprintf("%s: RPC %s has no operation", name, sd.Methods().Get(i).Name())
			}
		}
		schemas := oas.Obj(oas.Get(doc, "components", "schemas"))
		reach := reachableMessages(sd)
		byShort := map[string]protoreflect.FullName{}
		var names []string
		for fn := range reach {
			names = append(names, string(fn))
		}
		sort.Strings(names)
		// every message of the service's file and of the files it imports competes for a schema name
		shortCount := map[string]int{}
		seenFile := map[string]bool{}
		var walkFile func(fd protoreflect.FileDescriptor)
		var walkMsgs func(ms protoreflect.MessageDescriptors)
		walkMsgs = func(ms protoreflect.MessageDescriptors) {
			for i := 0; i < ms.Len(); i++ {
				if !ms.Get(i).IsMapEntry() {
					shortCount[string(ms.Get(i).Name())]++
					walkMsgs(ms.Get(i).Messages())
				}
			}
		}
		walkFile = func(fd protoreflect.FileDescriptor) {
			if seenFile[fd.Path()] {
				return
			}
			seenFile[fd.Path()] = true
			walkMsgs(fd.Messages())
			for i := 0; i < fd.Imports().Len(); i++ {
				walkFile(fd.Imports().Get(i).FileDescriptor)
			}
		}
		walkFile(sd.ParentFile())
		for _, fn := range names {
			md := reach[protoreflect.FullName(fn)]
			sn := string(md.Name())
			node, ok := schemas[sn]
			if !ok {
				return fmt.Sprintf("%s: message %s reachable from service %s has no component schema", name, fn, sd.Name())
			}
			if shortCount[sn] > 1 && c18SharedNames.tolerate {
				c18SharedNames.skipped++
				continue
			}
			if prev, dup := byShort[sn]; dup && prev != md.FullName() {
				if d1, d2 := describes(doc, node, reach[prev]), describes(doc, node, md); d1 != "" || d2 != "" {
					return fmt.Sprintf("%s: messages %s and %s share the component schema name %s, which cannot describe both: %s%s", name, prev, fn, sn, d1, d2)
				}
			}
			byShort[sn] = md.FullName()
			if d := describes(doc, node, md); d != "" {
				return name + ": " + d
			}
		}
	}
	return ""
}

// c18Eval checks one schema; returns "" if every rule holds.
func c18Eval(c *core.Ctx, s *schema.Schema, strict bool) (string, int, error) {
	c18SharedNames.tolerate = !strict && c.KF.Avoid()["schema_short_name_collision"] != ""
	req, err := schema.Request("", s)
	if err != nil {
		return "", 0, err
	}
	files, err := schema.Gate(req)
	if err != nil {
		return "", 0, fmt.Errorf("generator bug: gate: %w", err)
	}
	services := serviceDescriptors(files, s)
	byFormat := map[string]map[string]any{}
	for _, format := range []string{"", "yaml", "yml", "json"} {
		docs, raw, msg, err := openapiDocs(c, s, format)
		if err != nil {
			return "", 0, err
		}
		if msg != "" {
			return fmt.Sprintf("format=%q: %s", format, msg), 0, nil
		}
		ext := ".openapi.yaml"
		if format == "json" {
			ext = ".openapi.json"
		}
		// exactly one document per service, named after it
		want := map[string]bool{}
		for _, sd := range services {
			want[string(sd.Name())+ext] = true
		}
		if len(want) != len(services) {
			return fmt.Sprintf("format=%q: two services share the document name", format), 0, nil
		}
		for n := range raw {
			if !want[n] {
				return fmt.Sprintf("format=%q: unexpected output file %s (services: %v)", format, n, sortedBoolKeys(want)), 0, nil
			}
		}
		for n := range want {
			if _, ok := docs[n]; !ok {
				return fmt.Sprintf("format=%q: no document %s was produced", format, n), 0, nil
			}
		}
		byFormat[format] = docs
		for _, sd := range services {
			n := string(sd.Name()) + ext
			if msg := checkDocument(fmt.Sprintf("%s (format=%q)", n, format), docs[n], sd); msg != "" {
				return msg, len(docs), nil
			}
		}
	}
	// renderings denote the same document
	for _, sd := range services {
		base := byFormat[""][string(sd.Name())+".openapi.yaml"]
		for _, f := range []string{"yaml", "yml"} {
			if d := oas.Equal(base, byFormat[f][string(sd.Name())+".openapi.yaml"]); d != "" {
				return fmt.Sprintf("%s: default and format=%s renderings differ: %s", sd.Name(), f, d), 0, nil
			}
		}
		if d := oas.Equal(base, byFormat["json"][string(sd.Name())+".openapi.json"]); d != "" {
			return fmt.Sprintf("%s: YAML and JSON renderings denote different documents: %s", sd.Name(), d), 0, nil
		}
	}
	return "", len(services) * 4, nil
}

// serviceDescriptors returns the services of the files to generate.
func serviceDescriptors(files *protoregistry.Files, s *schema.Schema) []protoreflect.ServiceDescriptor {
	var out []protoreflect.ServiceDescriptor
	for _, f := range s.Files {
		if !f.Generate {
			continue
		}
		fd, err := files.FindFileByPath(f.Name)
		if err != nil {
			continue
		}
		for i := 0; i < fd.Services().Len(); i++ {
			out = append(out, fd.Services().Get(i))
		}
	}
	return out
}

func runC18(c *core.Ctx) error {
	if err := runPinned(c, Registry["C18"]); err != nil {
		return err
	}
	avoid := c.KF.Avoid()
	total := c.Pick(240, 5000)
	chunks := c.Pick(3, 25)
	c.Ev.Coverage.Rule = "cases = valid schema from the OpenAPI profile (nested types, recursive types, several services per file, second files, every annotation-driven schema shape, rules, headers, default and explicit routes) x format in {absent, yaml, yml, json}; each emitted document is parsed with parsers independent of the plugin (go.yaml.in/yaml/v4, encoding/json) and checked: openapi 3.1.x and required members, every $ref resolves, template variables <-> required path parameters one-to-one, (name,in) unique per operation, operationId unique, one operation per RPC, a component schema for every reachable message whose properties are the message's JSON names, one document per service named after it, default/yaml/yml identical, YAML == JSON as trees. Non-trivial = schema with a nested type, >= 2 services, a second file or a recursive type; distinct by schema."
	prof := schema.ProfileOpenAPI(avoid)
	for k := 0; k < chunks; k++ {
		var last *c18Case
		res := rapidx.Check("C18", total/chunks, uint64(c.SubSeed(k)), 30*time.Second, func(t *rapid.T) {
			s := schema.Generate(t, prof, "w0001")
			msg, docs, err := c18Eval(c, s, false)
			if err != nil {
				panic(err)
			}
			c.Ev.Eval(1)
			c.Ev.Class("documents_parsed", docs)
			for _, tg := range []string{"nested_type", "dup_short_name", "second_file", "recursive", "header_override", "transport:no_config", "feat:oneof_disc", "feat:oneof_flat", "feat:flatten", "feat:unwrap"} {
				if hasTag(s, tg) {
					c.Ev.Class("schema:"+tg, 1)
				}
			}
			if hasTag(s, "nested_type") || hasTag(s, "second_file") || hasTag(s, "recursive") || len(s.Files[0].Services) >= 2 {
				c.Ev.Nontrivial(schemaKey(s))
			}
			countAvoided(c, s, avoid)
			c.Ev.Sample(map[string]any{"schema": s}, 2)
			if msg != "" {
				last = &c18Case{Property: "C18", Schema: s, Observed: msg}
				t.Fatalf("%s", msg)
			}
		})
		c.Ev.Coverage.Schemas += res.Passed
		if n := c18SharedNames.skipped; n > 0 {
			c.Ev.ExcludedBy(avoid["schema_short_name_collision"]+":schema_short_name_collision(describes assertion)", n)
			c18SharedNames.skipped = 0
		}
		if res.Failed && last != nil {
			c.Violation("c18", last, last.Observed)
		} else if res.Failed {
			return fmt.Errorf("rapid failed without a recorded case: %s", res.Message)
		}
	}
	return nil
}

func replayC18(c *core.Ctx, doc json.RawMessage) (bool, string, error) {
	var cs c18Case
	if err := json.Unmarshal(doc, &cs); err != nil {
		return false, "", err
	}
	msg, _, err := c18Eval(c, cs.Schema, cs.Strict)
	if err != nil {
		return false, "", err
	}
	return msg != "", orOK(msg, "documents are well-formed"), nil
}

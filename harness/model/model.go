// Package model is the independent executable reference of sebuf's documented JSON
// mapping (DESIGN.md Appendix A): proto3 JSON modified only as the annotations document,
// applied at every depth. It is written over protoreflect and reads the annotation
// extensions straight from descriptor options; it shares no code with /repo/internal.
package model

import (
	"encoding/base64"
	"encoding/hex"
	"encoding/json"
	"fmt"
	"math"
	"math/big"
	"sort"
	"strconv"
	"strings"
	"time"

	sebufhttp "github.com/SebastienMelki/sebuf/http"
	"google.golang.org/protobuf/encoding/protojson"
	"google.golang.org/protobuf/proto"
	"google.golang.org/protobuf/reflect/protoreflect"
	"google.golang.org/protobuf/types/descriptorpb"
)

// ErrUnspecified is returned when the documentation does not say what the JSON form is.
type ErrUnspecified struct{ Why string }

func (e *ErrUnspecified) Error() string { return "unspecified by the documentation: " + e.Why }

// ---- annotation access -----------------------------------------------------------------------

func fopts(fd protoreflect.FieldDescriptor) *descriptorpb.FieldOptions {
	o, _ := fd.Options().(*descriptorpb.FieldOptions)
	return o
}

func fext[T any](fd protoreflect.FieldDescriptor, xt protoreflect.ExtensionType) (T, bool) {
	var zero T
	o := fopts(fd)
	if o == nil || !proto.HasExtension(o, xt) {
		return zero, false
	}
	v, ok := proto.GetExtension(o, xt).(T)
	return v, ok
}

// Int64Number reports int64_encoding=NUMBER.
func Int64Number(fd protoreflect.FieldDescriptor) bool {
	v, ok := fext[sebufhttp.Int64Encoding](fd, sebufhttp.E_Int64Encoding)
	return ok && v == sebufhttp.Int64Encoding_INT64_ENCODING_NUMBER
}

// EnumNumber reports enum_encoding=NUMBER.
func EnumNumber(fd protoreflect.FieldDescriptor) bool {
	v, ok := fext[sebufhttp.EnumEncoding](fd, sebufhttp.E_EnumEncoding)
	return ok && v == sebufhttp.EnumEncoding_ENUM_ENCODING_NUMBER
}

// Nullable reports nullable=true.
func Nullable(fd protoreflect.FieldDescriptor) bool {
	v, ok := fext[bool](fd, sebufhttp.E_Nullable)
	return ok && v
}

// EmptyBehavior returns the empty_behavior annotation.
func EmptyBehavior(fd protoreflect.FieldDescriptor) sebufhttp.EmptyBehavior {
	v, _ := fext[sebufhttp.EmptyBehavior](fd, sebufhttp.E_EmptyBehavior)
	return v
}

// TimestampFormat returns the timestamp_format annotation.
func TimestampFormat(fd protoreflect.FieldDescriptor) sebufhttp.TimestampFormat {
	v, _ := fext[sebufhttp.TimestampFormat](fd, sebufhttp.E_TimestampFormat)
	return v
}

// BytesEncoding returns the bytes_encoding annotation.
func BytesEncoding(fd protoreflect.FieldDescriptor) sebufhttp.BytesEncoding {
	v, _ := fext[sebufhttp.BytesEncoding](fd, sebufhttp.E_BytesEncoding)
	return v
}

// Flatten reports flatten=true and the prefix.
func Flatten(fd protoreflect.FieldDescriptor) (bool, string) {
	v, ok := fext[bool](fd, sebufhttp.E_Flatten)
	if !ok || !v {
		return false, ""
	}
	p, _ := fext[string](fd, sebufhttp.E_FlattenPrefix)
	return true, p
}

// Unwrap reports unwrap=true.
func Unwrap(fd protoreflect.FieldDescriptor) bool {
	v, ok := fext[bool](fd, sebufhttp.E_Unwrap)
	return ok && v
}

// OneofValue returns the oneof_value annotation.
func OneofValue(fd protoreflect.FieldDescriptor) string {
	v, _ := fext[string](fd, sebufhttp.E_OneofValue)
	return v
}

// Query returns the query annotation.
func Query(fd protoreflect.FieldDescriptor) *sebufhttp.QueryConfig {
	v, ok := fext[*sebufhttp.QueryConfig](fd, sebufhttp.E_Query)
	if !ok {
		return nil
	}
	return v
}

// OneofConfig returns the discriminator config of a oneof (nil if none / empty discriminator).
func OneofConfig(od protoreflect.OneofDescriptor) *sebufhttp.OneofConfig {
	o, _ := od.Options().(*descriptorpb.OneofOptions)
	if o == nil || !proto.HasExtension(o, sebufhttp.E_OneofConfig) {
		return nil
	}
	c, _ := proto.GetExtension(o, sebufhttp.E_OneofConfig).(*sebufhttp.OneofConfig)
	if c == nil || c.GetDiscriminator() == "" {
		return nil
	}
	return c
}

// EnumCustom returns the enum_value annotation of an enum value.
func EnumCustom(vd protoreflect.EnumValueDescriptor) string {
	o, _ := vd.Options().(*descriptorpb.EnumValueOptions)
	if o == nil || !proto.HasExtension(o, sebufhttp.E_EnumValue) {
		return ""
	}
	s, _ := proto.GetExtension(o, sebufhttp.E_EnumValue).(string)
	return s
}

// UnwrapField returns the unwrap-annotated field of a message (nil if none).
func UnwrapField(md protoreflect.MessageDescriptor) protoreflect.FieldDescriptor {
	fs := md.Fields()
	for i := 0; i < fs.Len(); i++ {
		if Unwrap(fs.Get(i)) {
			return fs.Get(i)
		}
	}
	return nil
}

// RootUnwrap reports whether md is a root-unwrap message (exactly one field, unwrap-annotated).
func RootUnwrap(md protoreflect.MessageDescriptor) bool {
	return md.Fields().Len() == 1 && Unwrap(md.Fields().Get(0))
}

// HasAnnotations reports whether md (not its children) carries any JSON-mapping annotation.
func HasAnnotations(md protoreflect.MessageDescriptor) bool {
	fs := md.Fields()
	for i := 0; i < fs.Len(); i++ {
		fd := fs.Get(i)
		if Int64Number(fd) || EnumNumber(fd) || Nullable(fd) || EmptyBehavior(fd) > 1 || TimestampFormat(fd) > 1 || BytesEncoding(fd) > 1 || Unwrap(fd) {
			return true
		}
		if f, _ := Flatten(fd); f {
			return true
		}
		if fd.Kind() == protoreflect.EnumKind && enumHasCustom(fd.Enum()) {
			return true
		}
		if fd.IsMap() && fd.MapValue().Kind() == protoreflect.MessageKind && UnwrapField(fd.MapValue().Message()) != nil {
			return true
		}
	}
	os := md.Oneofs()
	for i := 0; i < os.Len(); i++ {
		if !os.Get(i).IsSynthetic() && OneofConfig(os.Get(i)) != nil {
			return true
		}
	}
	return false
}

func enumHasCustom(ed protoreflect.EnumDescriptor) bool {
	vs := ed.Values()
	for i := 0; i < vs.Len(); i++ {
		if EnumCustom(vs.Get(i)) != "" {
			return true
		}
	}
	return false
}

// ---- encode -----------------------------------------------------------------------------------

// Num is a JSON number in the model's trees.
type Num = json.Number

// Encode returns the documented JSON form of m as a tree (map[string]any, []any, string, Num,
// bool, nil).
func Encode(m protoreflect.Message) (any, error) {
	return encodeMessage(m, 0)
}

// EncodeBytes returns Encode rendered as JSON text.
func EncodeBytes(m protoreflect.Message) ([]byte, error) {
	t, err := Encode(m)
	if err != nil {
		return nil, err
	}
	return json.Marshal(t)
}

const tsFull = "google.protobuf.Timestamp"

func encodeMessage(m protoreflect.Message, depth int) (any, error) {
	if depth > 200 {
		return nil, fmt.Errorf("model: nesting too deep")
	}
	md := m.Descriptor()
	if md.FullName() == tsFull {
		return encodeTimestamp(m, sebufhttp.TimestampFormat_TIMESTAMP_FORMAT_UNSPECIFIED)
	}
	if strings.HasPrefix(string(md.FullName()), "google.protobuf.") {
		// other well-known types: proto3 JSON defines them; delegate
		b, err := protojson.Marshal(m.Interface())
		if err != nil {
			return nil, err
		}
		return ParseJSON(b)
	}
	if RootUnwrap(md) {
		fd := md.Fields().Get(0)
		if fd.IsMap() {
			return encodeMap(fd, m.Get(fd).Map(), depth)
		}
		if fd.IsList() {
			return encodeList(fd, m.Get(fd).List(), depth)
		}
		return nil, &ErrUnspecified{"unwrap on a non-repeated field"}
	}
	obj := map[string]any{}
	put := func(k string, v any) error {
		if _, dup := obj[k]; dup {
			return &ErrUnspecified{"two fields map to JSON key " + k}
		}
		obj[k] = v
		return nil
	}
	fs := md.Fields()
	for i := 0; i < fs.Len(); i++ {
		fd := fs.Get(i)
		if od := fd.ContainingOneof(); od != nil && !od.IsSynthetic() && OneofConfig(od) != nil {
			continue // handled with its oneof
		}
		if fl, prefix := Flatten(fd); fl {
			if fd.Kind() != protoreflect.MessageKind || fd.IsList() || fd.IsMap() {
				return nil, &ErrUnspecified{"flatten on a non-message field"}
			}
			if !m.Has(fd) {
				continue
			}
			child, err := encodeMessage(m.Get(fd).Message(), depth+1)
			if err != nil {
				return nil, err
			}
			cm, ok := child.(map[string]any)
			if !ok {
				return nil, &ErrUnspecified{"flattened child that is not a JSON object"}
			}
			for _, k := range sortedKeys(cm) {
				if err := put(prefix+k, cm[k]); err != nil {
					return nil, err
				}
			}
			continue
		}
		v, present, err := encodeField(m, fd, depth)
		if err != nil {
			return nil, err
		}
		if present {
			if err := put(fd.JSONName(), v); err != nil {
				return nil, err
			}
		}
	}
	os := md.Oneofs()
	for i := 0; i < os.Len(); i++ {
		od := os.Get(i)
		if od.IsSynthetic() {
			continue
		}
		cfg := OneofConfig(od)
		if cfg == nil {
			continue
		}
		fd := m.WhichOneof(od)
		if fd == nil {
			continue // unset: nothing emitted
		}
		dv := OneofValue(fd)
		if dv == "" {
			dv = string(fd.Name())
		}
		if err := put(cfg.GetDiscriminator(), dv); err != nil {
			return nil, err
		}
		if cfg.GetFlatten() && fd.Kind() == protoreflect.MessageKind {
			child, err := encodeMessage(m.Get(fd).Message(), depth+1)
			if err != nil {
				return nil, err
			}
			cm, ok := child.(map[string]any)
			if !ok {
				return nil, &ErrUnspecified{"flattened variant that is not a JSON object"}
			}
			for _, k := range sortedKeys(cm) {
				if err := put(k, cm[k]); err != nil {
					return nil, err
				}
			}
			continue
		}
		v, err := encodeSingular(fd, m.Get(fd), depth)
		if err != nil {
			return nil, err
		}
		if err := put(fd.JSONName(), v); err != nil {
			return nil, err
		}
	}
	return obj, nil
}

// encodeField returns the JSON value of a regular field and whether it is emitted.
func encodeField(m protoreflect.Message, fd protoreflect.FieldDescriptor, depth int) (any, bool, error) {
	switch {
	case fd.IsMap():
		mp := m.Get(fd).Map()
		if mp.Len() == 0 {
			return nil, false, nil
		}
		v, err := encodeMap(fd, mp, depth)
		return v, true, err
	case fd.IsList():
		l := m.Get(fd).List()
		if l.Len() == 0 {
			return nil, false, nil
		}
		v, err := encodeList(fd, l, depth)
		return v, true, err
	}
	if fd.HasPresence() {
		if !m.Has(fd) {
			if Nullable(fd) {
				return nil, true, nil
			}
			return nil, false, nil
		}
		if fd.Kind() == protoreflect.MessageKind {
			if eb := EmptyBehavior(fd); eb == sebufhttp.EmptyBehavior_EMPTY_BEHAVIOR_NULL || eb == sebufhttp.EmptyBehavior_EMPTY_BEHAVIOR_OMIT {
				if proto.Size(m.Get(fd).Message().Interface()) == 0 {
					if eb == sebufhttp.EmptyBehavior_EMPTY_BEHAVIOR_NULL {
						return nil, true, nil
					}
					return nil, false, nil
				}
			}
		}
		v, err := encodeSingular(fd, m.Get(fd), depth)
		return v, true, err
	}
	// implicit presence: zero values are omitted
	if !m.Has(fd) {
		return nil, false, nil
	}
	v, err := encodeSingular(fd, m.Get(fd), depth)
	return v, true, err
}

func encodeList(fd protoreflect.FieldDescriptor, l protoreflect.List, depth int) (any, error) {
	out := make([]any, 0, l.Len())
	for i := 0; i < l.Len(); i++ {
		v, err := encodeSingular(fd, l.Get(i), depth)
		if err != nil {
			return nil, err
		}
		out = append(out, v)
	}
	return out, nil
}

func encodeMap(fd protoreflect.FieldDescriptor, mp protoreflect.Map, depth int) (any, error) {
	out := map[string]any{}
	var err error
	vfd := fd.MapValue()
	if Int64Number(fd) || EnumNumber(fd) || TimestampFormat(fd) > 1 || BytesEncoding(fd) > 1 {
		return nil, &ErrUnspecified{"value-encoding annotation on a map field"}
	}
	mp.Range(func(k protoreflect.MapKey, v protoreflect.Value) bool {
		var ev any
		if vfd.Kind() == protoreflect.MessageKind {
			if uf := UnwrapField(vfd.Message()); uf != nil && uf.IsList() {
				// map-value unwrap: the wrapper collapses to its array
				ev, err = encodeList(uf, v.Message().Get(uf).List(), depth+1)
			} else {
				ev, err = encodeSingular(vfd, v, depth)
			}
		} else {
			ev, err = encodeSingular(vfd, v, depth)
		}
		if err != nil {
			return false
		}
		out[mapKeyString(k)] = ev
		return true
	})
	return out, err
}

func mapKeyString(k protoreflect.MapKey) string {
	switch v := k.Interface().(type) {
	case string:
		return v
	case bool:
		return strconv.FormatBool(v)
	case int32:
		return strconv.FormatInt(int64(v), 10)
	case int64:
		return strconv.FormatInt(v, 10)
	case uint32:
		return strconv.FormatUint(uint64(v), 10)
	case uint64:
		return strconv.FormatUint(v, 10)
	}
	return k.String()
}

// encodeSingular encodes one element of fd's kind using fd's own annotations.
func encodeSingular(fd protoreflect.FieldDescriptor, v protoreflect.Value, depth int) (any, error) {
	switch fd.Kind() {
	case protoreflect.BoolKind:
		return v.Bool(), nil
	case protoreflect.StringKind:
		return v.String(), nil
	case protoreflect.Int32Kind, protoreflect.Sint32Kind, protoreflect.Sfixed32Kind:
		return Num(strconv.FormatInt(v.Int(), 10)), nil
	case protoreflect.Uint32Kind, protoreflect.Fixed32Kind:
		return Num(strconv.FormatUint(v.Uint(), 10)), nil
	case protoreflect.Int64Kind, protoreflect.Sint64Kind, protoreflect.Sfixed64Kind:
		if Int64Number(fd) {
			return Num(strconv.FormatInt(v.Int(), 10)), nil
		}
		return strconv.FormatInt(v.Int(), 10), nil
	case protoreflect.Uint64Kind, protoreflect.Fixed64Kind:
		if Int64Number(fd) {
			return Num(strconv.FormatUint(v.Uint(), 10)), nil
		}
		return strconv.FormatUint(v.Uint(), 10), nil
	case protoreflect.FloatKind:
		return encodeFloat(v.Float(), 32), nil
	case protoreflect.DoubleKind:
		return encodeFloat(v.Float(), 64), nil
	case protoreflect.BytesKind:
		b := v.Bytes()
		switch BytesEncoding(fd) {
		case sebufhttp.BytesEncoding_BYTES_ENCODING_HEX:
			return hex.EncodeToString(b), nil
		case sebufhttp.BytesEncoding_BYTES_ENCODING_BASE64_RAW:
			return base64.RawStdEncoding.EncodeToString(b), nil
		case sebufhttp.BytesEncoding_BYTES_ENCODING_BASE64URL:
			return base64.URLEncoding.EncodeToString(b), nil
		case sebufhttp.BytesEncoding_BYTES_ENCODING_BASE64URL_RAW:
			return base64.RawURLEncoding.EncodeToString(b), nil
		}
		return base64.StdEncoding.EncodeToString(b), nil
	case protoreflect.EnumKind:
		n := v.Enum()
		if EnumNumber(fd) {
			return Num(strconv.FormatInt(int64(n), 10)), nil
		}
		vd := fd.Enum().Values().ByNumber(n)
		if vd == nil {
			return Num(strconv.FormatInt(int64(n), 10)), nil
		}
		if c := EnumCustom(vd); c != "" {
			return c, nil
		}
		return string(vd.Name()), nil
	case protoreflect.MessageKind, protoreflect.GroupKind:
		if fd.Message().FullName() == tsFull {
			return encodeTimestamp(v.Message(), TimestampFormat(fd))
		}
		return encodeMessage(v.Message(), depth+1)
	}
	return nil, fmt.Errorf("model: unknown kind %v", fd.Kind())
}

func encodeFloat(f float64, bits int) any {
	switch {
	case math.IsNaN(f):
		return "NaN"
	case math.IsInf(f, 1):
		return "Infinity"
	case math.IsInf(f, -1):
		return "-Infinity"
	}
	return Num(strconv.FormatFloat(f, 'g', -1, bits))
}

func tsParts(m protoreflect.Message) (int64, int32) {
	fs := m.Descriptor().Fields()
	return m.Get(fs.ByName("seconds")).Int(), int32(m.Get(fs.ByName("nanos")).Int())
}

func encodeTimestamp(m protoreflect.Message, f sebufhttp.TimestampFormat) (any, error) {
	sec, nanos := tsParts(m)
	switch f {
	case sebufhttp.TimestampFormat_TIMESTAMP_FORMAT_UNIX_SECONDS:
		return Num(strconv.FormatInt(sec, 10)), nil
	case sebufhttp.TimestampFormat_TIMESTAMP_FORMAT_UNIX_MILLIS:
		ms := new(big.Int).Mul(big.NewInt(sec), big.NewInt(1000))
		ms.Add(ms, big.NewInt(int64(nanos/1e6)))
		return Num(ms.String()), nil
	case sebufhttp.TimestampFormat_TIMESTAMP_FORMAT_DATE:
		return time.Unix(sec, int64(nanos)).UTC().Format("2006-01-02"), nil
	}
	// RFC 3339 as proto3 JSON: UTC, Z, 0/3/6/9 fractional digits
	const minSec, maxSec = -62135596800, 253402300799
	if sec < minSec || sec > maxSec || nanos < 0 || nanos > 999999999 {
		return nil, &ErrUnspecified{"timestamp out of the RFC 3339 range"}
	}
	t := time.Unix(sec, int64(nanos)).UTC()
	s := t.Format("2006-01-02T15:04:05.000000000")
	s = strings.TrimSuffix(s, "000")
	s = strings.TrimSuffix(s, "000")
	s = strings.TrimSuffix(s, ".000")
	return s + "Z", nil
}

func sortedKeys(m map[string]any) []string {
	ks := make([]string, 0, len(m))
	for k := range m {
		ks = append(ks, k)
	}
	sort.Strings(ks)
	return ks
}

// ---- trees --------------------------------------------------------------------------------------

// ParseJSON parses JSON text into a tree with json.Number numbers. Duplicate keys: last wins.
func ParseJSON(b []byte) (any, error) {
	dec := json.NewDecoder(strings.NewReader(string(b)))
	dec.UseNumber()
	var v any
	if err := dec.Decode(&v); err != nil {
		return nil, err
	}
	if dec.More() {
		return nil, fmt.Errorf("trailing data after JSON value")
	}
	return v, nil
}

// Diff returns "" when two trees are equal (numbers compared as exact decimals) or a path
// description of the first difference.
func Diff(want, got any) string { return diff("$", want, got) }

func numEqual(a, b Num) bool {
	if a == b {
		return true
	}
	ra, ok1 := new(big.Rat).SetString(string(a))
	rb, ok2 := new(big.Rat).SetString(string(b))
	return ok1 && ok2 && ra.Cmp(rb) == 0
}

func diff(path string, want, got any) string {
	switch w := want.(type) {
	case nil:
		if got != nil {
			return fmt.Sprintf("%s: want null, got %s", path, brief(got))
		}
	case bool:
		g, ok := got.(bool)
		if !ok || g != w {
			return fmt.Sprintf("%s: want %v, got %s", path, w, brief(got))
		}
	case string:
		g, ok := got.(string)
		if !ok || g != w {
			return fmt.Sprintf("%s: want string %q, got %s", path, w, brief(got))
		}
	case Num:
		g, ok := got.(Num)
		if !ok || !numEqual(w, g) {
			return fmt.Sprintf("%s: want number %s, got %s", path, w, brief(got))
		}
	case []any:
		g, ok := got.([]any)
		if !ok {
			return fmt.Sprintf("%s: want array, got %s", path, brief(got))
		}
		if len(g) != len(w) {
			return fmt.Sprintf("%s: want array of %d, got %d elements", path, len(w), len(g))
		}
		for i := range w {
			if d := diff(fmt.Sprintf("%s[%d]", path, i), w[i], g[i]); d != "" {
				return d
			}
		}
	case map[string]any:
		g, ok := got.(map[string]any)
		if !ok {
			return fmt.Sprintf("%s: want object, got %s", path, brief(got))
		}
		for _, k := range sortedKeys(w) {
			gv, ok := g[k]
			if !ok {
				return fmt.Sprintf("%s: key %q missing (want %s); got keys %v", path, k, brief(w[k]), sortedKeys(g))
			}
			if d := diff(path+"."+k, w[k], gv); d != "" {
				return d
			}
		}
		for _, k := range sortedKeys(g) {
			if _, ok := w[k]; !ok {
				return fmt.Sprintf("%s: unexpected key %q = %s", path, k, brief(g[k]))
			}
		}
	default:
		return fmt.Sprintf("%s: model produced unsupported node %T", path, want)
	}
	return ""
}

func brief(v any) string {
	b, _ := json.Marshal(v)
	if len(b) > 120 {
		return string(b[:120]) + "…"
	}
	switch v.(type) {
	case string:
		return "string " + string(b)
	case Num:
		return "number " + string(b)
	}
	return string(b)
}

// ---- documented losses ---------------------------------------------------------------------------

// Normalize returns a copy of m with the losses the annotations document applied, i.e. the
// value a JSON round trip is allowed to produce: UNIX_SECONDS/UNIX_MILLIS/DATE truncation,
// presence of empty messages under empty_behavior NULL/OMIT, and the structural
// indistinguishability of a nil and an empty flattened child.
func Normalize(m proto.Message) proto.Message {
	c := Copy(m)
	normalize(c.ProtoReflect(), 0)
	return c
}

// Copy deep-copies m. proto.Clone drops negative-zero floats in implicit-presence fields (its
// merge fast path tests v != 0), so the copy goes through the wire format, which keeps them.
func Copy(m proto.Message) proto.Message {
	if m == nil {
		return nil
	}
	c := m.ProtoReflect().New().Interface()
	b, err := proto.MarshalOptions{AllowPartial: true}.Marshal(m)
	if err == nil {
		err = proto.UnmarshalOptions{AllowPartial: true}.Unmarshal(b, c)
	}
	if err != nil {
		return proto.Clone(m)
	}
	return c
}

func normalize(m protoreflect.Message, depth int) {
	if depth > 200 {
		return
	}
	fs := m.Descriptor().Fields()
	for i := 0; i < fs.Len(); i++ {
		fd := fs.Get(i)
		if !m.Has(fd) {
			continue
		}
		switch {
		case fd.IsMap():
			if fd.MapValue().Kind() == protoreflect.MessageKind {
				m.Get(fd).Map().Range(func(_ protoreflect.MapKey, v protoreflect.Value) bool {
					normalize(v.Message(), depth+1)
					return true
				})
			}
		case fd.IsList():
			l := m.Get(fd).List()
			if fd.Kind() == protoreflect.MessageKind {
				for j := 0; j < l.Len(); j++ {
					if fd.Message().FullName() == tsFull {
						truncTimestamp(l.Get(j).Message(), TimestampFormat(fd))
					} else {
						normalize(l.Get(j).Message(), depth+1)
					}
				}
			}
		case fd.Kind() == protoreflect.MessageKind:
			child := m.Mutable(fd).Message()
			if fd.Message().FullName() == tsFull {
				truncTimestamp(child, TimestampFormat(fd))
				// a Timestamp is a message too: its empty value is dropped or nulled like any other child's
				if eb := EmptyBehavior(fd); eb == sebufhttp.EmptyBehavior_EMPTY_BEHAVIOR_OMIT {
					if proto.Size(child.Interface()) == 0 {
						m.Clear(fd)
					}
				}
				continue
			}
			normalize(child, depth+1)
			if eb := EmptyBehavior(fd); eb == sebufhttp.EmptyBehavior_EMPTY_BEHAVIOR_NULL || eb == sebufhttp.EmptyBehavior_EMPTY_BEHAVIOR_OMIT {
				if proto.Size(child.Interface()) == 0 {
					m.Clear(fd)
				}
			}
			if fl, _ := Flatten(fd); fl {
				if t, err := encodeMessage(child, 0); err == nil {
					if mm, ok := t.(map[string]any); ok && len(mm) == 0 {
						m.Clear(fd)
					}
				}
			}
		}
	}
}

func truncTimestamp(ts protoreflect.Message, f sebufhttp.TimestampFormat) {
	fs := ts.Descriptor().Fields()
	sfd, nfd := fs.ByName("seconds"), fs.ByName("nanos")
	sec, nanos := ts.Get(sfd).Int(), ts.Get(nfd).Int()
	switch f {
	case sebufhttp.TimestampFormat_TIMESTAMP_FORMAT_UNIX_SECONDS:
		nanos = 0
	case sebufhttp.TimestampFormat_TIMESTAMP_FORMAT_UNIX_MILLIS:
		nanos = nanos / 1e6 * 1e6
	case sebufhttp.TimestampFormat_TIMESTAMP_FORMAT_DATE:
		t := time.Unix(sec, nanos).UTC()
		d := time.Date(t.Year(), t.Month(), t.Day(), 0, 0, 0, 0, time.UTC)
		sec, nanos = d.Unix(), 0
	default:
		return
	}
	if sec == 0 {
		ts.Clear(sfd)
	} else {
		ts.Set(sfd, protoreflect.ValueOfInt64(sec))
	}
	if nanos == 0 {
		ts.Clear(nfd)
	} else {
		ts.Set(nfd, protoreflect.ValueOfInt32(int32(nanos)))
	}
}

// Is64 reports whether fd is a 64-bit integer field.
func Is64(fd protoreflect.FieldDescriptor) bool {
	switch fd.Kind() {
	case protoreflect.Int64Kind, protoreflect.Sint64Kind, protoreflect.Sfixed64Kind, protoreflect.Uint64Kind, protoreflect.Fixed64Kind:
		return true
	}
	return false
}

package rapidx

import (
	"flag"
	"fmt"
	"regexp"
	"strconv"
	"strings"
	"sync"
	"testing"
	"time"

	"pgregory.net/rapid"
)

var initOnce sync.Once

// Init prepares the testing/flag packages for using rapid outside `go test`.
func Init() {
	initOnce.Do(func() {
		if !flag.Parsed() {
			testing.Init()
			_ = flag.CommandLine.Parse([]string{"-rapid.nofailfile"})
		}
	})
}

// RapidResult is the outcome of one rapid.Check run.
type Result struct {
	Passed  int
	Failed  bool
	Flaky   bool
	Message string
	Seed    uint64
}

type capTB struct {
	name   string
	logs   []string
	errs   []string
	failed bool
}

type failNow struct{}

func (c *capTB) Helper()      {}
func (c *capTB) Name() string { return c.name }
func (c *capTB) Logf(format string, args ...any) {
	c.logs = append(c.logs, fmt.Sprintf(format, args...))
}
func (c *capTB) Log(args ...any)                  { c.logs = append(c.logs, fmt.Sprint(args...)) }
func (c *capTB) Skipf(format string, args ...any) { panic(failNow{}) }
func (c *capTB) Skip(args ...any)                 { panic(failNow{}) }
func (c *capTB) SkipNow()                         { panic(failNow{}) }
func (c *capTB) Errorf(format string, args ...any) {
	c.failed = true
	c.errs = append(c.errs, fmt.Sprintf(format, args...))
}
func (c *capTB) Error(args ...any) { c.failed = true; c.errs = append(c.errs, fmt.Sprint(args...)) }
func (c *capTB) Fatalf(format string, args ...any) {
	c.Errorf(format, args...)
	panic(failNow{})
}
func (c *capTB) Fatal(args ...any) { c.Error(args...); panic(failNow{}) }
func (c *capTB) FailNow()          { c.failed = true; panic(failNow{}) }
func (c *capTB) Fail()             { c.failed = true }
func (c *capTB) Failed() bool      { return c.failed }

var passedRe = regexp.MustCompile(`passed (\d+) tests`)
var afterRe = regexp.MustCompile(`(?:failed|panic) after (\d+) tests`)

var rapidMu sync.Mutex

// RapidCheck runs rapid.Check(prop) with the given number of checks and seed (never 0) and
// a shrink budget. It is not re-entrant (rapid's configuration is global).
func Check(name string, checks int, seed uint64, shrink time.Duration, prop func(*rapid.T)) *Result {
	Init()
	rapidMu.Lock()
	defer rapidMu.Unlock()
	if seed == 0 {
		seed = 1
	}
	_ = flag.Set("rapid.checks", strconv.Itoa(checks))
	_ = flag.Set("rapid.seed", strconv.FormatUint(seed, 10))
	_ = flag.Set("rapid.shrinktime", shrink.String())
	_ = flag.Set("rapid.nofailfile", "true")
	tb := &capTB{name: name}
	func() {
		defer func() {
			if r := recover(); r != nil {
				if _, ok := r.(failNow); !ok {
					panic(r)
				}
			}
		}()
		rapid.Check(tb, prop)
	}()
	res := &Result{Seed: seed}
	for _, l := range tb.logs {
		if m := passedRe.FindStringSubmatch(l); m != nil {
			res.Passed, _ = strconv.Atoi(m[1])
		}
	}
	if tb.failed {
		res.Failed = true
		res.Message = strings.Join(tb.errs, "\n")
		if m := afterRe.FindStringSubmatch(res.Message); m != nil {
			res.Passed, _ = strconv.Atoi(m[1])
		}
		if strings.Contains(res.Message, "flaky test") {
			res.Flaky = true
		}
	}
	return res
}

// Package tstype reads the type declarations emitted by the TypeScript generators (interfaces,
// string-literal unions, object-literal unions, intersections, Record<>, arrays, optional and
// null unions) and checks structurally whether a JSON value inhabits a declared type. It is the
// oracle T of the design: no TypeScript compiler is available offline.
package tstype

import (
	"encoding/json"
	"fmt"
	"sort"
	"strings"
)

// Type is a parsed TypeScript type.
type Type struct {
	Kind    string  // string | number | boolean | null | literal | ref | array | record | object | union | intersection | unknown | any
	Literal string  // for literal (string literals only)
	Name    string  // for ref
	Elem    *Type   // array element / record value
	Key     *Type   // record key
	Props   []*Prop // object
	Members []*Type // union / intersection
}

// Prop is an object property.
type Prop struct {
	Name     string
	Optional bool
	Type     *Type
}

// Module is the set of declarations of one emitted file.
type Module struct {
	Types   map[string]*Type   // interface and type alias declarations
	Returns map[string]*Type   // "<Class>.<method>" -> awaited return type
	Params  map[string][]*Type // "<Class>.<method>" -> parameter types
	Order   []string
}

// ---- tokenizer ----------------------------------------------------------------------------------

type token struct {
	kind string // ident | string | punct | number | eof
	val  string
}

type lexer struct {
	src []rune
	pos int
}

func (l *lexer) next() token {
	for l.pos < len(l.src) {
		c := l.src[l.pos]
		switch {
		case c == ' ' || c == '\t' || c == '\n' || c == '\r':
			l.pos++
		case c == '/' && l.pos+1 < len(l.src) && l.src[l.pos+1] == '/':
			for l.pos < len(l.src) && l.src[l.pos] != '\n' {
				l.pos++
			}
		case c == '/' && l.pos+1 < len(l.src) && l.src[l.pos+1] == '*':
			l.pos += 2
			for l.pos+1 < len(l.src) && !(l.src[l.pos] == '*' && l.src[l.pos+1] == '/') {
				l.pos++
			}
			l.pos += 2
		case c == '"' || c == '\'':
			q := c
			l.pos++
			var b strings.Builder
			for l.pos < len(l.src) && l.src[l.pos] != q {
				if l.src[l.pos] == '\\' && l.pos+1 < len(l.src) {
					l.pos++
					switch l.src[l.pos] {
					case 'n':
						b.WriteRune('\n')
					case 't':
						b.WriteRune('\t')
					default:
						b.WriteRune(l.src[l.pos])
					}
					l.pos++
					continue
				}
				b.WriteRune(l.src[l.pos])
				l.pos++
			}
			l.pos++
			return token{"string", b.String()}
		case c == '`':
			l.pos++
			for l.pos < len(l.src) && l.src[l.pos] != '`' {
				l.pos++
			}
			l.pos++
			return token{"string", ""}
		case isIdentStart(c):
			s := l.pos
			for l.pos < len(l.src) && isIdentPart(l.src[l.pos]) {
				l.pos++
			}
			return token{"ident", string(l.src[s:l.pos])}
		case c >= '0' && c <= '9':
			s := l.pos
			for l.pos < len(l.src) && (l.src[l.pos] >= '0' && l.src[l.pos] <= '9' || l.src[l.pos] == '.') {
				l.pos++
			}
			return token{"number", string(l.src[s:l.pos])}
		case c == '=' && l.pos+1 < len(l.src) && l.src[l.pos+1] == '>':
			l.pos += 2
			return token{"punct", "=>"}
		default:
			l.pos++
			return token{"punct", string(c)}
		}
	}
	return token{"eof", ""}
}

func isIdentStart(c rune) bool {
	return c == '_' || c == '$' || (c >= 'a' && c <= 'z') || (c >= 'A' && c <= 'Z') || c > 127
}
func isIdentPart(c rune) bool { return isIdentStart(c) || (c >= '0' && c <= '9') }

type parser struct {
	toks []token
	i    int
}

func (p *parser) peek() token { return p.toks[p.i] }
func (p *parser) adv() token  { t := p.toks[p.i]; p.i++; return t }
func (p *parser) isP(v string) bool {
	return p.toks[p.i].kind == "punct" && p.toks[p.i].val == v
}
func (p *parser) isI(v string) bool {
	return p.toks[p.i].kind == "ident" && p.toks[p.i].val == v
}
func (p *parser) expectP(v string) error {
	if !p.isP(v) {
		return fmt.Errorf("expected %q, found %q (token %d)", v, p.toks[p.i].val, p.i)
	}
	p.i++
	return nil
}

// ParseModule parses the declaration subset of an emitted .ts file. Function and class bodies
// are skipped; method signatures of exported classes are recorded.
func ParseModule(src string) (*Module, error) {
	lx := &lexer{src: []rune(src)}
	var toks []token
	for {
		t := lx.next()
		toks = append(toks, t)
		if t.kind == "eof" {
			break
		}
	}
	p := &parser{toks: toks}
	m := &Module{Types: map[string]*Type{}, Returns: map[string]*Type{}, Params: map[string][]*Type{}}
	for p.peek().kind != "eof" {
		if p.isI("export") {
			p.adv()
		}
		switch {
		case p.isI("interface"):
			p.adv()
			name := p.adv().val
			// extends clause (not emitted today)
			for !p.isP("{") && p.peek().kind != "eof" {
				p.adv()
			}
			obj, err := p.parseObject()
			if err != nil {
				return nil, fmt.Errorf("interface %s: %w", name, err)
			}
			m.Types[name] = obj
			m.Order = append(m.Order, name)
		case p.isI("type"):
			p.adv()
			name := p.adv().val
			if err := p.expectP("="); err != nil {
				return nil, fmt.Errorf("type %s: %w", name, err)
			}
			t, err := p.parseType()
			if err != nil {
				return nil, fmt.Errorf("type %s: %w", name, err)
			}
			if p.isP(";") {
				p.adv()
			}
			m.Types[name] = t
			m.Order = append(m.Order, name)
		case p.isI("class"):
			p.adv()
			cname := p.adv().val
			for !p.isP("{") && p.peek().kind != "eof" {
				p.adv()
			}
			if err := p.parseClassBody(cname, m); err != nil {
				return nil, fmt.Errorf("class %s: %w", cname, err)
			}
		default:
			// skip anything else (const, function, ...) up to the end of its statement/block
			p.skipStatement()
		}
	}
	return m, nil
}

func (p *parser) skipBalanced(open, close string) {
	depth := 0
	for p.peek().kind != "eof" {
		t := p.adv()
		if t.kind == "punct" && t.val == open {
			depth++
		}
		if t.kind == "punct" && t.val == close {
			depth--
			if depth == 0 {
				return
			}
		}
	}
}

func (p *parser) skipStatement() {
	for p.peek().kind != "eof" {
		if p.isP("{") {
			p.skipBalanced("{", "}")
			return
		}
		if p.isP(";") {
			p.adv()
			return
		}
		if p.isI("export") || p.isI("interface") {
			return
		}
		p.adv()
	}
}

func (p *parser) parseClassBody(cname string, m *Module) error {
	if err := p.expectP("{"); err != nil {
		return err
	}
	for !p.isP("}") && p.peek().kind != "eof" {
		// modifiers
		for p.isI("private") || p.isI("public") || p.isI("protected") || p.isI("readonly") || p.isI("static") || p.isI("async") {
			p.adv()
		}
		if p.peek().kind != "ident" {
			p.adv()
			continue
		}
		name := p.adv().val
		switch {
		case p.isP("("):
			params, err := p.parseParams()
			if err != nil {
				return fmt.Errorf("method %s: %w", name, err)
			}
			var ret *Type
			if p.isP(":") {
				p.adv()
				ret, err = p.parseType()
				if err != nil {
					return fmt.Errorf("method %s: %w", name, err)
				}
			}
			if ret != nil && ret.Kind == "ref" && ret.Name == "Promise" && ret.Elem != nil {
				ret = ret.Elem
			}
			m.Returns[cname+"."+name] = ret
			m.Params[cname+"."+name] = params
			if p.isP("{") {
				p.skipBalanced("{", "}")
			}
		default:
			// field: name?: type;
			for !p.isP(";") && !p.isP("}") && p.peek().kind != "eof" {
				if p.isP("{") {
					p.skipBalanced("{", "}")
					continue
				}
				p.adv()
			}
			if p.isP(";") {
				p.adv()
			}
		}
	}
	return p.expectP("}")
}

func (p *parser) parseParams() ([]*Type, error) {
	if err := p.expectP("("); err != nil {
		return nil, err
	}
	var out []*Type
	for !p.isP(")") && p.peek().kind != "eof" {
		p.adv() // name
		if p.isP("?") {
			p.adv()
		}
		if p.isP(":") {
			p.adv()
			t, err := p.parseType()
			if err != nil {
				return nil, err
			}
			out = append(out, t)
		}
		if p.isP("=") { // default value
			for !p.isP(",") && !p.isP(")") && p.peek().kind != "eof" {
				p.adv()
			}
		}
		if p.isP(",") {
			p.adv()
		}
	}
	return out, p.expectP(")")
}

func (p *parser) parseObject() (*Type, error) {
	if err := p.expectP("{"); err != nil {
		return nil, err
	}
	obj := &Type{Kind: "object"}
	for !p.isP("}") {
		if p.peek().kind == "eof" {
			return nil, fmt.Errorf("unterminated object type")
		}
		if p.isI("readonly") {
			p.adv()
		}
		t := p.adv()
		if t.kind != "ident" && t.kind != "string" {
			return nil, fmt.Errorf("unexpected token %q where a property name was expected", t.val)
		}
		pr := &Prop{Name: t.val}
		if p.isP("?") {
			p.adv()
			pr.Optional = true
		}
		if p.isP("(") {
			// method signature inside an interface (e.g. handler interfaces): record as any
			if _, err := p.parseParams(); err != nil {
				return nil, err
			}
			if p.isP(":") {
				p.adv()
				if _, err := p.parseType(); err != nil {
					return nil, err
				}
			}
			pr.Type = &Type{Kind: "any"}
		} else {
			if err := p.expectP(":"); err != nil {
				return nil, fmt.Errorf("property %s: %w", pr.Name, err)
			}
			ty, err := p.parseType()
			if err != nil {
				return nil, fmt.Errorf("property %s: %w", pr.Name, err)
			}
			pr.Type = ty
		}
		obj.Props = append(obj.Props, pr)
		if p.isP(";") || p.isP(",") {
			p.adv()
		}
	}
	p.adv()
	return obj, nil
}

// parseType: union of intersections of postfix types.
func (p *parser) parseType() (*Type, error) {
	if p.isP("|") {
		p.adv()
	}
	first, err := p.parseIntersection()
	if err != nil {
		return nil, err
	}
	if !p.isP("|") {
		return first, nil
	}
	u := &Type{Kind: "union", Members: []*Type{first}}
	for p.isP("|") {
		p.adv()
		t, err := p.parseIntersection()
		if err != nil {
			return nil, err
		}
		u.Members = append(u.Members, t)
	}
	return u, nil
}

func (p *parser) parseIntersection() (*Type, error) {
	first, err := p.parsePostfix()
	if err != nil {
		return nil, err
	}
	if !p.isP("&") {
		return first, nil
	}
	in := &Type{Kind: "intersection", Members: []*Type{first}}
	for p.isP("&") {
		p.adv()
		t, err := p.parsePostfix()
		if err != nil {
			return nil, err
		}
		in.Members = append(in.Members, t)
	}
	return in, nil
}

func (p *parser) parsePostfix() (*Type, error) {
	t, err := p.parsePrimary()
	if err != nil {
		return nil, err
	}
	for p.isP("[") && p.toks[p.i+1].kind == "punct" && p.toks[p.i+1].val == "]" {
		p.adv()
		p.adv()
		t = &Type{Kind: "array", Elem: t}
	}
	return t, nil
}

func (p *parser) parsePrimary() (*Type, error) {
	t := p.peek()
	switch {
	case t.kind == "string":
		p.adv()
		return &Type{Kind: "literal", Literal: t.val}, nil
	case t.kind == "punct" && t.val == "{":
		return p.parseObject()
	case t.kind == "punct" && t.val == "(":
		// parenthesised type or function type
		save := p.i
		p.adv()
		inner, err := p.parseType()
		if err == nil && p.isP(")") {
			p.adv()
			if p.isP("=>") {
				p.adv()
				if _, err := p.parseType(); err != nil {
					return nil, err
				}
				return &Type{Kind: "any"}, nil
			}
			return inner, nil
		}
		// function type with parameters
		p.i = save
		if _, err := p.parseParams(); err != nil {
			return nil, err
		}
		if p.isP("=>") {
			p.adv()
			if _, err := p.parseType(); err != nil {
				return nil, err
			}
		}
		return &Type{Kind: "any"}, nil
	case t.kind == "ident":
		p.adv()
		switch t.val {
		case "string", "number", "boolean", "null", "unknown", "any", "undefined", "never", "void":
			k := t.val
			if k == "undefined" || k == "void" {
				k = "null"
			}
			return &Type{Kind: k}, nil
		case "typeof":
			p.adv()
			return &Type{Kind: "any"}, nil
		}
		ref := &Type{Kind: "ref", Name: t.val}
		if p.isP("<") {
			p.adv()
			var args []*Type
			for !p.isP(">") {
				a, err := p.parseType()
				if err != nil {
					return nil, err
				}
				args = append(args, a)
				if p.isP(",") {
					p.adv()
				}
			}
			p.adv()
			switch {
			case t.val == "Record" && len(args) == 2:
				return &Type{Kind: "record", Key: args[0], Elem: args[1]}, nil
			case t.val == "Array" && len(args) == 1:
				return &Type{Kind: "array", Elem: args[0]}, nil
			case len(args) == 1:
				ref.Elem = args[0]
			}
		}
		return ref, nil
	}
	return nil, fmt.Errorf("unexpected token %q in a type", t.val)
}

// ---- inhabitation ----------------------------------------------------------------------------------

// Options tunes Inhabits.
type Options struct {
	// AllowMissingRequired accepts objects that lack a non-optional property (proto3 JSON omits
	// zero values of implicit-presence fields).
	AllowMissingRequired bool
}

// Inhabits reports "" when v (a JSON tree with json.Number numbers) is a value of t, with every
// property present in v declared at that position; otherwise it describes the first mismatch.
func (m *Module) Inhabits(v any, t *Type, o Options) string {
	return m.inhabits(v, t, o, "$", 0)
}

func (m *Module) resolve(t *Type, depth int) *Type {
	for t != nil && t.Kind == "ref" && depth < 20 {
		d, ok := m.Types[t.Name]
		if !ok {
			return t
		}
		t = d
		depth++
	}
	return t
}

// objectView flattens refs and intersections into a property map; ok=false if t is not object-like.
func (m *Module) objectView(t *Type, depth int) (map[string]*Prop, bool) {
	t = m.resolve(t, 0)
	if t == nil || depth > 10 {
		return nil, false
	}
	switch t.Kind {
	case "object":
		out := map[string]*Prop{}
		for _, p := range t.Props {
			out[p.Name] = p
		}
		return out, true
	case "intersection":
		out := map[string]*Prop{}
		for _, mem := range t.Members {
			if r := m.resolve(mem, 0); r != nil && r.Kind == "union" {
				return nil, false // handled by the caller
			}
			pm, ok := m.objectView(mem, depth+1)
			if !ok {
				return nil, false
			}
			for k, v := range pm {
				out[k] = v
			}
		}
		return out, true
	}
	return nil, false
}

func (m *Module) inhabits(v any, t *Type, o Options, path string, depth int) string {
	if depth > 60 {
		return ""
	}
	t = m.resolve(t, 0)
	if t == nil {
		return path + ": no type"
	}
	switch t.Kind {
	case "any", "unknown":
		return ""
	case "ref":
		return fmt.Sprintf("%s: type %s is not declared in the module", path, t.Name)
	case "string":
		if _, ok := v.(string); !ok {
			return fmt.Sprintf("%s: %s is not a string", path, brief(v))
		}
	case "number":
		if _, ok := v.(json.Number); !ok {
			return fmt.Sprintf("%s: %s is not a number", path, brief(v))
		}
	case "boolean":
		if _, ok := v.(bool); !ok {
			return fmt.Sprintf("%s: %s is not a boolean", path, brief(v))
		}
	case "null":
		if v != nil {
			return fmt.Sprintf("%s: %s is not null", path, brief(v))
		}
	case "literal":
		if s, ok := v.(string); !ok || s != t.Literal {
			return fmt.Sprintf("%s: %s is not the literal %q", path, brief(v), t.Literal)
		}
	case "array":
		a, ok := v.([]any)
		if !ok {
			return fmt.Sprintf("%s: %s is not an array", path, brief(v))
		}
		for i, e := range a {
			if d := m.inhabits(e, t.Elem, o, fmt.Sprintf("%s[%d]", path, i), depth+1); d != "" {
				return d
			}
		}
	case "record":
		mp, ok := v.(map[string]any)
		if !ok {
			return fmt.Sprintf("%s: %s is not an object (Record)", path, brief(v))
		}
		for _, k := range keys(mp) {
			if d := m.inhabits(mp[k], t.Elem, o, path+"."+k, depth+1); d != "" {
				return d
			}
		}
	case "union":
		var first string
		for _, mem := range t.Members {
			d := m.inhabits(v, mem, o, path, depth+1)
			if d == "" {
				return ""
			}
			if first == "" {
				first = d
			}
		}
		return fmt.Sprintf("%s: %s matches no member of the union (e.g. %s)", path, brief(v), first)
	case "object", "intersection":
		if t.Kind == "intersection" {
			// intersection with union members: every member must hold, undeclared-property check on
			// the union of declared names
			hasUnion := false
			for _, mem := range t.Members {
				if r := m.resolve(mem, 0); r != nil && r.Kind == "union" {
					hasUnion = true
				}
			}
			if hasUnion {
				return m.inhabitsIntersection(v, t, o, path, depth)
			}
		}
		mp, ok := v.(map[string]any)
		if !ok {
			return fmt.Sprintf("%s: %s is not an object", path, brief(v))
		}
		props, ok := m.objectView(t, 0)
		if !ok {
			return fmt.Sprintf("%s: unsupported intersection shape", path)
		}
		for _, k := range keys(mp) {
			pr, ok := props[k]
			if !ok {
				return fmt.Sprintf("%s: property %q is on the wire but not declared by the type", path, k)
			}
			if d := m.inhabits(mp[k], pr.Type, o, path+"."+k, depth+1); d != "" {
				return d
			}
		}
		if !o.AllowMissingRequired {
			var names []string
			for n := range props {
				names = append(names, n)
			}
			sort.Strings(names)
			for _, n := range names {
				if _, ok := mp[n]; !ok && !props[n].Optional {
					return fmt.Sprintf("%s: required property %q is missing", path, n)
				}
			}
		}
	default:
		return fmt.Sprintf("%s: unsupported type kind %s", path, t.Kind)
	}
	return ""
}

// declaredNames collects every property name any branch of t may declare.
func (m *Module) declaredNames(t *Type, out map[string]bool, depth int) {
	t = m.resolve(t, 0)
	if t == nil || depth > 10 {
		return
	}
	switch t.Kind {
	case "object":
		for _, p := range t.Props {
			out[p.Name] = true
		}
	case "intersection", "union":
		for _, mem := range t.Members {
			m.declaredNames(mem, out, depth+1)
		}
	}
}

func (m *Module) inhabitsIntersection(v any, t *Type, o Options, path string, depth int) string {
	mp, ok := v.(map[string]any)
	if !ok {
		return fmt.Sprintf("%s: %s is not an object", path, brief(v))
	}
	all := map[string]bool{}
	m.declaredNames(t, all, 0)
	for _, k := range keys(mp) {
		if !all[k] {
			return fmt.Sprintf("%s: property %q is on the wire but not declared by the type", path, k)
		}
	}
	for _, mem := range t.Members {
		// restrict the instance to the names this member can declare, so that the member's own
		// undeclared-property check does not trip over its siblings' properties
		names := map[string]bool{}
		m.declaredNames(mem, names, 0)
		sub := map[string]any{}
		for k, val := range mp {
			if names[k] {
				sub[k] = val
			}
		}
		if d := m.inhabits(sub, mem, o, path, depth+1); d != "" {
			return d
		}
	}
	return ""
}

// Equal compares two types structurally (property order ignored).
func Equal(a, b *Type) bool {
	if a == nil || b == nil {
		return a == b
	}
	if a.Kind != b.Kind || a.Literal != b.Literal || a.Name != b.Name {
		return false
	}
	if !Equal(a.Elem, b.Elem) || !Equal(a.Key, b.Key) || len(a.Props) != len(b.Props) || len(a.Members) != len(b.Members) {
		return false
	}
	ap := map[string]*Prop{}
	for _, p := range a.Props {
		ap[p.Name] = p
	}
	for _, p := range b.Props {
		q, ok := ap[p.Name]
		if !ok || q.Optional != p.Optional || !Equal(q.Type, p.Type) {
			return false
		}
	}
	for i := range a.Members {
		if !Equal(a.Members[i], b.Members[i]) {
			return false
		}
	}
	return true
}

func keys(m map[string]any) []string {
	ks := make([]string, 0, len(m))
	for k := range m {
		ks = append(ks, k)
	}
	sort.Strings(ks)
	return ks
}

func brief(v any) string {
	b, _ := json.Marshal(v)
	if len(b) > 100 {
		return string(b[:100]) + "…"
	}
	return string(b)
}

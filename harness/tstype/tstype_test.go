package tstype

import (
	"encoding/json"
	"os"
	"path/filepath"
	"strings"
	"testing"
)

func tree(s string) any {
	dec := json.NewDecoder(strings.NewReader(s))
	dec.UseNumber()
	var v any
	_ = dec.Decode(&v)
	return v
}

func TestParseAndInhabit(t *testing.T) {
	src := `
export interface A { name: string; n?: number; tags: string[]; m: Record<string, B>; k: string | null; e: Color; }
export interface B { x: number; }
export type Color = "RED" | "GREEN";
export type U =
  | { type: "text"; text?: string }
  | { type: "img"; url: string; w: number };
export interface CBase { id: string; }
export type C = CBase & U;
export class SvcClient {
  private baseURL: string;
  constructor(baseURL: string, options?: X) { this.baseURL = baseURL; }
  async list(req: A, options?: Y): Promise<B[]> { return []; }
}
`
	m, err := ParseModule(src)
	if err != nil {
		t.Fatal(err)
	}
	ok := []struct{ ty, v string }{
		{"A", `{"name":"x","tags":[],"m":{"a":{"x":1}},"k":null,"e":"RED"}`},
		{"U", `{"type":"img","url":"u","w":2}`},
		{"C", `{"id":"1","type":"text","text":"hi"}`},
	}
	for _, c := range ok {
		if d := m.Inhabits(tree(c.v), m.Types[c.ty], Options{}); d != "" {
			t.Errorf("%s should inhabit %s: %s", c.v, c.ty, d)
		}
	}
	bad := []struct{ ty, v string }{
		{"A", `{"name":1,"tags":[],"m":{},"k":null,"e":"RED"}`},
		{"A", `{"name":"x","tags":[],"m":{},"k":null,"e":"BLUE"}`},
		{"A", `{"name":"x","tags":[],"m":{},"k":null,"e":"RED","zz":1}`},
		{"A", `{"name":"x","tags":[],"m":{},"e":"RED"}`},
		{"C", `{"id":"1","type":"img","url":"u","w":"2"}`},
		{"C", `{"id":"1","type":"text","extra":true}`},
	}
	for _, c := range bad {
		if d := m.Inhabits(tree(c.v), m.Types[c.ty], Options{}); d == "" {
			t.Errorf("%s should NOT inhabit %s", c.v, c.ty)
		}
	}
	if r := m.Returns["SvcClient.list"]; r == nil || r.Kind != "array" {
		t.Errorf("return type of list not parsed: %+v", r)
	}
}

func TestParseEmitted(t *testing.T) {
	files, _ := filepath.Glob("/tmp/vts/verif.test/gen/*/*.ts")
	for _, f := range files {
		b, _ := os.ReadFile(f)
		if _, err := ParseModule(string(b)); err != nil {
			t.Errorf("%s: %v", f, err)
		}
	}
	t.Logf("parsed %d emitted files", len(files))
}

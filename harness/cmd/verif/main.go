// Command verif runs one property check: verif <ID> [quick|thorough] [--replay file].
package main

import (
	"fmt"
	"os"
	"sort"

	"verif/harness/checks"
	"verif/harness/core"
)

func main() {
	if len(os.Args) < 2 {
		ids := []string{}
		for id := range checks.Registry {
			ids = append(ids, id)
		}
		sort.Strings(ids)
		fmt.Fprintln(os.Stderr, "usage: verif <ID> [quick|thorough] [--replay file]; checks:", ids)
		os.Exit(core.ExitInfra)
	}
	id := os.Args[1]
	if id == "pin" {
		if err := checks.WritePinned(); err != nil {
			fmt.Fprintln(os.Stderr, err)
			os.Exit(core.ExitInfra)
		}
		return
	}
	tier := os.Getenv("VERIF_TIER")
	replay := ""
	for i := 2; i < len(os.Args); i++ {
		switch os.Args[i] {
		case "quick", "thorough":
			tier = os.Args[i]
		case "--replay":
			if i+1 < len(os.Args) {
				replay = os.Args[i+1]
				i++
			}
		}
	}
	if tier == "" {
		tier = "quick"
	}
	ch, ok := checks.Registry[id]
	if !ok {
		fmt.Fprintln(os.Stderr, "unknown check", id)
		os.Exit(core.ExitInfra)
	}
	c, err := core.NewCtx(id, tier)
	if err != nil {
		fmt.Fprintln(os.Stderr, "infrastructure error:", err)
		os.Exit(core.ExitInfra)
	}
	code := func() int {
		defer c.Close()
		if replay != "" {
			b, err := os.ReadFile(replay)
			if err != nil {
				fmt.Fprintln(os.Stderr, err)
				return core.ExitInfra
			}
			failed, summary, err := ch.Replay(c, b)
			if err != nil {
				fmt.Fprintln(os.Stderr, "infrastructure error:", err)
				return core.ExitInfra
			}
			if failed {
				fmt.Printf("VIOLATION property=%s replay=%s\n  %s\n", id, replay, summary)
				return core.ExitViolation
			}
			fmt.Println("replay passes:", summary)
			return core.ExitOK
		}
		if err := ch.Run(c); err != nil {
			fmt.Fprintln(os.Stderr, "infrastructure error:", err)
			return core.ExitInfra
		}
		return c.Finish()
	}()
	os.Exit(code)
}

// Command verif runs one property check: verif <ID> [quick|thorough] [--replay file].
package main

import (
	"encoding/json"
	"fmt"
	"os"
	"path/filepath"
	"sort"

	"verif/harness/plugin"
	"verif/harness/schema"

	"verif/harness/checks"
	"verif/harness/core"
)

func main() {
	if len(os.Args) < 2 {
		ids := []string{}
		for id := range checks.Registry {
			ids = append(ids, id)
		}
		sort.Strings(ids)
		fmt.Fprintln(os.Stderr, "usage: verif <ID> [quick|thorough] [--replay file]; checks:", ids)
		os.Exit(core.ExitInfra)
	}
	id := os.Args[1]
	if id == "pin" {
		if err := checks.WritePinned(); err != nil {
			fmt.Fprintln(os.Stderr, err)
			os.Exit(core.ExitInfra)
		}
		return
	}
	if id == "dump" && len(os.Args) >= 4 {
		// verif dump <replay.json> <outdir> [param]: writes what the five plugins emit for the replay's schema
		if err := dump(os.Args[2], os.Args[3], append(os.Args[4:], "")[0]); err != nil {
			fmt.Fprintln(os.Stderr, err)
			os.Exit(core.ExitInfra)
		}
		return
	}
	tier := os.Getenv("VERIF_TIER")
	replay := ""
	for i := 2; i < len(os.Args); i++ {
		switch os.Args[i] {
		case "quick", "thorough":
			tier = os.Args[i]
		case "--replay":
			if i+1 < len(os.Args) {
				replay = os.Args[i+1]
				i++
			}
		}
	}
	if tier == "" {
		tier = "quick"
	}
	ch, ok := checks.Registry[id]
	if !ok {
		fmt.Fprintln(os.Stderr, "unknown check", id)
		os.Exit(core.ExitInfra)
	}
	c, err := core.NewCtx(id, tier)
	if err != nil {
		fmt.Fprintln(os.Stderr, "infrastructure error:", err)
		os.Exit(core.ExitInfra)
	}
	code := func() int {
		defer c.Close()
		if replay != "" {
			b, err := os.ReadFile(replay)
			if err != nil {
				fmt.Fprintln(os.Stderr, err)
				return core.ExitInfra
			}
			failed, summary, err := ch.Replay(c, b)
			if err != nil {
				fmt.Fprintln(os.Stderr, "infrastructure error:", err)
				return core.ExitInfra
			}
			if failed {
				fmt.Printf("VIOLATION property=%s replay=%s\n  %s\n", id, replay, summary)
				return core.ExitViolation
			}
			fmt.Println("replay passes:", summary)
			return core.ExitOK
		}
		if err := ch.Run(c); err != nil {
			fmt.Fprintln(os.Stderr, "infrastructure error:", err)
			return core.ExitInfra
		}
		return c.Finish()
	}()
	os.Exit(code)
}

func dump(replay, outdir, param string) error {
	b, err := os.ReadFile(replay)
	if err != nil {
		return err
	}
	var doc struct {
		Schema *schema.Schema `json:"schema"`
	}
	if err := json.Unmarshal(b, &doc); err != nil || doc.Schema == nil {
		return fmt.Errorf("no schema in %s: %v", replay, err)
	}
	c, err := core.NewCtx("C13", "quick")
	if err != nil {
		return err
	}
	defer c.Close()
	req, err := schema.Request(param, doc.Schema)
	if err != nil {
		return err
	}
	for _, name := range plugin.All {
		r := c.Plugins.Run(name, req, plugin.Opts{})
		if e := r.Err(); e != "" {
			fmt.Printf("%s: %s\n", name, e)
		}
		for fn, content := range r.Files() {
			path := filepath.Join(outdir, name, fn)
			_ = os.MkdirAll(filepath.Dir(path), 0o755)
			if err := os.WriteFile(path, []byte(content), 0o644); err != nil {
				return err
			}
		}
	}
	return nil
}

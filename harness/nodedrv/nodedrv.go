// Package nodedrv runs /verif/node/driver.mjs under Node >= 22.6 (type stripping) and talks
// JSON lines with it.
package nodedrv

import (
	"bufio"
	"encoding/json"
	"errors"
	"fmt"
	"io"
	"os/exec"
	"path/filepath"
	"sort"
	"strconv"
	"strings"
	"sync"
	"time"
)

// ErrNoNode is returned when no suitable Node runtime exists (infrastructure, exit 2).
var ErrNoNode = errors.New("no Node.js >= 22.6 found (needed to load emitted TypeScript)")

// FindNode locates a Node binary with built-in type stripping.
func FindNode() (string, error) {
	var cands []string
	if m, _ := filepath.Glob("/root/.nvm/versions/node/*/bin/node"); len(m) > 0 {
		sort.Slice(m, func(i, j int) bool { return verKey(m[i]) > verKey(m[j]) })
		cands = append(cands, m...)
	}
	if p, err := exec.LookPath("node"); err == nil {
		cands = append(cands, p)
	}
	for _, c := range cands {
		out, err := exec.Command(c, "--version").Output()
		if err != nil {
			continue
		}
		v := strings.TrimPrefix(strings.TrimSpace(string(out)), "v")
		parts := strings.Split(v, ".")
		if len(parts) < 2 {
			continue
		}
		maj, _ := strconv.Atoi(parts[0])
		min, _ := strconv.Atoi(parts[1])
		if maj > 22 || (maj == 22 && min >= 18) {
			return c, nil
		}
	}
	return "", ErrNoNode
}

func verKey(p string) int {
	// .../node/v22.22.2/bin/node
	parts := strings.Split(p, "/")
	for _, s := range parts {
		if strings.HasPrefix(s, "v") && strings.Count(s, ".") == 2 {
			f := strings.Split(s[1:], ".")
			a, _ := strconv.Atoi(f[0])
			b, _ := strconv.Atoi(f[1])
			c, _ := strconv.Atoi(f[2])
			return a*1000000 + b*1000 + c
		}
	}
	return 0
}

// Driver is a running driver process.
type Driver struct {
	cmd *exec.Cmd
	in  io.WriteCloser
	out *bufio.Reader
	mu  sync.Mutex
	id  int
}

// Start launches the driver. script is the path of the .mjs entry point.
func Start(script string, extraArgs ...string) (*Driver, error) {
	node, err := FindNode()
	if err != nil {
		return nil, err
	}
	args := append([]string{"--no-warnings", script}, extraArgs...)
	cmd := exec.Command(node, args...)
	cmd.Stderr = nil // never inherit the parent's pipes: an orphaned helper would keep them open
	in, err := cmd.StdinPipe()
	if err != nil {
		return nil, err
	}
	out, err := cmd.StdoutPipe()
	if err != nil {
		return nil, err
	}
	if err := cmd.Start(); err != nil {
		return nil, err
	}
	d := &Driver{cmd: cmd, in: in, out: bufio.NewReaderSize(out, 1<<20)}
	if _, err := d.Call(map[string]any{"op": "ping"}); err != nil {
		d.Close()
		return nil, fmt.Errorf("node driver did not start: %w", err)
	}
	return d, nil
}

// Reply is a driver reply.
type Reply map[string]any

// OK reports the ok flag.
func (r Reply) OK() bool { b, _ := r["ok"].(bool); return b }

// Err returns the error text.
func (r Reply) Err() string { s, _ := r["error"].(string); return s }

// Call sends one command and waits for its reply.
func (d *Driver) Call(cmd map[string]any) (Reply, error) {
	d.mu.Lock()
	defer d.mu.Unlock()
	d.id++
	cmd["id"] = d.id
	b, err := json.Marshal(cmd)
	if err != nil {
		return nil, err
	}
	if _, err := d.in.Write(append(b, '\n')); err != nil {
		return nil, err
	}
	type rd struct {
		line []byte
		err  error
	}
	ch := make(chan rd, 1)
	go func() {
		l, e := d.out.ReadBytes('\n')
		ch <- rd{l, e}
	}()
	var line []byte
	select {
	case r := <-ch:
		if r.err != nil {
			return nil, fmt.Errorf("node driver died: %w", r.err)
		}
		line = r.line
	case <-time.After(90 * time.Second):
		_ = d.cmd.Process.Kill()
		return nil, fmt.Errorf("node driver did not answer %v within 90 s", cmd["op"])
	}
	var r Reply
	dec := json.NewDecoder(strings.NewReader(string(line)))
	dec.UseNumber()
	if err := dec.Decode(&r); err != nil {
		return nil, fmt.Errorf("bad reply %q: %w", line, err)
	}
	return r, nil
}

// Close stops the driver.
func (d *Driver) Close() {
	_ = d.in.Close()
	_ = d.cmd.Process.Kill()
	_ = d.cmd.Wait()
}

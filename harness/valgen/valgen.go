// Package valgen draws protobuf message values with rapid from a message descriptor.
package valgen

import (
	"math"
	"strings"
	"unicode/utf8"

	"google.golang.org/protobuf/proto"
	"google.golang.org/protobuf/reflect/protoreflect"
	"pgregory.net/rapid"

	"verif/harness/model"
)

// Opts tunes value generation.
type Opts struct {
	MaxDepth     int  // nesting depth for message fields (default 3)
	MaxElems     int  // max list/map elements (default 3)
	NoNaN        bool // never draw NaN/Inf
	UnknownEnums bool // allow unknown enum numbers on plain enums
	JSONSafe     bool // only values whose contract JSON form is unambiguous in JavaScript (|int| <= 2^53, no NaN/Inf)
}

func (o Opts) depth() int {
	if o.MaxDepth == 0 {
		return 3
	}
	return o.MaxDepth
}
func (o Opts) elems() int {
	if o.MaxElems == 0 {
		return 3
	}
	return o.MaxElems
}

var interestingStrings = []string{
	"", "a", "hello", "héllo wörld", "日本語", "😀 emoji", "é", "שלום", "a/b", "a?b=c&d", "x#frag", "100%", "a+b c", "semi;colon", "..", ".",
	"tab\there", "new\nline", "quote\"s", "back\\slash", "<tag>", "null", "true", "123", "-1", "1e3", " lead", "trail ", "%2F", "%zz", "a=b", "@", ":", "[x]", "{id}",
}

// String draws a valid UTF-8 string.
func String(t *rapid.T, label string) string {
	switch rapid.IntRange(0, 9).Draw(t, label+"#cls") {
	case 0, 1, 2, 3:
		return interestingStrings[rapid.IntRange(0, len(interestingStrings)-1).Draw(t, label+"#i")]
	case 4:
		return strings.Repeat(interestingStrings[rapid.IntRange(1, len(interestingStrings)-1).Draw(t, label+"#i")], rapid.IntRange(2, 40).Draw(t, label+"#rep"))
	default:
		s := rapid.String().Draw(t, label)
		if !utf8.ValidString(s) {
			s = strings.ToValidUTF8(s, "?")
		}
		return s
	}
}

func int64Val(t *rapid.T, label string, safe bool) int64 {
	edge := []int64{0, 1, -1, 2, 7, 42, 127, 128, 255, 256, math.MaxInt32, math.MinInt32, 1 << 31, 1 << 32, 1<<53 - 1, 1 << 53, -(1 << 53)}
	if !safe {
		edge = append(edge, 1<<53+1, -(1<<53 + 1), math.MaxInt64, math.MinInt64, math.MaxInt64-1)
	}
	if rapid.IntRange(0, 2).Draw(t, label+"#cls") != 0 {
		return edge[rapid.IntRange(0, len(edge)-1).Draw(t, label+"#i")]
	}
	if safe {
		return rapid.Int64Range(-(1<<53), 1<<53).Draw(t, label)
	}
	return rapid.Int64().Draw(t, label)
}

func uint64Val(t *rapid.T, label string, safe bool) uint64 {
	edge := []uint64{0, 1, 2, 42, 255, 256, math.MaxInt32, 1 << 31, math.MaxUint32, 1 << 32, 1<<53 - 1, 1 << 53}
	if !safe {
		edge = append(edge, 1<<53+1, math.MaxInt64, 1<<63, math.MaxUint64)
	}
	if rapid.IntRange(0, 2).Draw(t, label+"#cls") != 0 {
		return edge[rapid.IntRange(0, len(edge)-1).Draw(t, label+"#i")]
	}
	if safe {
		return rapid.Uint64Range(0, 1<<53).Draw(t, label)
	}
	return rapid.Uint64().Draw(t, label)
}

func int32Val(t *rapid.T, label string) int32 {
	edge := []int32{0, 1, -1, 2, 42, 127, 128, 255, 65535, math.MaxInt32, math.MinInt32, math.MaxInt32 - 1}
	if rapid.IntRange(0, 2).Draw(t, label+"#cls") != 0 {
		return edge[rapid.IntRange(0, len(edge)-1).Draw(t, label+"#i")]
	}
	return rapid.Int32().Draw(t, label)
}

func uint32Val(t *rapid.T, label string) uint32 {
	edge := []uint32{0, 1, 2, 42, 255, 65536, math.MaxInt32, 1 << 31, math.MaxUint32}
	if rapid.IntRange(0, 2).Draw(t, label+"#cls") != 0 {
		return edge[rapid.IntRange(0, len(edge)-1).Draw(t, label+"#i")]
	}
	return rapid.Uint32().Draw(t, label)
}

func float64Val(t *rapid.T, label string, noNaN bool) float64 {
	edge := []float64{0, 1, -1, 0.5, 0.1, 1.5, -2.25, 100, 1e21, 1e-7, 123456789.125, math.MaxFloat64, math.SmallestNonzeroFloat64, 4.9e-324, 1.7976931348623157e308,
		0.30000000000000004, 9007199254740993, math.Copysign(0, -1), 3.141592653589793}
	if !noNaN {
		edge = append(edge, math.NaN(), math.Inf(1), math.Inf(-1))
	}
	if rapid.IntRange(0, 2).Draw(t, label+"#cls") != 0 {
		return edge[rapid.IntRange(0, len(edge)-1).Draw(t, label+"#i")]
	}
	f := rapid.Float64().Draw(t, label)
	return f
}

func float32Val(t *rapid.T, label string, noNaN bool) float32 {
	edge := []float32{0, 1, -1, 0.5, 0.1, 1.5, 16777216, 16777217, math.MaxFloat32, math.SmallestNonzeroFloat32, 3.4028235e38, 1e-10, float32(math.Copysign(0, -1)), 3.1415927}
	if !noNaN {
		edge = append(edge, float32(math.NaN()), float32(math.Inf(1)), float32(math.Inf(-1)))
	}
	if rapid.IntRange(0, 2).Draw(t, label+"#cls") != 0 {
		return edge[rapid.IntRange(0, len(edge)-1).Draw(t, label+"#i")]
	}
	return rapid.Float32().Draw(t, label)
}

func bytesVal(t *rapid.T, label string) []byte {
	switch rapid.IntRange(0, 5).Draw(t, label+"#cls") {
	case 0:
		return []byte{}
	case 1:
		// bytes producing '+' '/' in std base64 ('-' '_' in url): 0xfb 0xff 0xbf
		b := []byte{0xfb, 0xff, 0xbf, 0xfe, 0x3e, 0x3f}
		return b[:rapid.IntRange(1, len(b)).Draw(t, label+"#n")]
	case 2:
		n := rapid.IntRange(1, 7).Draw(t, label+"#n") // all padding residues
		return rapid.SliceOfN(rapid.Byte(), n, n).Draw(t, label)
	default:
		return rapid.SliceOfN(rapid.Byte(), 0, 40).Draw(t, label)
	}
}

// timestamp draws seconds/nanos within the RFC 3339 range.
func timestampVal(t *rapid.T, label string) (int64, int32) {
	const minSec, maxSec = -62135596800, 253402300799
	secEdge := []int64{0, 1, -1, 1705312200, 1e9, -86400, 86399, 951782400, minSec, maxSec, 2147483647, 2147483648, 4102444800}
	var sec int64
	if rapid.IntRange(0, 1).Draw(t, label+"#cls") == 0 {
		sec = secEdge[rapid.IntRange(0, len(secEdge)-1).Draw(t, label+"#i")]
	} else {
		sec = rapid.Int64Range(minSec, maxSec).Draw(t, label+"#sec")
	}
	nanoEdge := []int32{0, 0, 1, 999, 1000, 999999, 1000000, 123000000, 123456000, 123456789, 999999999, 500000000}
	var nanos int32
	if rapid.IntRange(0, 1).Draw(t, label+"#ncls") == 0 {
		nanos = nanoEdge[rapid.IntRange(0, len(nanoEdge)-1).Draw(t, label+"#ni")]
	} else {
		nanos = rapid.Int32Range(0, 999999999).Draw(t, label+"#nanos")
	}
	return sec, nanos
}

// Scalar draws a singular value of fd's kind (not message).
func Scalar(t *rapid.T, fd protoreflect.FieldDescriptor, label string, o Opts) protoreflect.Value {
	switch fd.Kind() {
	case protoreflect.BoolKind:
		return protoreflect.ValueOfBool(rapid.Bool().Draw(t, label))
	case protoreflect.StringKind:
		return protoreflect.ValueOfString(String(t, label))
	case protoreflect.BytesKind:
		return protoreflect.ValueOfBytes(bytesVal(t, label))
	case protoreflect.Int32Kind, protoreflect.Sint32Kind, protoreflect.Sfixed32Kind:
		return protoreflect.ValueOfInt32(int32Val(t, label))
	case protoreflect.Uint32Kind, protoreflect.Fixed32Kind:
		return protoreflect.ValueOfUint32(uint32Val(t, label))
	case protoreflect.Int64Kind, protoreflect.Sint64Kind, protoreflect.Sfixed64Kind:
		return protoreflect.ValueOfInt64(int64Val(t, label, o.JSONSafe && model.Int64Number(fd)))
	case protoreflect.Uint64Kind, protoreflect.Fixed64Kind:
		return protoreflect.ValueOfUint64(uint64Val(t, label, o.JSONSafe && model.Int64Number(fd)))
	case protoreflect.FloatKind:
		f := float32Val(t, label, o.NoNaN || o.JSONSafe)
		if o.JSONSafe && f == 0 {
			f = 0 // JavaScript's JSON drops the sign of negative zero
		}
		return protoreflect.ValueOfFloat32(f)
	case protoreflect.DoubleKind:
		f := float64Val(t, label, o.NoNaN || o.JSONSafe)
		if o.JSONSafe && f == 0 {
			f = 0
		}
		return protoreflect.ValueOfFloat64(f)
	case protoreflect.EnumKind:
		vs := fd.Enum().Values()
		if o.UnknownEnums && !model.EnumNumber(fd) && rapid.IntRange(0, 9).Draw(t, label+"#unk") == 0 {
			custom := false
			for i := 0; i < vs.Len(); i++ {
				if model.EnumCustom(vs.Get(i)) != "" {
					custom = true
				}
			}
			if !custom {
				return protoreflect.ValueOfEnum(protoreflect.EnumNumber(rapid.Int32Range(100, 200).Draw(t, label+"#unkv")))
			}
		}
		return protoreflect.ValueOfEnum(vs.Get(rapid.IntRange(0, vs.Len()-1).Draw(t, label)).Number())
	}
	panic("valgen: not a scalar kind: " + fd.Kind().String())
}

// Fill populates m (a fresh message) with drawn values.
func Fill(t *rapid.T, m protoreflect.Message, label string, o Opts) {
	fill(t, m, label, o, 0)
}

// Message draws a new message of the same type as proto.
func Message(t *rapid.T, newMsg func() proto.Message, label string, o Opts) proto.Message {
	m := newMsg()
	fill(t, m.ProtoReflect(), label, o, 0)
	return m
}

func fillTimestamp(t *rapid.T, m protoreflect.Message, label string) {
	sec, nanos := timestampVal(t, label)
	fs := m.Descriptor().Fields()
	if sec != 0 {
		m.Set(fs.ByName("seconds"), protoreflect.ValueOfInt64(sec))
	}
	if nanos != 0 {
		m.Set(fs.ByName("nanos"), protoreflect.ValueOfInt32(nanos))
	}
}

func fill(t *rapid.T, m protoreflect.Message, label string, o Opts, depth int) {
	md := m.Descriptor()
	if md.FullName() == "google.protobuf.Timestamp" {
		fillTimestamp(t, m, label)
		return
	}
	fs := md.Fields()
	// real oneofs: choose at most one member
	chosen := map[protoreflect.FullName]protoreflect.FieldDescriptor{}
	os := md.Oneofs()
	for i := 0; i < os.Len(); i++ {
		od := os.Get(i)
		if od.IsSynthetic() {
			continue
		}
		k := rapid.IntRange(-1, od.Fields().Len()-1).Draw(t, label+"."+string(od.Name())+"#which")
		if k >= 0 {
			chosen[od.FullName()] = od.Fields().Get(k)
		}
	}
	for i := 0; i < fs.Len(); i++ {
		fd := fs.Get(i)
		fl := label + "." + string(fd.Name())
		if od := fd.ContainingOneof(); od != nil && !od.IsSynthetic() {
			if chosen[od.FullName()] != fd {
				continue
			}
			// member chosen: set even to the zero value
			if fd.Kind() == protoreflect.MessageKind {
				child := m.Mutable(fd).Message()
				if depth < o.depth() {
					fill(t, child, fl, o, depth+1)
				}
			} else {
				m.Set(fd, Scalar(t, fd, fl, o))
			}
			continue
		}
		switch {
		case fd.IsMap():
			n := rapid.IntRange(0, o.elems()).Draw(t, fl+"#len")
			if fd.MapValue().Kind() == protoreflect.MessageKind && depth >= o.depth() {
				n = 0
			}
			mp := m.Mutable(fd).Map()
			for j := 0; j < n; j++ {
				k := Scalar(t, fd.MapKey(), fl+"#key", o).MapKey()
				if fd.MapValue().Kind() == protoreflect.MessageKind {
					v := mp.NewValue()
					fill(t, v.Message(), fl+"#val", o, depth+1)
					mp.Set(k, v)
				} else {
					mp.Set(k, Scalar(t, fd.MapValue(), fl+"#val", o))
				}
			}
			if mp.Len() == 0 {
				m.Clear(fd)
			}
		case fd.IsList():
			n := rapid.IntRange(0, o.elems()).Draw(t, fl+"#len")
			if fd.Kind() == protoreflect.MessageKind && depth >= o.depth() {
				n = 0
			}
			l := m.Mutable(fd).List()
			for j := 0; j < n; j++ {
				if fd.Kind() == protoreflect.MessageKind {
					v := l.NewElement()
					fill(t, v.Message(), fl+"#el", o, depth+1)
					l.Append(v)
				} else {
					l.Append(Scalar(t, fd, fl+"#el", o))
				}
			}
			if l.Len() == 0 {
				m.Clear(fd)
			}
		case fd.Kind() == protoreflect.MessageKind:
			// nil / empty / populated
			switch rapid.IntRange(0, 3).Draw(t, fl+"#presence") {
			case 0:
				// nil
			case 1:
				if fd.Message().FullName() == "google.protobuf.Timestamp" {
					fillTimestamp(t, m.Mutable(fd).Message(), fl)
				} else {
					m.Mutable(fd) // empty, non-nil
				}
			default:
				child := m.Mutable(fd).Message()
				if depth < o.depth() {
					fill(t, child, fl, o, depth+1)
				}
			}
		case fd.HasPresence():
			// proto3 optional scalar: unset / zero / value
			switch rapid.IntRange(0, 3).Draw(t, fl+"#presence") {
			case 0:
			case 1:
				m.Set(fd, fd.Default())
				if fd.Kind() == protoreflect.BytesKind {
					m.Set(fd, protoreflect.ValueOfBytes([]byte{}))
				}
			default:
				m.Set(fd, Scalar(t, fd, fl, o))
			}
		default:
			if rapid.IntRange(0, 4).Draw(t, fl+"#zero") != 0 {
				m.Set(fd, Scalar(t, fd, fl, o))
			}
		}
	}
}

// Package core holds what every check shares: run context, evidence, violation
// reporting, known findings.
package core

import (
	"crypto/sha256"
	"encoding/hex"
	"encoding/json"
	"fmt"
	"os"
	"path/filepath"
	"sort"
	"strconv"
	"strings"
	"sync"
	"time"

	"verif/harness/plugin"
)

// Exit codes.
const (
	ExitOK        = 0
	ExitViolation = 1
	ExitInfra     = 2
)

// Root is /verif.
func Root() string {
	if d := os.Getenv("VERIF_ROOT"); d != "" {
		return d
	}
	// bin/verif lives in <root>/bin: a snapshot of /verif therefore works on its own files
	if exe, err := os.Executable(); err == nil {
		r := filepath.Dir(filepath.Dir(exe))
		if _, err := os.Stat(filepath.Join(r, "harness", "go.mod")); err == nil {
			return r
		}
	}
	return "/verif"
}

// Ctx is the context of one check run.
type Ctx struct {
	Prop    string
	Tier    string // quick | thorough
	Seed    uint64 // never 0
	RawSeed int64
	Scratch string
	Start   time.Time
	Plugins *plugin.Set
	ToolDir string
	Ev      *Evidence
	KF      *KnownFindings

	mu         sync.Mutex
	violations []string
	knownSeen  map[string]bool
	Replay     string // replay file path when run with --replay
}

// NewCtx prepares a run: scratch dir, plugin build from the working tree.
func NewCtx(prop, tier string) (*Ctx, error) {
	raw := int64(1)
	if s := os.Getenv("VERIF_SEED"); s != "" {
		v, err := strconv.ParseInt(s, 10, 64)
		if err != nil {
			return nil, fmt.Errorf("bad VERIF_SEED %q", s)
		}
		raw = v
	}
	seed := uint64(raw)*2654435761 + 0x9e3779b97f4a7c15
	if seed == 0 {
		seed = 1
	}
	tmp := os.Getenv("TMPDIR")
	if tmp == "" {
		tmp = "/tmp"
	}
	scratch, err := os.MkdirTemp(tmp, "verif-"+prop+"-")
	if err != nil {
		return nil, err
	}
	c := &Ctx{Prop: prop, Tier: tier, Seed: seed, RawSeed: raw, Scratch: scratch, Start: time.Now(), knownSeen: map[string]bool{}}
	c.Ev = newEvidence(prop, tier, raw)
	kf, err := LoadKnownFindings()
	if err != nil {
		return nil, err
	}
	kf.Prop = prop
	c.KF = kf
	set, err := plugin.Build(filepath.Join(scratch, "bin"))
	// generated code is compiled against a throw-away clone of the build cache (see plugin.GeneratedCache)
	plugin.GeneratedCache = plugin.CloneSharedCache(filepath.Join(scratch, "gocache"))
	if err != nil {
		return nil, err
	}
	c.Plugins = set
	c.ToolDir = filepath.Join(Root(), "bin")
	if _, err := os.Stat(filepath.Join(c.ToolDir, plugin.ProtoGo)); err != nil {
		c.ToolDir = filepath.Join(scratch, "bin")
		if err := plugin.BuildProtocGenGo(filepath.Join(Root(), "harness"), c.ToolDir); err != nil {
			return nil, err
		}
	}
	return c, nil
}

// Close removes the scratch directory.
func (c *Ctx) Close() { _ = os.RemoveAll(c.Scratch) }

// SubSeed derives a deterministic non-zero seed for a sub-task.
func (c *Ctx) SubSeed(n int) int {
	v := c.Seed + uint64(n)*0x9e3779b97f4a7c15
	v ^= v >> 31
	r := int(v & 0x7fffffffffff)
	if r == 0 {
		r = 1
	}
	return r
}

// Quick reports whether this is the quick tier.
func (c *Ctx) Quick() bool { return c.Tier != "thorough" }

// Pick returns q in the quick tier and t in the thorough tier.
func (c *Ctx) Pick(q, t int) int {
	if c.Quick() {
		return q
	}
	return t
}

// Violation records a violation with a replay document and prints the VIOLATION line.
func (c *Ctx) Violation(name string, replay any, summary string) {
	c.mu.Lock()
	defer c.mu.Unlock()
	dir := filepath.Join(Root(), "out", c.Prop)
	_ = os.MkdirAll(dir, 0o755)
	b, _ := json.MarshalIndent(replay, "", " ")
	h := sha256.Sum256(b)
	path := filepath.Join(dir, sanitize(name)+"-"+hex.EncodeToString(h[:4])+".json")
	_ = os.WriteFile(path, b, 0o644)
	c.violations = append(c.violations, path)
	fmt.Printf("VIOLATION property=%s replay=%s\n", c.Prop, path)
	fmt.Printf("  %s\n", strings.ReplaceAll(trunc(summary, 1500), "\n", "\n  "))
}

// Known prints a KNOWN-FINDING line once per finding id.
func (c *Ctx) Known(f *Finding) {
	c.mu.Lock()
	defer c.mu.Unlock()
	if c.knownSeen[f.ID] {
		return
	}
	c.knownSeen[f.ID] = true
	fmt.Printf("KNOWN-FINDING: property=%s %s [%s]\n", c.Prop, f.What, f.ID)
}

// Violations returns the number of violations recorded.
func (c *Ctx) Violations() int {
	c.mu.Lock()
	defer c.mu.Unlock()
	return len(c.violations)
}

// Finish writes the evidence file and returns the exit code.
func (c *Ctx) Finish() int {
	c.Ev.WallS = time.Since(c.Start).Seconds()
	c.Ev.Violations = c.Violations()
	if err := c.Ev.Write(); err != nil {
		fmt.Fprintln(os.Stderr, "cannot write evidence:", err)
		return ExitInfra
	}
	fmt.Printf("%s %s seed=%d: evaluations=%d distinct_nontrivial=%d violations=%d wall=%.1fs\n",
		c.Prop, c.Tier, c.RawSeed, c.Ev.Coverage.Evaluations, len(c.Ev.nontrivial), c.Ev.Violations, c.Ev.WallS)
	if c.Ev.Violations > 0 {
		return ExitViolation
	}
	return ExitOK
}

func sanitize(s string) string {
	var b strings.Builder
	for _, r := range s {
		if (r >= 'a' && r <= 'z') || (r >= 'A' && r <= 'Z') || (r >= '0' && r <= '9') || r == '-' || r == '_' {
			b.WriteRune(r)
		} else {
			b.WriteByte('_')
		}
	}
	if b.Len() > 60 {
		return b.String()[:60]
	}
	return b.String()
}

func trunc(s string, n int) string {
	if len(s) > n {
		return s[:n] + "…"
	}
	return s
}

// ---- evidence -------------------------------------------------------------------------------

// Evidence is the evidence file content.
type Evidence struct {
	PropertyID  string   `json:"property_id"`
	Tier        string   `json:"tier"`
	Seed        int64    `json:"seed"`
	Level       string   `json:"level"`
	Coverage    Coverage `json:"coverage"`
	Assumptions []string `json:"assumptions,omitempty"`
	WallS       float64  `json:"wall_s"`
	Violations  int      `json:"violations"`

	mu         sync.Mutex
	nontrivial map[string]bool
}

// Coverage is the coverage section.
type Coverage struct {
	Evaluations        int            `json:"evaluations"`
	DistinctNontrivial int            `json:"distinct_nontrivial"`
	Rule               string         `json:"rule"`
	Samples            []any          `json:"samples"`
	Classes            map[string]int `json:"classes,omitempty"`
	Excluded           map[string]int `json:"excluded_by_known_finding,omitempty"`
	Unspecified        int            `json:"unspecified_skipped,omitempty"`
	Schemas            int            `json:"schemas,omitempty"`
	KnownFindings      []string       `json:"known_findings_reproduced,omitempty"`
	Notes              []string       `json:"notes,omitempty"`
}

func newEvidence(prop, tier string, seed int64) *Evidence {
	return &Evidence{PropertyID: prop, Tier: tier, Seed: seed, Level: "exploration",
		Coverage: Coverage{Classes: map[string]int{}, Excluded: map[string]int{}, Samples: []any{}}, nontrivial: map[string]bool{}}
}

// Eval counts n evaluated cases.
func (e *Evidence) Eval(n int) {
	e.mu.Lock()
	e.Coverage.Evaluations += n
	e.mu.Unlock()
}

// Nontrivial records a non-trivial case by its canonical key (distinct keys are counted).
func (e *Evidence) Nontrivial(key string) {
	h := sha256.Sum256([]byte(key))
	e.mu.Lock()
	e.nontrivial[string(h[:12])] = true
	e.mu.Unlock()
}

// NontrivialHashes merges pre-hashed keys (from inner reports).
func (e *Evidence) NontrivialHashes(keys []string) {
	e.mu.Lock()
	for _, k := range keys {
		e.nontrivial[k] = true
	}
	e.mu.Unlock()
}

// Class increments a class counter.
func (e *Evidence) Class(name string, n int) {
	e.mu.Lock()
	e.Coverage.Classes[name] += n
	e.mu.Unlock()
}

// Excluded counts a case skipped because of a known finding.
func (e *Evidence) ExcludedBy(id string, n int) {
	e.mu.Lock()
	e.Coverage.Excluded[id] += n
	e.mu.Unlock()
}

// Sample keeps up to max samples.
func (e *Evidence) Sample(v any, max int) {
	e.mu.Lock()
	if len(e.Coverage.Samples) < max {
		e.Coverage.Samples = append(e.Coverage.Samples, v)
	}
	e.mu.Unlock()
}

// Note appends a note.
func (e *Evidence) Note(s string) {
	e.mu.Lock()
	e.Coverage.Notes = append(e.Coverage.Notes, s)
	e.mu.Unlock()
}

// Write writes /verif/evidence/<id>.json.
func (e *Evidence) Write() error {
	e.mu.Lock()
	defer e.mu.Unlock()
	e.Coverage.DistinctNontrivial = len(e.nontrivial)
	dir := filepath.Join(Root(), "evidence")
	if err := os.MkdirAll(dir, 0o755); err != nil {
		return err
	}
	// keep class map readable: sorted by key is automatic in encoding/json
	b, err := json.MarshalIndent(e, "", " ")
	if err != nil {
		return err
	}
	return os.WriteFile(filepath.Join(dir, e.PropertyID+".json"), b, 0o644)
}

// ---- known findings -------------------------------------------------------------------------

// Finding is one line of known_findings.jsonl.
type Finding struct {
	ID       string   `json:"id"`
	Property string   `json:"property"`
	Status   string   `json:"status"` // open | fixed
	What     string   `json:"what"`
	Avoid    []string `json:"avoid,omitempty"`  // generator avoidance switches this finding turns on while open
	Replay   string   `json:"replay,omitempty"` // pinned replay file, relative to /verif
	Commit   string   `json:"commit,omitempty"` // fix commit for status=fixed
	Line     string   `json:"line,omitempty"`   // the "fixed: property=.. <commit> <what>" rendering
	// Scope limits the avoidance switches to the named properties' checks (empty = every check): a
	// construct that only one artefact handles wrongly must stay in the input domain of the others.
	Scope []string `json:"scope,omitempty"`
}

// KnownFindings is the parsed file.
type KnownFindings struct {
	All  []*Finding
	Prop string // property of the running check (for Scope)
}

// LoadKnownFindings reads /verif/known_findings.jsonl (missing file = none).
func LoadKnownFindings() (*KnownFindings, error) {
	kf := &KnownFindings{}
	b, err := os.ReadFile(filepath.Join(Root(), "known_findings.jsonl"))
	if err != nil {
		if os.IsNotExist(err) {
			return kf, nil
		}
		return nil, err
	}
	for i, line := range strings.Split(string(b), "\n") {
		line = strings.TrimSpace(line)
		if line == "" || strings.HasPrefix(line, "#") {
			continue
		}
		var f Finding
		if err := json.Unmarshal([]byte(line), &f); err != nil {
			return nil, fmt.Errorf("known_findings.jsonl line %d: %v", i+1, err)
		}
		kf.All = append(kf.All, &f)
	}
	return kf, nil
}

// Avoid returns the set of generator avoidance switches turned on by open findings.
// Every open finding contributes, whatever property it is filed under, because the
// same broken construct would otherwise stop unrelated checks too.
func (k *KnownFindings) Avoid() map[string]string {
	out := map[string]string{}
	for _, f := range k.All {
		if f.Status != "open" {
			continue
		}
		inScope := true
		if len(f.Scope) > 0 && k.Prop != "" {
			inScope = false
			for _, p := range f.Scope {
				if p == k.Prop {
					inScope = true
				}
			}
		}
		for _, a := range f.Avoid {
			// "switch@C05,C06" limits one switch to the named properties' checks (overrides Scope)
			if i := strings.IndexByte(a, '@'); i >= 0 {
				in := k.Prop == ""
				for _, p := range strings.Split(a[i+1:], ",") {
					in = in || p == k.Prop
				}
				if !in {
					continue
				}
				a = a[:i]
			} else if !inScope {
				continue
			}
			if _, ok := out[a]; !ok {
				out[a] = f.ID
			}
		}
	}
	return out
}

// Open returns the open findings of a property.
func (k *KnownFindings) Open(prop string) []*Finding {
	var out []*Finding
	for _, f := range k.All {
		if f.Status == "open" && f.Property == prop {
			out = append(out, f)
		}
	}
	sort.Slice(out, func(i, j int) bool { return out[i].ID < out[j].ID })
	return out
}

// ForProperty returns all findings (open and fixed) of a property that have a pinned replay.
func (k *KnownFindings) ForProperty(prop string) []*Finding {
	var out []*Finding
	for _, f := range k.All {
		if f.Property == prop && f.Replay != "" {
			out = append(out, f)
		}
	}
	sort.Slice(out, func(i, j int) bool { return out[i].ID < out[j].ID })
	return out
}

package schema

import (
	"encoding/json"
	"strings"
)

// Clone deep-copies a schema.
func (s *Schema) Clone() *Schema {
	b, _ := json.Marshal(s)
	var c Schema
	_ = json.Unmarshal(b, &c)
	return &c
}

// Reduce greedily shrinks s while fails(candidate) stays true. Candidates that are not
// well-formed (Gate fails) are skipped by the caller's predicate returning false. budget bounds
// the number of predicate evaluations.
func Reduce(s *Schema, budget int, fails func(*Schema) bool) *Schema {
	cur := s.Clone()
	evals := 0
	try := func(c *Schema) bool {
		if evals >= budget {
			return false
		}
		evals++
		req, err := Request("", c)
		if err != nil {
			return false
		}
		if _, err := Gate(req); err != nil {
			return false
		}
		return fails(c)
	}
	for progress := true; progress && evals < budget; {
		progress = false
		for _, cand := range candidates(cur) {
			if evals >= budget {
				break
			}
			if try(cand) {
				cur = cand
				progress = true
				break
			}
		}
	}
	cur.Tags = append(cur.Tags, "reduced")
	return cur
}

// candidates returns simpler variants of s, most aggressive first.
func candidates(s *Schema) []*Schema {
	var out []*Schema
	add := func(mut func(c *Schema) bool) {
		c := s.Clone()
		if mut(c) {
			out = append(out, c)
		}
	}
	// drop extra files
	for i := len(s.Files) - 1; i >= 1; i-- {
		i := i
		add(func(c *Schema) bool { c.Files = append(c.Files[:i], c.Files[i+1:]...); return true })
	}
	for fi, f := range s.Files {
		fi := fi
		// drop services
		for si := range f.Services {
			si := si
			add(func(c *Schema) bool {
				fs := c.Files[fi]
				fs.Services = append(fs.Services[:si], fs.Services[si+1:]...)
				return true
			})
		}
		// drop methods
		for si, sv := range f.Services {
			for mi := range sv.Methods {
				si, mi := si, mi
				add(func(c *Schema) bool {
					sv := c.Files[fi].Services[si]
					sv.Methods = append(sv.Methods[:mi], sv.Methods[mi+1:]...)
					return true
				})
			}
		}
		// drop messages (only unreferenced ones stay valid; the gate rejects the rest)
		for mi := range f.Messages {
			mi := mi
			add(func(c *Schema) bool {
				fs := c.Files[fi]
				fs.Messages = append(fs.Messages[:mi], fs.Messages[mi+1:]...)
				return true
			})
		}
		for ei := range f.Enums {
			ei := ei
			add(func(c *Schema) bool {
				fs := c.Files[fi]
				fs.Enums = append(fs.Enums[:ei], fs.Enums[ei+1:]...)
				return true
			})
		}
	}
	// service/method annotations
	for fi, f := range s.Files {
		for si, sv := range f.Services {
			fi, si := fi, si
			if len(sv.Headers) > 0 {
				add(func(c *Schema) bool { c.Files[fi].Services[si].Headers = nil; return true })
			}
			if sv.BasePath != "" {
				add(func(c *Schema) bool { c.Files[fi].Services[si].BasePath = ""; return true })
			}
			for mi, m := range sv.Methods {
				mi := mi
				if len(m.Headers) > 0 {
					add(func(c *Schema) bool { c.Files[fi].Services[si].Methods[mi].Headers = nil; return true })
				}
			}
		}
	}
	// fields
	var walk func(path []int, ms []*Message, fi int)
	walk = func(path []int, ms []*Message, fi int) {
		for mi, m := range ms {
			p := append(append([]int{}, path...), mi)
			for fli, fl := range m.Fields {
				fli := fli
				if !pathBound(s, fl.Name) {
					add(func(c *Schema) bool {
						mm := msgAt(c.Files[fi].Messages, p)
						mm.Fields = append(mm.Fields[:fli], mm.Fields[fli+1:]...)
						// drop oneofs that lost all members
						var keep []*Oneof
						for _, o := range mm.Oneofs {
							used := false
							for _, f := range mm.Fields {
								if f.Oneof == o.Name {
									used = true
								}
							}
							if used {
								keep = append(keep, o)
							}
						}
						mm.Oneofs = keep
						return true
					})
				}
				if fl.Ann != nil {
					add(func(c *Schema) bool {
						f := msgAt(c.Files[fi].Messages, p).Fields[fli]
						q := f.Ann.Query
						f.Ann = nil
						if q != nil {
							f.Ann = &Ann{Query: q}
						}
						return true
					})
				}
				if fl.Rules != nil {
					add(func(c *Schema) bool { msgAt(c.Files[fi].Messages, p).Fields[fli].Rules = nil; return true })
				}
				if fl.Card != Singular && fl.Oneof == "" {
					add(func(c *Schema) bool {
						f := msgAt(c.Files[fi].Messages, p).Fields[fli]
						f.Card, f.MapKey = Singular, ""
						return true
					})
				}
				if fl.Kind != KString && fl.Kind != KMessage {
					add(func(c *Schema) bool {
						f := msgAt(c.Files[fi].Messages, p).Fields[fli]
						f.Kind, f.TypeRef = KString, ""
						return true
					})
				}
			}
			for ni := range m.Nested {
				ni := ni
				add(func(c *Schema) bool {
					mm := msgAt(c.Files[fi].Messages, p)
					mm.Nested = append(mm.Nested[:ni], mm.Nested[ni+1:]...)
					return true
				})
			}
			walk(p, m.Nested, fi)
		}
	}
	for fi, f := range s.Files {
		walk(nil, f.Messages, fi)
	}
	return out
}

func msgAt(ms []*Message, path []int) *Message {
	m := ms[path[0]]
	for _, i := range path[1:] {
		m = m.Nested[i]
	}
	return m
}

// pathBound reports whether some method path template mentions {name}.
func pathBound(s *Schema, name string) bool {
	for _, f := range s.Files {
		for _, sv := range f.Services {
			for _, m := range sv.Methods {
				if strings.Contains(m.Path, "{"+name+"}") {
					return true
				}
			}
		}
	}
	return false
}

package schema

// Profiles used by the checks. avoid carries the generator switches turned on by open
// known findings.

// ProfileFull enables everything the plugins document as accepted; used by the
// plugin-level checks (C12 converse, C14, C15, C18).
func ProfileFull(avoid map[string]string) *Profile {
	return &Profile{Name: "full", MaxDataMessages: 3, MaxFields: 5, Nested: true, Recursive: true, Maps: true, Oneofs: true,
		Optionals: true, Repeateds: true, Enums: true, Timestamps: true, MessageFields: true, SecondFile: true, ServiceFiles: true,
		MaxServices: 2, MaxMethods: 3, Transport: true, BasePaths: true, OddBasePaths: true, DefaultPaths: true, Headers: true,
		RepeatedQuery: true, QueryOnBody: true, SharedRequest: true,
		Stratified: true, Features: Features(AllFeatures...), MultiFeature: true, AnnotatedNested: true, AnnotateAnyCard: true, MultiWordChild: true,
		Rules: true, Examples: true, HostileText: true, LowerCaseTypes: true, TrailingSlash: true, ModelsLayout: true, Avoid: avoid}
}

// ProfilePlain has no JSON-mapping annotations: plain proto3 JSON everywhere.
func ProfilePlain(avoid map[string]string) *Profile {
	return &Profile{Name: "plain", MaxDataMessages: 3, MaxFields: 5, Nested: true, Recursive: true, Maps: true, Oneofs: true,
		Optionals: true, Repeateds: true, Enums: true, Timestamps: true, MessageFields: true,
		MaxServices: 2, MaxMethods: 3, Transport: true, BasePaths: true, Headers: false, QueryOnBody: true, Avoid: avoid}
}

// ProfileCodec exercises the JSON codecs: all annotations, one MarshalJSON feature per
// message (the documented limit), annotated types nested in others, all cardinalities.
func ProfileCodec(avoid map[string]string) *Profile {
	return &Profile{Name: "codec", MaxDataMessages: 3, MaxFields: 4, Nested: true, Maps: true, Oneofs: true,
		Optionals: true, Repeateds: true, Enums: true, Timestamps: true, MessageFields: true,
		MaxServices: 1, MaxMethods: 5, Transport: true, BasePaths: true, QueryOnBody: false,
		Stratified: true, Features: Features(AllFeatures...), MultiFeature: false, AnnotatedNested: true, AnnotateAnyCard: true, MultiWordChild: true,
		CompanionPackage: true, LowerCaseTypes: true, ModelsLayout: true, Avoid: avoid}
}

// ProfileMatrix is the compile matrix: every annotation on every cardinality it is accepted
// on, several features per message, hostile identifiers, second files, examples.
func ProfileMatrix(avoid map[string]string) *Profile {
	p := ProfileFull(avoid)
	p.Name = "matrix"
	p.TwinHeaders = true
	p.CompanionPackage = true
	p.ForeignBodies = true
	p.HostileNames = true
	p.Recursive = false
	return p
}

// ProfileMinimal draws files with a single construct: one service, one RPC, at most a couple of fields.
// Emitted code that is only correct when some other construct happens to pull in an import, a helper or a
// declaration shows up on such files and is masked on rich ones.
func ProfileMinimal(avoid map[string]string) *Profile {
	p := ProfileFull(avoid)
	p.Name = "minimal"
	p.CompanionPackage = true
	p.ForeignBodies = true
	p.MaxDataMessages, p.MaxFields = 0, 2
	p.MaxServices, p.MaxMethods = 1, 1
	p.SecondFile, p.Recursive, p.MultiFeature, p.SharedRequest = false, false, false, false
	p.Rules, p.Examples = false, false
	return p
}

// ProfileTransport stresses URL/verb/body transport between generated clients and servers.
func ProfileTransport(avoid map[string]string) *Profile {
	return &Profile{Name: "transport", MaxDataMessages: 2, MaxFields: 4, Nested: true, Maps: true, Oneofs: true,
		Optionals: true, Repeateds: true, Enums: true, Timestamps: true, MessageFields: true,
		MaxServices: 2, MaxMethods: 3, Transport: true, BasePaths: true, OddBasePaths: true, DefaultPaths: true, QueryOnBody: true,
		RepeatedQuery: true,
		Stratified:    true, Features: Features("int64", "nullable", "bytes", "timestamp", "empty", "enum_number", "oneof_disc", "unwrap_root_list", "unwrap_root_map"),
		AnnotateAnyCard: true, TrailingSlash: true, Avoid: avoid}
}

// ProfileServerTransport is ProfileTransport for checks that drive the Go server with raw HTTP
// (no generated client in the package).
func ProfileServerTransport(avoid map[string]string) *Profile {
	p := ProfileTransport(avoid)
	p.Name = "server-transport"
	p.NoClient = true
	p.DefaultPaths = false
	return p
}

// ProfileHeaders declares service- and method-level headers of every type/format on simple RPCs.
func ProfileHeaders(avoid map[string]string) *Profile {
	return &Profile{Name: "headers", MaxDataMessages: 1, MaxFields: 3, Optionals: true, Repeateds: true, Enums: true, MessageFields: true,
		MaxServices: 2, MaxMethods: 3, Transport: true, BasePaths: true, Headers: true, HeaderHeavy: true, NoClient: true, Avoid: avoid}
}

// ProfileErrors: rules (top-level and nested), headers, custom *Error messages.
func ProfileErrors(avoid map[string]string) *Profile {
	return &Profile{Name: "errors", MaxDataMessages: 2, MaxFields: 4, Maps: true, Optionals: true, Repeateds: true, Enums: true, MessageFields: true,
		MaxServices: 1, MaxMethods: 3, Transport: true, BasePaths: true, Headers: true, Rules: true, MessageRules: true, ErrorMessages: true, Avoid: avoid}
}

// ProfileConcurrency: several services and methods with distinct header requirements.
func ProfileConcurrency(avoid map[string]string) *Profile {
	return &Profile{Name: "concurrency", MaxDataMessages: 2, MaxFields: 3, Maps: true, Optionals: true, Repeateds: true, Enums: true, MessageFields: true,
		MaxServices: 3, MaxMethods: 4, Transport: true, BasePaths: true, Headers: true, HeaderHeavy: true, Rules: false,
		Features: Features("int64", "nullable", "bytes"), Avoid: avoid}
}

// ProfileMock: plain schemas with examples, used with generate_mock=true.
func ProfileMock(avoid map[string]string) *Profile {
	return &Profile{Name: "mock", MaxDataMessages: 2, MaxFields: 4, Maps: true, Optionals: true, Repeateds: true, Enums: true, MessageFields: true, Timestamps: true,
		MaxServices: 2, MaxMethods: 2, Transport: true, BasePaths: true, Headers: true, Examples: true, NoClient: true, MockShape: true, CompanionPackage: true, LowerCaseTypes: true, Avoid: avoid}
}

// ProfileOpenAPI: everything that shapes OpenAPI documents.
func ProfileOpenAPI(avoid map[string]string) *Profile {
	p := ProfileFull(avoid)
	p.Name = "openapi"
	p.FreePaths = true
	p.MultiFeature = false
	p.DupShortNames = true
	p.HostileNames = false
	return p
}

// ProfileContract: what the published contract (OpenAPI / TypeScript types) must describe.
func ProfileContract(avoid map[string]string) *Profile {
	return &Profile{Name: "contract", MaxDataMessages: 3, MaxFields: 4, Nested: true, Maps: true, Oneofs: true,
		Optionals: true, Repeateds: true, Enums: true, Timestamps: true, MessageFields: true,
		MaxServices: 2, MaxMethods: 3, Transport: true, BasePaths: true, Headers: true, QueryOnBody: true,
		Stratified: true, Features: Features(AllFeatures...), AnnotatedNested: true, AnnotateAnyCard: true, MultiWordChild: true, ContractStrict: true, WrapperSiblings: true, ModelsLayout: true, Avoid: avoid}
}

// ProfileContractRules is ProfileContract with buf.validate rules on request messages (field- and
// message-level): the 400 a refused request gets is a published response like any other.
func ProfileContractRules(avoid map[string]string) *Profile {
	p := ProfileContract(avoid)
	p.Name = "contract-rules"
	p.Rules, p.MessageRules = true, true
	return p
}

// ProfileInterop: cross-language calls (TypeScript <-> Go).
func ProfileInterop(avoid map[string]string) *Profile {
	return &Profile{Name: "interop", MaxDataMessages: 2, MaxFields: 4, Nested: true, Maps: true, Oneofs: true,
		Optionals: true, Repeateds: true, Enums: true, Timestamps: true, MessageFields: true,
		MaxServices: 2, MaxMethods: 3, Transport: true, BasePaths: true, Headers: true, QueryOnBody: false,
		Stratified: true, Features: Features("int64", "nullable", "bytes", "timestamp", "empty", "oneof_disc", "unwrap_root_list", "unwrap_root_map", "unwrap_map_value"),
		AnnotateAnyCard: true, ContractStrict: false, TSServer: true, TrailingSlash: true, Avoid: avoid}
}

// ProfileRoutes: verb / path / placement shapes for the agreement check (C03).
func ProfileRoutes(avoid map[string]string) *Profile {
	return &Profile{Name: "routes", MaxDataMessages: 1, MaxFields: 3, Optionals: true, Repeateds: true, Enums: true, MessageFields: true,
		MaxServices: 3, MaxMethods: 4, Transport: true, BasePaths: true, OddBasePaths: true, DefaultPaths: true, QueryOnBody: true, Headers: true,
		TSServer: true, TrailingSlash: true, Avoid: avoid}
}

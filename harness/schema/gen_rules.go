package schema

import (
	"fmt"
	"math"
	"strconv"

	"pgregory.net/rapid"
)

// GenerateRules draws a schema whose single POST request message carries buf.validate rules of
// every supported kind on fields of every kind (property C19).
func GenerateRules(t *rapid.T, id string, avoid map[string]string) *Schema {
	g := &gen{t: t, p: &Profile{Name: "rules", Avoid: avoid}, tag: map[string]bool{}}
	pkg := id + ".rules.v1"
	s := &Schema{ID: id, Pkg: pkg, GoPkg: id + "rules", GoPath: "verif.test/gen/" + id, Profile: "rules"}
	g.s = s
	req := &Message{Name: "CheckRequest"}
	resp := &Message{Name: "CheckResponse", Fields: []*Field{{Name: "ok", Number: 1, Kind: KBool, Card: Singular}}}
	n := g.intn(2, 7, "nfields")
	for i := 0; i < n; i++ {
		f := &Field{Name: fmt.Sprintf("f%d_%s", i, pick(g, []string{"value", "user_id", "count", "label"}, "fname")), Number: int32(i + 1), Card: Singular}
		switch g.intn(0, 9, "shape") {
		case 0, 1, 2:
			f.Kind = KString
			g.stringRules(f)
		case 3, 4, 5, 6:
			kinds := []Kind{KInt32, KInt64, KUint32, KUint64, KSint32, KSint64, KFixed32, KFixed64, KSfixed32, KSfixed64, KFloat, KDouble}
			f.Kind = pick(g, kinds, "numkind")
			if !f.Kind.IsFloat() && f.Kind != KInt32 && f.Kind != KInt64 && g.avoid("rules_dropped_for_other_int_kinds") {
				f.Kind = pick(g, []Kind{KInt32, KInt64}, "numkind2")
			}
			if f.Kind.Is64() && g.avoid("rules_on_string_typed_int64") {
				f.EnsureAnn().Int64Encoding = 2
			} else if f.Kind.Is64() && g.bool("i64number") {
				f.EnsureAnn().Int64Encoding = 2
			}
			g.numericRules(f)
		case 7, 8:
			f.Card = Repeated
			f.Kind = pick(g, []Kind{KString, KInt32, KBool, KDouble}, "repkind")
			r := &Rules{}
			lo := uint64(g.intn(0, 3, "minitems"))
			if g.bool("hasmin") {
				r.MinItems = u64p(lo)
			}
			if g.bool("hasmax") {
				r.MaxItems = u64p(lo + uint64(g.intn(0, 3, "maxd")))
				if *r.MaxItems == 0 && g.avoid("rules_zero_upper_bound") {
					r.MaxItems = u64p(1)
				}
			}
			r.Unique = g.oneIn(3, "unique") && f.Kind != KDouble
			if r.MinItems == nil && r.MaxItems == nil && !r.Unique {
				r.MinItems = u64p(1)
			}
			if !r.Unique && g.oneIn(3, "uniquefalse") {
				// the rule written out with its default value: set, but not a constraint
				r.UniqueFalse = true
				g.tagf("rule:repeated:unique_false")
			}
			f.Rules = r
			g.tagf("rule:repeated")
		default:
			f.Card, f.MapKey = Map, KString
			f.Kind = pick(g, []Kind{KString, KInt32}, "mapkind")
			r := &Rules{}
			lo := uint64(g.intn(0, 2, "minpairs"))
			r.MinPairs = u64p(lo)
			if g.bool("hasmaxpairs") {
				r.MaxPairs = u64p(lo + uint64(g.intn(0, 2, "maxpd")))
				if *r.MaxPairs == 0 && g.avoid("rules_zero_upper_bound") {
					r.MaxPairs = u64p(1)
				}
			}
			f.Rules = r
			g.tagf("rule:map")
		}
		if f.Card == Singular && f.Kind != KMessage && g.oneIn(4, "optionalfield") {
			// proto3 optional: the same rules, explicit presence (a synthetic oneof in the descriptor)
			f.Card = Optional
			g.tagf("rule:on_optional_field")
		}
		if f.Rules != nil && (f.Card == Singular || f.Card == Optional) && g.oneIn(4, "required") {
			f.Rules.Required = true
			g.tagf("rule:required")
		}
		req.Fields = append(req.Fields, f)
	}
	if g.oneIn(3, "disc_oneof") {
		// a discriminated oneof (not flattened) next to the ruled fields: the message schema is then assembled by
		// another builder, which must publish the same constraints and required list
		req.Oneofs = []*Oneof{{Name: "content", Discriminator: "kind"}}
		nt := &Field{Name: "note_text", Number: 90, Kind: KString, Card: Singular, Oneof: "content"}
		nc := &Field{Name: "note_code", Number: 91, Kind: KInt32, Card: Singular, Oneof: "content"}
		// rules on the members themselves: they are published inside the variant branches
		if g.bool("member_text_rule") {
			g.stringRules(nt)
			g.tagf("rule:on_oneof_member")
		}
		if g.bool("member_code_rule") {
			g.numericRules(nc)
			g.tagf("rule:on_oneof_member")
		}
		req.Fields = append(req.Fields, nt, nc)
		g.tagf("shape:discriminated_oneof")
	}
	m := &Method{Name: "Check", Input: pkg + ".CheckRequest", Output: pkg + ".CheckResponse", HasConfig: true, Path: "/check", Verb: 2}
	s.Files = []*File{{Name: id + "/rules.proto", Generate: true, Messages: []*Message{req, resp},
		Services: []*Service{{Name: "RuleService", Methods: []*Method{m}}}}}
	for k := range g.tag {
		s.Tags = append(s.Tags, k)
	}
	sortStrings(s.Tags)
	return s
}

func (g *gen) stringRules(f *Field) {
	r := &Rules{}
	switch g.intn(0, 5, "strrule") {
	case 0:
		lo := uint64(g.intn(0, 4, "minlen"))
		if g.bool("hasminlen") {
			r.MinLen = u64p(lo)
		}
		if g.bool("hasmaxlen") || r.MinLen == nil {
			r.MaxLen = u64p(lo + uint64(g.intn(0, 6, "maxlend")))
			if *r.MaxLen == 0 && g.avoid("rules_zero_upper_bound") {
				r.MaxLen = u64p(1)
			}
		}
		g.tagf("rule:string_len")
	case 1:
		p := pick(g, []string{`^[a-z]+$`, `^\d{3}$`, `^a.c$`, `[0-9]+`, `^(foo|bar)-[A-Z]{2}$`, `^$|^x`}, "pattern")
		r.Pattern = &p
		g.tagf("rule:pattern")
	case 2:
		pool := []string{"active", "inactive", "pending", "a b", "ünï", ""}
		if !g.avoid("rules_untagged_yaml_scalars") {
			pool = append(pool, "123", "true", "null", "1e3", "~", "0x10", "no", "1.5",
				"yes", "on", "Off", "Y", ".inf", ".NaN", "0o14", "1_000", "12:30:45", "2001-12-14", "<<", "=", "- x", "a: b", "#c", "'q'", "\"dq\"",
				" lead", "trail ", "multi\nline", "@at", "`bt`", "!tag", "&anchor", "*alias", "%dir", "[x]", "{y}", "|", ">", "?", "-", "010", "+1", "TRUE", "Null")
		}
		n := g.intn(1, 4, "nin")
		seen := map[string]bool{}
		for i := 0; i < n; i++ {
			v := pick(g, pool, "inval")
			if !seen[v] {
				seen[v] = true
				r.StrIn = append(r.StrIn, v)
			}
		}
		g.tagf("rule:string_in")
	case 3:
		pool := []string{"fixed", "a b", "ünï"}
		if !g.avoid("rules_untagged_yaml_scalars") {
			pool = append(pool, "123", "true", "null", "1e3", "no", "on", ".inf", "0o14", "1_000", "12:30:45", "2001-12-14", "<<", "a: b", "#c", " lead", "multi\nline", "*alias", "010")
		}
		v := pick(g, pool, "constval")
		r.StrConst = &v
		g.tagf("rule:string_const")
	case 4:
		wk := []string{"email", "uuid", "uri", "hostname", "ipv4", "ipv6"}
		if !g.avoid("rules_ip_format_names") {
			wk = append(wk, "ip", "address")
		}
		r.WellKnown = pick(g, wk, "wellknown")
		g.tagf("rule:well_known:%s", r.WellKnown)
	default:
		lo := uint64(g.intn(1, 3, "minlen2"))
		r.MinLen = u64p(lo)
		p := `^[a-z]*$`
		r.Pattern = &p
		g.tagf("rule:string_len+pattern")
	}
	f.Rules = r
}

func kindRange(k Kind) (lo, hi float64, isInt bool) {
	switch k {
	case KInt32, KSint32, KSfixed32:
		return math.MinInt32, math.MaxInt32, true
	case KUint32, KFixed32:
		return 0, math.MaxUint32, true
	case KInt64, KSint64, KSfixed64:
		return math.MinInt64, math.MaxInt64, true
	case KUint64, KFixed64:
		return 0, math.MaxUint64, true
	}
	return -math.MaxFloat64, math.MaxFloat64, false
}

// numericBound draws a bound value as a decimal string valid for the kind.
func (g *gen) numericBound(k Kind, label string) string {
	if k.IsFloat() {
		switch g.intn(0, 3, label+".src") {
		case 0:
			return pick(g, []string{"0", "1.5", "-2.25", "100", "0.1", "1e6", "-1e-3"}, label)
		case 1:
			if k == KDouble {
				// values that need all 17 significant digits, integers beyond 2^24 and 2^53, extreme magnitudes
				return pick(g, []string{"3.141592653589793", "16777217", "-33.856784", "0.30000000000000004", "123456789.125", "9007199254740993",
					"1e300", "-1e300", "5e-324", "1.7976931348623157e+308", "2.2250738585072014e-308"}, label)
			}
			return pick(g, []string{"16777216", "3.4028235e+38", "-3.4028235e+38", "1e-45", "0.33333334", "1.1754944e-38", "8388608.5"}, label)
		default:
			if k == KDouble {
				v := rapid.Float64().Filter(func(f float64) bool { return !math.IsNaN(f) && !math.IsInf(f, 0) }).Draw(g.t, label+".f64")
				return strconv.FormatFloat(v, 'g', -1, 64)
			}
			v := rapid.Float32().Filter(func(f float32) bool { return !math.IsNaN(float64(f)) && !math.IsInf(float64(f), 0) }).Draw(g.t, label+".f32")
			return strconv.FormatFloat(float64(v), 'g', -1, 32)
		}
	}
	var pool []string
	if k.IsUnsigned() {
		pool = []string{"0", "1", "7", "100", "65535"}
		if k.Is64() && !g.avoid("rules_bounds_beyond_2_53") {
			pool = append(pool, "9007199254740993", "18446744073709551615")
		} else if !k.Is64() {
			pool = append(pool, "4294967295")
		}
	} else {
		pool = []string{"0", "1", "-1", "7", "-100", "100", "65535"}
		if k.Is64() && !g.avoid("rules_bounds_beyond_2_53") {
			pool = append(pool, "9007199254740993", "-9007199254740993", "9223372036854775807", "-9223372036854775808")
		} else if !k.Is64() {
			pool = append(pool, "2147483647", "-2147483648")
		}
	}
	return pick(g, pool, label)
}

func (g *gen) numericRules(f *Field) {
	r := &Rules{}
	k := f.Kind
	switch g.intn(0, 4, "numrule") {
	case 0, 1:
		// range: lower and/or upper bound, lower <= upper (the "between" form)
		a, b := g.numericBound(k, "b1"), g.numericBound(k, "b2")
		fa, _ := strconv.ParseFloat(a, 64)
		fb, _ := strconv.ParseFloat(b, 64)
		if fa > fb {
			a, b = b, a
		}
		switch g.intn(0, 2, "which") {
		case 0:
			b = ""
		case 1:
			a = ""
		}
		if a != "" {
			if g.bool("gt") {
				r.Gt = strp(a)
			} else {
				r.Gte = strp(a)
			}
		}
		if b != "" && !(a != "" && a == b && r.Gt != nil) {
			if g.bool("lt") && a != b {
				r.Lt = strp(b)
			} else {
				r.Lte = strp(b)
			}
		}
		g.tagf("rule:numeric_range:%s", k)
	case 2:
		n := g.intn(1, 4, "nin")
		seen := map[string]bool{}
		for i := 0; i < n; i++ {
			v := g.numericBound(k, "inv")
			if !seen[v] {
				seen[v] = true
				r.NumIn = append(r.NumIn, v)
			}
		}
		g.tagf("rule:numeric_in:%s", k)
	case 3:
		r.NumConst = strp(g.numericBound(k, "const"))
		g.tagf("rule:numeric_const:%s", k)
	default:
		r.Gte = strp(g.numericBound(k, "gteonly"))
		g.tagf("rule:numeric_range:%s", k)
	}
	f.Rules = r
}

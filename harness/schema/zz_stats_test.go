package schema

import (
	"encoding/json"
	"fmt"
	"os"
	"sort"
	"testing"

	"pgregory.net/rapid"
)

func TestTagStats(t *testing.T) {
	counts := map[string]int{}
	n := 400
	for i := 0; i < n; i++ {
		g := rapid.Custom(func(t *rapid.T) *Schema { return Generate(t, ProfileFull(loadAvoid()), "a0001") })
		s := g.Example(i + 1)
		both := false
		for _, tg := range s.Tags {
			counts[tg]++
			if tg == "feat:unwrap_combined" {
				both = true
			}
		}
		if len(s.Files) > 1 {
			second := map[string]bool{}
			for _, m := range s.Files[1].Messages {
				for _, f := range m.Fields {
					if f.Ann != nil && f.Ann.Unwrap {
						second[s.Pkg+"."+m.Name] = true
					}
				}
			}
			for _, m := range s.Files[0].Messages {
				if len(m.Fields) == 1 && m.Fields[0].Card == Map && m.Fields[0].Ann != nil && m.Fields[0].Ann.Unwrap && second[m.Fields[0].TypeRef] {
					counts["**root map unwrap of wrapper in second file"]++
				}
			}
		}
		if both && len(s.Files) > 1 {
			for _, m := range s.Files[1].Messages {
				for _, f := range m.Fields {
					if f.Ann != nil && f.Ann.Unwrap {
						counts["**combined wrapper in second file"]++
					}
				}
			}
		}
	}
	var ks []string
	for k := range counts {
		ks = append(ks, k)
	}
	sort.Strings(ks)
	for _, k := range ks {
		if len(k) > 4 && (k[:5] == "feat:" || k[:2] == "**" || k == "second_file") {
			fmt.Printf("%-50s %d/%d\n", k, counts[k], n)
		}
	}
}

func loadAvoid() map[string]string {
	b, _ := os.ReadFile("/tmp/avoid_c15.json")
	m := map[string]string{}
	_ = json.Unmarshal(b, &m)
	return m
}

func TestWrapperStats(t *testing.T) {
	counts := map[string]int{}
	for _, prof := range []func(map[string]string) *Profile{ProfileMatrix, ProfileMinimal} {
		for i := 0; i < 200; i++ {
			id := fmt.Sprintf("m%04d", i)
			g := rapid.Custom(func(t *rapid.T) *Schema { return Generate(t, prof(loadAvoid()), id) })
			s := g.Example(i + 1)
			msgs := s.AllMessages()
			for _, m := range msgs {
				for _, f := range m.Fields {
					if f.Card == Map && f.Kind == KMessage {
						if w := msgs[f.TypeRef]; w != nil && len(w.Fields) == 1 && w.Fields[0].Ann != nil && w.Fields[0].Ann.Unwrap {
							counts["map value wrapper elem "+string(w.Fields[0].Kind)]++
						}
					}
				}
			}
		}
	}
	var ks []string
	for k := range counts {
		ks = append(ks, k)
	}
	sort.Strings(ks)
	for _, k := range ks {
		fmt.Printf("%-50s %d\n", k, counts[k])
	}
}

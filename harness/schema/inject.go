package schema

import (
	"fmt"
	"strings"

	"pgregory.net/rapid"
)

// Injection describes one documented-rule violation injected into a valid schema.
type Injection struct {
	Rule      string   `json:"rule"`
	Placement string   `json:"placement"` // top | nested | second_file | imported
	Offenders []string `json:"offenders"` // names one of which the error message must mention
	Class     string   `json:"class"`     // "json" (JSON-mapping rule), "unwrap", "http" (transport rule)
	Shape     string   `json:"shape,omitempty"`
}

// Rules lists the catalogue of injectable rule violations (property C12).
var RuleCatalogue = []string{
	"unwrap_non_repeated", "unwrap_twice", "unwrap_map_beside_fields",
	"nullable_non_optional", "nullable_message",
	"empty_behavior_scalar", "empty_behavior_repeated", "empty_behavior_map",
	"timestamp_format_wrong_type", "bytes_encoding_wrong_type",
	"flatten_repeated", "flatten_map", "flatten_scalar", "flatten_oneof_member", "flatten_collision", "flatten_with_codec_field",
	"prefix_without_flatten",
	"discriminator_collision", "oneof_flatten_scalar_variant", "oneof_flatten_child_collision",
	"enum_number_with_custom_values",
	"path_var_no_field", "path_var_non_scalar", "path_and_query", "bodiless_unbound",
}

// RuleClass returns which plugins must enforce the rule.
func RuleClass(rule string) string {
	switch {
	case strings.HasPrefix(rule, "unwrap"):
		return "unwrap"
	case strings.HasPrefix(rule, "path_") || rule == "bodiless_unbound":
		return "http"
	}
	return "json"
}

// Placements lists where an offending message can live.
var Placements = []string{"top", "nested", "second_file", "imported"}

// Inject adds one rule violation to s (in place) and returns its description. The schema must
// be a valid one produced by Generate. For transport rules the placement is always "top"
// (they concern an RPC's request message and its method annotation).
// InjectShape selects the field shape (singular, repeated, map, oneof member) for rules that admit several;
// negative = drawn. The caller cycles it so that a cell's few cases cover every shape.
var InjectShape = -1

// InjectAsBody makes the offending message the response (0) or request (1) type of an added RPC; negative = it
// is only referred to by a field of a response message.
var InjectAsBody = -1

func Inject(t *rapid.T, s *Schema, rule, placement string) *Injection {
	inj := &Injection{Rule: rule, Placement: placement, Class: RuleClass(rule)}
	main := s.Files[0]
	if inj.Class == "http" {
		inj.Placement = "top"
		injectHTTP(t, s, inj)
		return inj
	}
	// the offending message
	off := &Message{Name: "Offender"}
	offFQ := ""
	helper := func(name string, fields ...*Field) string { // helper message next to the offender
		m := &Message{Name: name, Fields: fields}
		switch inj.Placement {
		case "second_file":
			s.Files[len(s.Files)-1].Messages = append(s.Files[len(s.Files)-1].Messages, m)
			return s.Pkg + "." + name
		case "imported":
			s.Files[len(s.Files)-1].Messages = append(s.Files[len(s.Files)-1].Messages, m)
			return s.ID + ".ext." + name
		}
		main.Messages = append(main.Messages, m)
		return s.Pkg + "." + name
	}
	switch placement {
	case "top":
		main.Messages = append(main.Messages, off)
		offFQ = s.Pkg + ".Offender"
	case "nested":
		parent := &Message{Name: "OffenderHolder", Nested: []*Message{off}, Fields: []*Field{{Name: "plain", Number: 1, Kind: KString, Card: Singular}}}
		main.Messages = append(main.Messages, parent)
		offFQ = s.Pkg + ".OffenderHolder.Offender"
	case "second_file":
		f := &File{Name: s.ID + "/extra_types.proto", Generate: true, Messages: []*Message{off}}
		s.Files = append(s.Files, f)
		offFQ = s.Pkg + ".Offender"
	case "imported":
		f := &File{Name: s.ID + "/ext/imported.proto", Generate: false, Pkg: s.ID + ".ext", GoPath: s.GoPath + "/ext", GoPkg: "ext", Messages: []*Message{off}}
		s.Files = append(s.Files, f)
		offFQ = s.ID + ".ext.Offender"
	default:
		panic("unknown placement " + placement)
	}
	// make the offender reachable: a response message of some RPC refers to it (this also makes
	// the import real for second_file / imported placements)
	ref := func() {
		for _, m := range main.Messages {
			if strings.HasSuffix(m.Name, "Response") && !isRootUnwrapMsg(m) {
				m.Fields = append(m.Fields, &Field{Name: "offender_ref", Number: 950, Kind: KMessage, TypeRef: offFQ, Card: Singular})
				return
			}
		}
		main.Messages = append(main.Messages, &Message{Name: "OffenderUser", Fields: []*Field{{Name: "offender_ref", Number: 1, Kind: KMessage, TypeRef: offFQ, Card: Singular}}})
	}
	ref()
	if InjectAsBody >= 0 && len(main.Services) > 0 {
		// the offender is itself the response (0) or request (1) type of an RPC
		io := &Message{Name: "OffenderCallIO", Fields: []*Field{{Name: "note", Number: 1, Kind: KString, Card: Singular}}}
		main.Messages = append(main.Messages, io)
		mt := &Method{Name: "OffenderCall", Input: s.Pkg + ".OffenderCallIO", Output: offFQ}
		if InjectAsBody == 1 {
			mt.Input, mt.Output = offFQ, s.Pkg+".OffenderCallIO"
		}
		main.Services[0].Methods = append(main.Services[0].Methods, mt)
		inj.Shape = "as_rpc_body"
	}
	plain := func(n int32) *Field {
		return &Field{Name: fmt.Sprintf("ok_%d", n), Number: n, Kind: KString, Card: Singular}
	}
	if rapid.Bool().Draw(t, "surround_before") {
		off.Fields = append(off.Fields, plain(1))
	}
	bad := &Field{Name: "bad_field", Number: 10, Kind: KString, Card: Singular}
	inj.Offenders = []string{"Offender", "bad_field"}
	// shape varies where the misplaced annotation sits: a plain field, a list, a map, or a member of a
	// real oneof (which has presence but no optional keyword)
	shape := func(label string) {
		sh := ""
		if InjectShape >= 0 {
			sh = []string{"singular", "repeated", "map", "oneof"}[InjectShape%4]
		} else {
			sh = rapid.SampledFrom([]string{"singular", "singular", "repeated", "map", "oneof"}).Draw(t, label)
		}
		inj.Shape = sh
		switch sh {
		case "repeated":
			bad.Card = Repeated
		case "map":
			bad.Card, bad.MapKey = Map, KString
		case "oneof":
			off.Oneofs = append(off.Oneofs, &Oneof{Name: "pick_one"})
			bad.Oneof = "pick_one"
			off.Fields = append(off.Fields, &Field{Name: "other_variant", Number: 11, Kind: KInt32, Card: Singular, Oneof: "pick_one"})
		}
	}
	switch rule {
	case "unwrap_non_repeated":
		if rapid.Bool().Draw(t, "unwrapmsg") {
			bad.Kind, bad.TypeRef = KMessage, helper("UnwrapTarget", plain(1))
		}
		bad.EnsureAnn().Unwrap = true
		off.Fields = append(off.Fields, bad)
	case "unwrap_twice":
		bad.Card = Repeated
		bad.EnsureAnn().Unwrap = true
		second := &Field{Name: "bad_second", Number: 11, Kind: KInt32, Card: Repeated, Ann: &Ann{Unwrap: true}}
		off.Fields = append(off.Fields, bad, second)
		inj.Offenders = append(inj.Offenders, "bad_second")
	case "unwrap_map_beside_fields":
		bad.Card, bad.MapKey = Map, KString
		bad.EnsureAnn().Unwrap = true
		off.Fields = append(off.Fields, bad, plain(12))
	case "nullable_non_optional":
		bad.Kind = pickKind(t, ScalarKinds)
		shape("nullshape")
		bad.EnsureAnn().Nullable = true
		off.Fields = append(off.Fields, bad)
	case "nullable_message":
		bad.Kind, bad.TypeRef, bad.Card = KMessage, helper("NullTarget", plain(1)), Optional
		bad.EnsureAnn().Nullable = true
		off.Fields = append(off.Fields, bad)
	case "empty_behavior_scalar":
		bad.Kind = pickKind(t, ScalarKinds)
		shape("ebshape")
		bad.EnsureAnn().EmptyBehavior = int32(rapid.IntRange(1, 3).Draw(t, "eb"))
		off.Fields = append(off.Fields, bad)
	case "empty_behavior_repeated":
		bad.Kind, bad.TypeRef, bad.Card = KMessage, helper("EmptyTarget", plain(1)), Repeated
		bad.EnsureAnn().EmptyBehavior = int32(rapid.IntRange(1, 3).Draw(t, "eb"))
		off.Fields = append(off.Fields, bad)
	case "empty_behavior_map":
		bad.Kind, bad.TypeRef, bad.Card, bad.MapKey = KMessage, helper("EmptyTarget", plain(1)), Map, KString
		bad.EnsureAnn().EmptyBehavior = int32(rapid.IntRange(1, 3).Draw(t, "eb"))
		off.Fields = append(off.Fields, bad)
	case "timestamp_format_wrong_type":
		if rapid.Bool().Draw(t, "tsmsg") {
			bad.Kind, bad.TypeRef = KMessage, helper("NotATimestamp", plain(1))
		} else {
			bad.Kind = pickKind(t, []Kind{KString, KInt64, KInt32, KDouble})
			shape("tsshape")
		}
		bad.EnsureAnn().TimestampFormat = int32(rapid.IntRange(1, 4).Draw(t, "tsf"))
		off.Fields = append(off.Fields, bad)
	case "bytes_encoding_wrong_type":
		bad.Kind = pickKind(t, []Kind{KString, KInt64, KBool, KTimestamp})
		shape("beshape")
		bad.EnsureAnn().BytesEncoding = int32(rapid.IntRange(1, 5).Draw(t, "be"))
		off.Fields = append(off.Fields, bad)
	case "flatten_repeated":
		bad.Kind, bad.TypeRef, bad.Card = KMessage, helper("FlatTarget", &Field{Name: "ftx", Number: 1, Kind: KString, Card: Singular}), Repeated
		bad.EnsureAnn().Flatten = true
		off.Fields = append(off.Fields, bad)
	case "flatten_map":
		bad.Kind, bad.TypeRef, bad.Card, bad.MapKey = KMessage, helper("FlatTarget", &Field{Name: "ftx", Number: 1, Kind: KString, Card: Singular}), Map, KString
		bad.EnsureAnn().Flatten = true
		off.Fields = append(off.Fields, bad)
	case "flatten_scalar":
		bad.Kind = pickKind(t, ScalarKinds)
		bad.EnsureAnn().Flatten = true
		off.Fields = append(off.Fields, bad)
	case "flatten_oneof_member":
		off.Oneofs = []*Oneof{{Name: "pick_one"}}
		bad.Kind, bad.TypeRef, bad.Oneof = KMessage, helper("FlatTarget", &Field{Name: "ftx", Number: 1, Kind: KString, Card: Singular}), "pick_one"
		bad.EnsureAnn().Flatten = true
		off.Fields = append(off.Fields, bad, &Field{Name: "other_variant", Number: 11, Kind: KString, Card: Singular, Oneof: "pick_one"})
	case "flatten_with_codec_field":
		// a message whose MarshalJSON flatten owns cannot also hold a field whose annotation needs one, whichever is declared first
		flat := &Field{Name: "flat_child", Number: 12, Kind: KMessage, TypeRef: helper("FlatPart", &Field{Name: "fpx", Number: 1, Kind: KString, Card: Singular}), Card: Singular, Ann: &Ann{Flatten: true}}
		codecs := []func(){
			func() { bad.Kind = KInt64; bad.EnsureAnn().Int64Encoding = 2 },
			func() { bad.Kind = KBytes; bad.EnsureAnn().BytesEncoding = 3 },
			func() { bad.Kind = KTimestamp; bad.EnsureAnn().TimestampFormat = 2 },
			func() { bad.Kind, bad.Card = KString, Optional; bad.EnsureAnn().Nullable = true },
		}
		k := 0
		if InjectShape >= 0 {
			k = InjectShape
		} else {
			k = rapid.IntRange(0, 7).Draw(t, "codec_and_order")
		}
		codecs[k%4]()
		if (k/4)%2 == 0 {
			off.Fields = append(off.Fields, flat, bad) // the annotated field after the flatten field
			inj.Shape = "codec_after_flatten"
		} else {
			bad.Number, flat.Number = 9, 10
			off.Fields = append(off.Fields, bad, flat)
			inj.Shape = "codec_before_flatten"
		}
		inj.Offenders = append(inj.Offenders, "flat_child")
	case "flatten_collision":
		prefix := ""
		child := "clash_name"
		if rapid.Bool().Draw(t, "withprefix") {
			prefix = "pre_"
		}
		// parent has a field whose JSON name equals prefix + child's JSON name
		parentName := "clash_name"
		if prefix != "" {
			// JSON name of parent must equal "pre_" + "clashName": choose explicit json_name
			off.Fields = append(off.Fields, &Field{Name: "sibling", Number: 12, Kind: KString, Card: Singular, JSONName: prefix + JSONName(child)})
			inj.Offenders = append(inj.Offenders, "sibling")
		} else {
			off.Fields = append(off.Fields, &Field{Name: parentName, Number: 12, Kind: KString, Card: Singular})
			inj.Offenders = append(inj.Offenders, parentName)
		}
		bad.Kind, bad.TypeRef = KMessage, helper("FlatTarget", &Field{Name: child, Number: 1, Kind: KString, Card: Singular})
		bad.EnsureAnn().Flatten = true
		bad.Ann.FlattenPrefix = prefix
		off.Fields = append(off.Fields, bad)
	case "prefix_without_flatten":
		if rapid.Bool().Draw(t, "pfxmsg") {
			bad.Kind, bad.TypeRef = KMessage, helper("FlatTarget", &Field{Name: "ftx", Number: 1, Kind: KString, Card: Singular})
		}
		bad.EnsureAnn().FlattenPrefix = "p_"
		off.Fields = append(off.Fields, bad)
	case "discriminator_collision":
		off.Oneofs = []*Oneof{{Name: "bad_oneof", Discriminator: "clashName"}}
		off.Fields = append(off.Fields,
			&Field{Name: "clash_name", Number: 12, Kind: KString, Card: Singular},
			&Field{Name: "va", Number: 13, Kind: KString, Card: Singular, Oneof: "bad_oneof"},
			&Field{Name: "vb", Number: 14, Kind: KInt32, Card: Singular, Oneof: "bad_oneof"})
		inj.Offenders = []string{"Offender", "bad_oneof", "clash_name", "clashName"}
	case "oneof_flatten_scalar_variant":
		off.Oneofs = []*Oneof{{Name: "bad_oneof", Discriminator: "kind", Flatten: true}}
		off.Fields = append(off.Fields,
			&Field{Name: "vmsg", Number: 13, Kind: KMessage, TypeRef: helper("VariantA", &Field{Name: "vax", Number: 1, Kind: KString, Card: Singular}), Card: Singular, Oneof: "bad_oneof"},
			&Field{Name: "bad_field", Number: 14, Kind: pickKind(t, ScalarKinds), Card: Singular, Oneof: "bad_oneof"})
		inj.Offenders = []string{"Offender", "bad_oneof", "bad_field"}
	case "oneof_flatten_child_collision":
		off.Oneofs = []*Oneof{{Name: "bad_oneof", Discriminator: "kind", Flatten: true}}
		collideWith := "kind"
		if rapid.Bool().Draw(t, "collideparent") {
			collideWith = "sibling"
			off.Fields = append(off.Fields, &Field{Name: "sibling", Number: 12, Kind: KString, Card: Singular})
		}
		off.Fields = append(off.Fields,
			&Field{Name: "bad_field", Number: 13, Kind: KMessage, TypeRef: helper("VariantA", &Field{Name: collideWith, Number: 1, Kind: KString, Card: Singular}), Card: Singular, Oneof: "bad_oneof"})
		inj.Offenders = []string{"Offender", "bad_oneof", "bad_field", collideWith}
	case "enum_number_with_custom_values":
		e := &Enum{Name: "OffEnum", Values: []*EnumValue{{Name: "OFF_ENUM_UNSPECIFIED", Number: 0}, {Name: "OFF_ENUM_A", Number: 1, Custom: "a"}}}
		efq := ""
		switch inj.Placement {
		case "second_file":
			s.Files[len(s.Files)-1].Enums = append(s.Files[len(s.Files)-1].Enums, e)
			efq = s.Pkg + ".OffEnum"
		case "imported":
			s.Files[len(s.Files)-1].Enums = append(s.Files[len(s.Files)-1].Enums, e)
			efq = s.ID + ".ext.OffEnum"
		default:
			// the enum with the custom values need not live where the annotated field does: an enums-only file of
			// the same run, or an imported one
			where := 0
			if InjectShape >= 0 {
				where = InjectShape % 3
			} else {
				where = rapid.IntRange(0, 2).Draw(t, "enum_file")
			}
			switch where {
			case 1:
				s.Files = append(s.Files, &File{Name: s.ID + "/enum_types.proto", Generate: true, Enums: []*Enum{e}})
				efq = s.Pkg + ".OffEnum"
				inj.Shape = "enum_in_other_generated_file"
			case 2:
				s.Files = append(s.Files, &File{Name: s.ID + "/ext/enums.proto", Generate: false, Pkg: s.ID + ".ext", GoPath: s.GoPath + "/ext", GoPkg: "ext", Enums: []*Enum{e}})
				efq = s.ID + ".ext.OffEnum"
				inj.Shape = "enum_in_imported_file"
			default:
				main.Enums = append(main.Enums, e)
				efq = s.Pkg + ".OffEnum"
				inj.Shape = "enum_in_same_file"
			}
		}
		bad.Kind, bad.TypeRef = KEnum, efq
		if rapid.Bool().Draw(t, "enumrep") {
			bad.Card = Repeated
		}
		bad.EnsureAnn().EnumEncoding = 2
		off.Fields = append(off.Fields, bad)
		inj.Offenders = append(inj.Offenders, "OffEnum")
	default:
		panic("unknown rule " + rule)
	}
	if rapid.Bool().Draw(t, "surround_after") {
		off.Fields = append(off.Fields, plain(40))
	}
	return inj
}

func pickKind(t *rapid.T, ks []Kind) Kind {
	return ks[rapid.IntRange(0, len(ks)-1).Draw(t, "injkind")]
}

func isRootUnwrapMsg(m *Message) bool {
	return len(m.Fields) == 1 && m.Fields[0].Ann != nil && m.Fields[0].Ann.Unwrap
}

// injectHTTP adds a new RPC with an invalid transport configuration to the first service.
func injectHTTP(t *rapid.T, s *Schema, inj *Injection) {
	main := s.Files[0]
	svc := main.Services[0]
	req := &Message{Name: "OffenderRequest"}
	resp := &Message{Name: "OffenderResponse", Fields: []*Field{{Name: "ok", Number: 1, Kind: KBool, Card: Singular}}}
	m := &Method{Name: "OffendingCall", Input: s.Pkg + ".OffenderRequest", Output: s.Pkg + ".OffenderResponse", HasConfig: true}
	inj.Offenders = []string{"OffendingCall", "OffenderRequest", "bad_field"}
	bodyVerbs := []int32{0, 2, 3, 5}
	allVerbs := []int32{0, 1, 2, 3, 4, 5}
	switch inj.Rule {
	case "path_var_no_field":
		m.Verb = allVerbs[rapid.IntRange(0, len(bodyVerbs)-1).Draw(t, "verb")]
		m.Verb = bodyVerbs[rapid.IntRange(0, len(bodyVerbs)-1).Draw(t, "verb2")]
		// whatever stands between the braces is a variable name, and none of these names a field
		name := "bad_field"
		if InjectShape >= 0 {
			name = []string{"bad_field", "bad.field", "bad_field...", "bad_field:", "BadField", "bad field"}[InjectShape%6]
		} else {
			name = rapid.SampledFrom([]string{"bad_field", "bad_field", "bad.field", "bad_field...", "bad_field:", "BadField", "bad field"}).Draw(t, "varname")
		}
		m.Path = "/offending/{" + name + "}"
		inj.Shape = "var:" + name
		inj.Offenders = append(inj.Offenders, name)
		req.Fields = []*Field{{Name: "other_field", Number: 1, Kind: KString, Card: Singular}}
	case "path_var_non_scalar":
		m.Verb = bodyVerbs[rapid.IntRange(0, len(bodyVerbs)-1).Draw(t, "verb")]
		m.Path = "/offending/{bad_field}/x"
		bad := &Field{Name: "bad_field", Number: 1, Card: Singular}
		switch rapid.IntRange(0, 3).Draw(t, "nonscalar") {
		case 0:
			bad.Kind = KBytes
		case 1:
			bad.Kind = KTimestamp
		case 2:
			bad.Kind, bad.TypeRef = KMessage, s.Pkg+".OffenderResponse"
		case 3:
			e := &Enum{Name: "OffPathEnum", Values: []*EnumValue{{Name: "OFF_PATH_ENUM_UNSPECIFIED", Number: 0}, {Name: "OFF_PATH_ENUM_A", Number: 1}}}
			main.Enums = append(main.Enums, e)
			bad.Kind, bad.TypeRef = KEnum, s.Pkg+".OffPathEnum"
		}
		req.Fields = []*Field{bad, {Name: "other_field", Number: 2, Kind: KString, Card: Singular}}
	case "path_and_query":
		m.Verb = allVerbs[rapid.IntRange(0, len(allVerbs)-1).Draw(t, "verb")]
		m.Path = "/offending/{bad_field}"
		req.Fields = []*Field{{Name: "bad_field", Number: 1, Kind: KString, Card: Singular, Ann: &Ann{Query: &Query{Name: "q"}}}}
	case "bodiless_unbound":
		m.Verb = []int32{1, 4}[rapid.IntRange(0, 1).Draw(t, "verb")]
		m.Path = "/offending/{id}"
		req.Fields = []*Field{{Name: "id", Number: 1, Kind: KString, Card: Singular},
			{Name: "page", Number: 2, Kind: KInt32, Card: Singular, Ann: &Ann{Query: &Query{}}},
			{Name: "bad_field", Number: 3, Kind: pickKind(t, []Kind{KString, KInt32, KBool}), Card: Singular}}
		inj.Offenders = append(inj.Offenders, "GET", "DELETE")
	default:
		panic("unknown http rule " + inj.Rule)
	}
	main.Messages = append(main.Messages, req, resp)
	// position among the service's methods: first, middle or last
	pos := rapid.IntRange(0, len(svc.Methods)).Draw(t, "methodpos")
	ms := append([]*Method{}, svc.Methods[:pos]...)
	ms = append(ms, m)
	svc.Methods = append(ms, svc.Methods[pos:]...)
}

package schema

// MockCompilable reports whether every response message of s (transitively) only uses field
// shapes for which the mock generator emits assignments that type-check today. It mirrors the
// open finding KF-C20-1 and is only consulted while that finding is open.
func MockCompilable(s *Schema) bool {
	msgs := s.AllMessages()
	seen := map[string]bool{}
	var ok func(fq string) bool
	ok = func(fq string) bool {
		if seen[fq] {
			return true
		}
		seen[fq] = true
		m := msgs[fq]
		if m == nil {
			return false
		}
		for _, f := range m.Fields {
			handled := f.Kind == KString || f.Kind == KInt32 || f.Kind == KInt64 || f.Kind == KBool || f.Kind == KFloat || f.Kind == KDouble
			switch {
			case f.Kind == KTimestamp && f.Card == Singular && f.Oneof == "":
				return false
			case f.Kind == KTimestamp:
				if f.Card == Map {
					return false
				}
			case f.Card == Optional || f.Oneof != "":
				if handled || f.Kind == KMessage {
					return false
				}
			case f.Card == Repeated:
				if handled {
					return false
				}
			case f.Card == Map:
				if f.Kind == KMessage {
					if !ok(f.TypeRef) {
						return false
					}
				} else if !handled {
					return false
				}
			default:
				if f.Kind == KInt32 || f.Kind == KFloat {
					return false
				}
				if f.Kind == KMessage && !ok(f.TypeRef) {
					return false
				}
			}
		}
		return true
	}
	for _, f := range s.Files {
		for _, sv := range f.Services {
			for _, m := range sv.Methods {
				if !ok(m.Output) {
					return false
				}
			}
		}
	}
	return true
}

package schema

// MockCompilable reports whether every response message of s (transitively) only uses field
// shapes for which the mock generator emits assignments that type-check today. It mirrors the
// open finding KF-C20-1 and is only consulted while that finding is open.
func MockCompilable(s *Schema) bool {
	msgs := s.AllMessages()
	seen := map[string]bool{}
	var ok func(fq string) bool
	ok = func(fq string) bool {
		if seen[fq] {
			return true
		}
		seen[fq] = true
		m := msgs[fq]
		if m == nil {
			return false
		}
		for _, f := range m.Fields {
			handled := f.Kind == KString || f.Kind == KInt32 || f.Kind == KInt64 || f.Kind == KBool || f.Kind == KFloat || f.Kind == KDouble
			switch {
			case f.Kind == KTimestamp:
				// a Timestamp is populated like any other message (Nanos is an int32): only lists are skipped
				if f.Card != Repeated {
					return false
				}
			case f.Card == Optional || f.Oneof != "":
				if handled || f.Kind == KMessage {
					return false
				}
			case f.Card == Repeated:
				if handled {
					return false
				}
			case f.Card == Map:
				if f.Kind == KMessage {
					if !ok(f.TypeRef) {
						return false
					}
				} else if !handled {
					return false
				}
			default:
				if f.Kind == KInt32 || f.Kind == KFloat {
					return false
				}
				if f.Kind == KMessage && !ok(f.TypeRef) {
					return false
				}
			}
		}
		return true
	}
	for _, f := range s.Files {
		for _, sv := range f.Services {
			for _, m := range sv.Methods {
				if !ok(m.Output) {
					return false
				}
			}
		}
	}
	return true
}

// mockShape prepares the response types of a schema for generate_mock=true: while KF-C20-1 is open, field
// shapes for which the mock generator emits code that does not type-check are rewritten into the nearest
// shape it handles (construction instead of rejecting nine schemas out of ten); fields of child messages
// get examples too, and a response may refer to the same child type twice.
func (g *gen) mockShape() {
	msgs := g.s.AllMessages()
	seen := map[string]bool{}
	sanitize := g.avoid("mock_unsupported_fields")
	var visit func(fq string, top bool)
	visit = func(fq string, top bool) {
		if seen[fq] {
			return
		}
		seen[fq] = true
		m := msgs[fq]
		if m == nil {
			return
		}
		if sanitize {
			mockSanitize(m)
		}
		if !top && g.p.Examples {
			g.addExamples(m)
		}
		for _, f := range m.Fields {
			if f.Kind == KMessage && f.Card == Singular && f.Oneof == "" && f.TypeRef != fq && g.oneIn(3, "sametwice") {
				maxNum := int32(0)
				names := map[string]bool{}
				for _, o := range m.Fields {
					names[o.Name] = true
					if o.Number > maxNum {
						maxNum = o.Number
					}
				}
				name := f.Name + "_again"
				for names[name] {
					name += "x"
				}
				m.Fields = append(m.Fields, &Field{Name: name, Number: maxNum + 1, Kind: KMessage, TypeRef: f.TypeRef, Card: Singular})
				g.tagf("mock:same_type_twice")
				break
			}
		}
		for _, f := range m.Fields {
			if f.Kind == KMessage {
				visit(f.TypeRef, false)
			}
		}
	}
	for _, f := range g.s.Files {
		for _, sv := range f.Services {
			for _, m := range sv.Methods {
				visit(m.Output, true)
			}
		}
	}
}

// mockSanitize mirrors MockCompilable: every shape it rejects is rewritten into one it accepts.
func mockSanitize(m *Message) {
	handled := func(k Kind) bool {
		return k == KString || k == KInt32 || k == KInt64 || k == KBool || k == KFloat || k == KDouble
	}
	for _, f := range m.Fields {
		if f.Kind == KTimestamp && f.Card != Repeated {
			f.Kind = KString
		}
		if (f.Card == Optional || f.Oneof != "") && (handled(f.Kind) || f.Kind == KMessage) {
			f.Card, f.Oneof = Singular, ""
		}
		if f.Card == Repeated && handled(f.Kind) {
			f.Card = Singular
		}
		if f.Card == Map && f.Kind != KMessage && !handled(f.Kind) {
			f.Kind, f.TypeRef = KString, ""
		}
		if f.Card == Singular && f.Oneof == "" {
			switch f.Kind {
			case KInt32:
				f.Kind = KInt64
			case KFloat:
				f.Kind = KDouble
			}
		}
	}
	// oneofs that lost every member disappear
	var keep []*Oneof
	for _, o := range m.Oneofs {
		for _, f := range m.Fields {
			if f.Oneof == o.Name {
				keep = append(keep, o)
				break
			}
		}
	}
	m.Oneofs = keep
}

package schema

import "fmt"

// MockCompilable reports whether every response message of s (transitively) only uses field
// shapes for which the mock generator emits assignments that type-check today. It mirrors the
// open finding KF-C20-1 and is only consulted while that finding is open.
func MockCompilable(s *Schema) bool {
	msgs := s.AllMessages()
	seen := map[string]bool{}
	var ok func(fq string) bool
	ok = func(fq string) bool {
		if seen[fq] {
			return true
		}
		seen[fq] = true
		m := msgs[fq]
		if m == nil {
			return false
		}
		for _, f := range m.Fields {
			handled := f.Kind == KString || f.Kind == KInt32 || f.Kind == KInt64 || f.Kind == KBool || f.Kind == KFloat || f.Kind == KDouble
			switch {
			case f.Kind == KTimestamp:
				// a Timestamp is populated like any other message (Nanos is an int32): only lists are skipped
				if f.Card != Repeated {
					return false
				}
			case f.Card == Optional || f.Oneof != "":
				if handled || f.Kind == KMessage {
					return false
				}
			case f.Card == Repeated:
				if handled {
					return false
				}
			case f.Card == Map:
				if f.Kind == KMessage {
					if !ok(f.TypeRef) {
						return false
					}
				} else if !handled {
					return false
				}
			default:
				if f.Kind == KInt32 || f.Kind == KFloat {
					return false
				}
				if f.Kind == KMessage && !ok(f.TypeRef) {
					return false
				}
			}
		}
		return true
	}
	for _, f := range s.Files {
		for _, sv := range f.Services {
			for _, m := range sv.Methods {
				if !ok(m.Output) {
					return false
				}
			}
		}
	}
	return true
}

// mockShape prepares the response types of a schema for generate_mock=true: while KF-C20-1 is open, field
// shapes for which the mock generator emits code that does not type-check are rewritten into the nearest
// shape it handles (construction instead of rejecting nine schemas out of ten); fields of child messages
// get examples too, and a response may refer to the same child type twice.
func (g *gen) mockShape() {
	g.mockDeepChain()
	msgs := g.s.AllMessages()
	seen := map[string]bool{}
	sanitize := g.avoid("mock_unsupported_fields")
	var visit func(fq string, top bool)
	visit = func(fq string, top bool) {
		if seen[fq] {
			return
		}
		seen[fq] = true
		m := msgs[fq]
		if m == nil {
			return
		}
		if sanitize {
			mockSanitize(m)
		}
		if !top && g.p.Examples {
			g.addExamples(m)
		}
		for _, f := range m.Fields {
			if f.Kind == KMessage && f.Card == Singular && f.Oneof == "" && f.TypeRef != fq && g.oneIn(3, "sametwice") {
				maxNum := int32(0)
				names := map[string]bool{}
				for _, o := range m.Fields {
					names[o.Name] = true
					if o.Number > maxNum {
						maxNum = o.Number
					}
				}
				name := f.Name + "_again"
				for names[name] {
					name += "x"
				}
				m.Fields = append(m.Fields, &Field{Name: name, Number: maxNum + 1, Kind: KMessage, TypeRef: f.TypeRef, Card: Singular})
				g.tagf("mock:same_type_twice")
				break
			}
		}
		for _, f := range m.Fields {
			if f.Kind == KMessage {
				visit(f.TypeRef, false)
			}
		}
	}
	for _, f := range g.s.Files {
		for _, sv := range f.Services {
			for _, m := range sv.Methods {
				visit(m.Output, true)
			}
		}
	}
}

// mockSanitize mirrors MockCompilable: every shape it rejects is rewritten into one it accepts.
func mockSanitize(m *Message) {
	handled := func(k Kind) bool {
		return k == KString || k == KInt32 || k == KInt64 || k == KBool || k == KFloat || k == KDouble
	}
	for _, f := range m.Fields {
		if f.Kind == KTimestamp && f.Card != Repeated {
			f.Kind = KString
		}
		if (f.Card == Optional || f.Oneof != "") && (handled(f.Kind) || f.Kind == KMessage) {
			f.Card, f.Oneof = Singular, ""
		}
		if f.Card == Repeated && handled(f.Kind) {
			f.Card = Singular
		}
		if f.Card == Map && f.Kind != KMessage && !handled(f.Kind) {
			f.Kind, f.TypeRef = KString, ""
		}
		if f.Card == Singular && f.Oneof == "" {
			switch f.Kind {
			case KInt32:
				f.Kind = KInt64
			case KFloat:
				f.Kind = KDouble
			}
		}
	}
	// oneofs that lost every member disappear
	var keep []*Oneof
	for _, o := range m.Oneofs {
		for _, f := range m.Fields {
			if f.Oneof == o.Name {
				keep = append(keep, o)
				break
			}
		}
	}
	m.Oneofs = keep
}

// mockDeepChain hangs, for one schema in three, a chain of five to seven singular message hops below the first
// response type; every level carries a string with declared examples. The mock walks response graphs
// recursively: what it does at depth one it must do at depth six.
func (g *gen) mockDeepChain() {
	if !g.oneIn(3, "deepchain") {
		return
	}
	var top *Message
	var topFQ string
	for _, f := range g.s.Files {
		for _, sv := range f.Services {
			for _, m := range sv.Methods {
				if top == nil && g.msgDefs[m.Output] != nil {
					top, topFQ = g.msgDefs[m.Output], m.Output
				}
			}
		}
	}
	if top == nil || g.feature[topFQ] != "" || isRootUnwrapMsg(top) {
		return
	}
	names := map[string]bool{}
	maxNum := int32(0)
	for _, f := range top.Fields {
		names[f.Name] = true
		if f.Number > maxNum {
			maxNum = f.Number
		}
	}
	if names["deep_chain"] {
		return
	}
	depth := g.intn(5, 7, "deepchainlen")
	var fqs []string
	for i := 0; i < depth; i++ {
		name := g.uniqueShort(fmt.Sprintf("Hop%d", i+1))
		m := &Message{Name: name}
		fq := g.s.Pkg + "." + name
		label := &Field{Name: "label", Number: 1, Kind: KString, Card: Singular}
		label.EnsureAnn().Examples = []string{fmt.Sprintf("hop %d", i+1), "alpha"}
		m.Fields = append(m.Fields, label)
		g.msgDefs[fq] = m
		g.s.Files[0].Messages = append(g.s.Files[0].Messages, m)
		fqs = append(fqs, fq)
	}
	for i := 0; i+1 < depth; i++ {
		m := g.msgDefs[fqs[i]]
		m.Fields = append(m.Fields, &Field{Name: "next", Number: 2, Kind: KMessage, TypeRef: fqs[i+1], Card: Singular})
	}
	top.Fields = append(top.Fields, &Field{Name: "deep_chain", Number: maxNum + 1, Kind: KMessage, TypeRef: fqs[0], Card: Singular})
	g.tagf("mock:deep_chain:%d", depth)
}

package schema

import (
	"fmt"
	"sort"
	"strings"

	"pgregory.net/rapid"
)

// Profile selects which constructs the schema generator may use. The zero value
// generates plain messages with default transport. All weights are "1 in N"
// style booleans drawn through rapid so shrinking turns features off.
type Profile struct {
	Name string

	// structure
	MaxDataMessages int  // extra (non request/response) messages
	MaxFields       int  // per message
	Nested          bool // nested message/enum definitions
	Recursive       bool // self / mutual recursion
	Maps            bool
	Oneofs          bool
	Optionals       bool
	Repeateds       bool
	Enums           bool
	Timestamps      bool
	MessageFields   bool
	SecondFile      bool // part of the types live in a second, service-less file of the same package
	ImportedFile    bool // some types live in an imported file of another package that is not generated

	// transport
	MaxServices   int
	MaxMethods    int
	Transport     bool // http config annotations (verbs, paths, query)
	BasePaths     bool
	OddBasePaths  bool // base paths without leading slash, with trailing slash, "/"
	DefaultPaths  bool // methods without config / without path (defaulted path)
	Headers       bool
	HeaderHeavy   bool // always declare service and (usually) method headers
	RepeatedQuery bool // query annotation on repeated scalars
	QueryOnBody   bool // query annotations on body-verb requests
	SharedRequest bool // methods may share request/response messages

	// JSON-mapping annotations ("int64", "enum_value", "enum_number", "nullable", "empty",
	// "timestamp", "bytes", "oneof_disc", "oneof_flat", "flatten", "unwrap_root_list",
	// "unwrap_root_map", "unwrap_map_value", "unwrap_combined")
	Features        map[string]bool
	MultiFeature    bool // several MarshalJSON-generating features on one message
	AnnotatedNested bool // annotated messages used as children of other messages
	AnnotateAnyCard bool // annotations on optional/repeated/map/oneof-member fields where the validators accept them
	MultiWordChild  bool // multi-word field names in flatten children / flattened variants

	ErrorMessages bool // top-level messages named *Error (custom error types)
	Rules         bool // buf.validate rules
	Examples      bool // field_examples

	HostileNames bool // identifier-hostile names
	HostileText  bool // free-text values (descriptions, examples) with quotes, backslashes, line breaks, template syntax
	LongNames    bool

	TSServer       bool // the schema is run through the generated TypeScript server
	ContractStrict bool // the schema is judged against the published OpenAPI/TypeScript contract
	NoClient       bool // the schema is only used with server-side plugins: client-only findings do not restrict it

	// Avoid maps generator avoidance switches (turned on by open known findings) to the
	// finding id; avoided draws are counted in Schema.Avoided.
	Avoid map[string]string
	// Stratified selects each message's codec feature and variant by sequence number instead of drawing it.
	Stratified bool
	// MockShape shapes response types for generate_mock=true (see mock.go).
	MockShape bool
	// DupShortNames lets nested messages of different parents share a short name.
	DupShortNames bool
}

// avoidQuiet tests a switch without counting an avoided draw.
func (g *gen) avoidQuiet(sw string) bool { return g.p.Avoid != nil && g.p.Avoid[sw] != "" }

func (g *gen) avoid(sw string) bool {
	if g.p.Avoid != nil && g.p.Avoid[sw] != "" {
		g.s.Avoided = bump(g.s.Avoided, sw)
		return true
	}
	return false
}

func sortStrings(s []string) { sort.Strings(s) }

func (p *Profile) feat(name string) bool { return p.Features != nil && p.Features[name] }

// AllFeatures lists every JSON-mapping feature switch.
var AllFeatures = []string{"int64", "enum_value", "enum_number", "nullable", "empty", "timestamp", "bytes",
	"oneof_disc", "oneof_flat", "flatten", "unwrap_root_list", "unwrap_root_map", "unwrap_map_value", "unwrap_combined"}

// Features builds a feature set.
func Features(names ...string) map[string]bool {
	m := map[string]bool{}
	for _, n := range names {
		m[n] = true
	}
	return m
}

var (
	wordsSingle  = []string{"id", "name", "title", "count", "total", "price", "status", "kind", "note", "label", "size", "code", "flag", "value", "amount", "owner", "email", "token", "slug", "body"}
	wordsMulti   = []string{"user_id", "page_size", "api_url", "created_at", "is_active", "zip_code", "first_name", "order_ref", "max_items", "http_code", "retry_after_seconds", "parent_key"}
	wordsDigits  = []string{"field_2", "x1_y", "v2", "line_1", "a1", "b_2c", "item3_ref"}
	wordsHostile = []string{"type", "string", "reset", "descriptor", "proto_message", "foo__bar", "bar_", "get_name", "func", "range", "select", "interface", "url", "handler", "options", "body", "path", "query", "headers", "resp", "req", "err", "result", "ctx", "c", "x", "foo_1bar", "s_3d"}
	msgWords     = []string{"Item", "Order", "Line", "User", "Profile", "Address", "Config", "Entry", "Detail", "Meta", "Spec", "State", "Payload", "Record", "Shape", "Token", "Batch", "Filter"}
	msgHostile   = []string{"APIKey", "V2Config", "HTTPSetting", "Foo_Bar", "URLInfo", "ID", "X"}
	methodWords  = []string{"Get", "List", "Create", "Update", "Delete", "Find", "Search", "Put", "Patch", "Sync", "Run", "Fetch"}
	methodTail   = []string{"", "Item", "Order", "User", "All", "ByID", "URL", "2FA", "V2", "Batch", "State"}
	svcWords     = []string{"Shop", "User", "Admin", "Catalog", "Billing", "Audit", "Edge"}
	enumWords    = []string{"Status", "Color", "Level", "Mode", "Tier", "Phase"}
	enumVals     = []string{"ACTIVE", "INACTIVE", "PENDING", "RED", "GREEN", "LOW", "HIGH", "DONE", "OPEN", "CLOSED"}
	customVals   = []string{"active", "in-active", "pending approval", "red", "GREEN", "low", "Hi", "done", "open", "x"}
	pathSegs     = []string{"items", "users", "v1", "orders", "things", "a", "by-id", "data.json", "x_y"}
	headerNames  = []string{"X-API-Key", "X-Request-ID", "X-Tenant-ID", "Authorization", "X-Trace", "Accept-Language", "x-lower-case", "X-Count", "X-Flag", "X-When"}
)

// gen holds generation state for one schema.
type gen struct {
	wrapSeq int

	dupShort map[string]bool

	stratum int // schema index, drives stratified feature choice
	msgSeq  int
	variant int // stratified variant index of the current message (-1 = draw)

	t   *rapid.T
	p   *Profile
	s   *Schema
	tag map[string]bool

	enums    []string // fq names of generated enums
	enumDefs map[string]*Enum
	// data messages usable as field types, in creation order
	msgs      []string
	msgDefs   map[string]*Message
	feature   map[string]string // fq message name -> MarshalJSON-generating feature it carries ("" if none)
	usedShort map[string]bool   // short type names in use (TS/OpenAPI use short names)

	ruled         map[string]bool // messages that already carry rules
	methodNames   map[string]bool // method names used by any service of the schema
	firstSeg      map[string]bool // "VERB segment" literal first segments in use (schema-wide)
	allowVarFirst bool            // the schema has a single route: a variable may be the first segment
}

func (g *gen) bool(label string) bool { return rapid.Bool().Draw(g.t, label) }
func (g *gen) oneIn(n int, label string) bool {
	return rapid.IntRange(0, n-1).Draw(g.t, label) == 0
}
func (g *gen) intn(lo, hi int, label string) int { return rapid.IntRange(lo, hi).Draw(g.t, label) }
func pick[T any](g *gen, xs []T, label string) T {
	return xs[rapid.IntRange(0, len(xs)-1).Draw(g.t, label)]
}

func (g *gen) tagf(format string, a ...any) { g.tag[fmt.Sprintf(format, a...)] = true }

// Generate draws one schema. id must be unique within a batch.
func Generate(t *rapid.T, p *Profile, id string) *Schema {
	g := &gen{t: t, p: p, tag: map[string]bool{}, enumDefs: map[string]*Enum{}, msgDefs: map[string]*Message{},
		feature: map[string]string{}, usedShort: map[string]bool{}, firstSeg: map[string]bool{}, variant: -1}
	for _, r := range id {
		if r >= '0' && r <= '9' {
			g.stratum = g.stratum*10 + int(r-'0')
		}
	}
	if strings.HasSuffix(id, "0001") && p.Stratified {
		// checks that draw one schema per rapid case reuse one id: the stratum is drawn instead
		g.stratum = g.intn(0, 9999, "stratum")
	}
	pkgTail := pick(g, []string{"shop.v1", "api", "core.v2", "svc"}, "pkgtail")
	goPkg := pick(g, []string{"shoppb", "api", "corev2", "svc"}, "gopkg")
	// unique per id so several schemas link into one binary
	g.s = &Schema{ID: id, Pkg: id + "." + pkgTail, GoPkg: id + goPkg, GoPath: "verif.test/gen/" + id, Profile: p.Name}
	main := &File{Name: id + "/api.proto", Generate: true}
	g.s.Files = []*File{main}

	if p.Enums {
		n := g.intn(0, 2, "nenums")
		for i := 0; i < n; i++ {
			g.newEnum(main, nil)
		}
	}
	nd := 0
	if p.MaxDataMessages > 0 {
		nd = g.intn(0, p.MaxDataMessages, "ndata")
	}
	for i := 0; i < nd; i++ {
		g.newDataMessage(main, 0)
	}
	if p.ErrorMessages {
		for _, n := range []string{"NotFoundError", "QuotaError"} {
			if g.usedShort[n] || (n == "QuotaError" && g.bool("oneerr")) {
				continue
			}
			g.usedShort[n] = true
			em := &Message{Name: n}
			ec := &fieldCtx{used: map[string]bool{}, multiOK: true, noMsg: true}
			em.Fields = append(em.Fields, &Field{Name: "resource_type", Number: g.nextNum(ec), Kind: KString, Card: Singular})
			for i, k := 0, g.intn(0, 3, "nerrf"); i < k; i++ {
				em.Fields = append(em.Fields, g.plainField(ec))
			}
			main.Messages = append(main.Messages, em)
			g.msgDefs[g.s.Pkg+"."+n] = em
			g.tagf("custom_error")
		}
	}
	ns := 1
	if p.MaxServices > 1 {
		ns = g.intn(1, p.MaxServices, "nsvc")
	}
	usedSvc := map[string]bool{}
	for i := 0; i < ns; i++ {
		g.newService(main, usedSvc, ns == 1)
	}
	if p.MockShape {
		g.mockShape()
	}
	g.splitFiles(main)
	for k := range g.tag {
		g.s.Tags = append(g.s.Tags, k)
	}
	sort.Strings(g.s.Tags)
	return g.s
}

func (g *gen) uniqueShort(base string) string {
	name := base
	for i := 2; g.usedShort[name]; i++ {
		name = fmt.Sprintf("%s%d", base, i)
	}
	g.usedShort[name] = true
	return name
}

func (g *gen) newEnum(f *File, parent *Message) string {
	base := pick(g, enumWords, "enumname")
	name := g.uniqueShort(base)
	e := &Enum{Name: name}
	prefix := strings.ToUpper(name) + "_"
	n := g.intn(1, 4, "nvals")
	custom := g.p.feat("enum_value") && g.bool("enumcustom") && !g.avoid("enum_value_custom")
	e.Values = append(e.Values, &EnumValue{Name: prefix + "UNSPECIFIED", Number: 0})
	seen := map[string]bool{}
	usedCustom := map[string]bool{}
	for i := 0; i < n; i++ {
		v := pick(g, enumVals, "enumval")
		if seen[v] {
			continue
		}
		seen[v] = true
		num := int32(len(e.Values))
		if g.oneIn(5, "enumgap") {
			num += 10
		}
		// keep numbers unique
		for _, ev := range e.Values {
			if ev.Number == num {
				num = e.Values[len(e.Values)-1].Number + 1
			}
		}
		ev := &EnumValue{Name: prefix + v, Number: num}
		if custom && g.bool("valcustom") {
			c := pick(g, customVals, "customval")
			if g.p.HostileText && g.oneIn(4, "customhostile") && !g.avoid("enum_value_text_unescaped") {
				c = pick(g, []string{"5'6\"", "N/A \\ none", "it's", "a`b${c}"}, "customhostileval")
				g.tagf("enum_value:hostile_text")
			}
			if !usedCustom[c] {
				usedCustom[c] = true
				ev.Custom = c
				g.tagf("enum_value")
			}
		}
		e.Values = append(e.Values, ev)
	}
	if custom && g.oneIn(3, "zerocustom") {
		e.Values[0].Custom = "unknown"
	}
	var fq string
	if parent != nil {
		parent.Enums = append(parent.Enums, e)
		fq = g.fqOfMsg(parent) + "." + name
	} else {
		f.Enums = append(f.Enums, e)
		fq = g.s.Pkg + "." + name
	}
	g.enums = append(g.enums, fq)
	g.enumDefs[fq] = e
	return fq
}

func (g *gen) fqOfMsg(m *Message) string {
	for fq, mm := range g.msgDefs {
		if mm == m {
			return fq
		}
	}
	return g.s.Pkg + "." + m.Name
}

func (g *gen) enumHasCustom(fq string) bool {
	for _, v := range g.enumDefs[fq].Values {
		if v.Custom != "" {
			return true
		}
	}
	return false
}

// fieldName draws a fresh field name (unique, and with a unique JSON name).
func (g *gen) fieldName(used map[string]bool, multiOK bool) string {
	for try := 0; ; try++ {
		var n string
		switch {
		case g.p.HostileNames && g.oneIn(3, "hostile"):
			n = pick(g, wordsHostile, "fname")
		case multiOK && g.oneIn(3, "multi"):
			n = pick(g, wordsMulti, "fname")
			g.tagf("name:multi_word")
		case multiOK && g.oneIn(6, "digits"):
			n = pick(g, wordsDigits, "fname")
			g.tagf("name:digits")
		default:
			n = pick(g, wordsSingle, "fname")
		}
		if try > 3 {
			n = fmt.Sprintf("%s_%d", n, try)
		}
		if g.p.LongNames && g.oneIn(4, "long") {
			n = n + "_" + strings.Repeat("very_long_segment_", 12) + "end"
		}
		j := strings.ToLower(JSONName(n))
		if used[n] || used["json:"+j] {
			continue
		}
		used[n] = true
		used["json:"+j] = true
		return n
	}
}

func (g *gen) msgName() string {
	base := pick(g, msgWords, "mname")
	if g.p.HostileNames && g.oneIn(3, "mhostile") {
		base = pick(g, msgHostile, "mname")
	}
	if g.oneIn(3, "mcompound") {
		base += pick(g, msgWords, "mname2")
	}
	if g.p.LongNames && g.oneIn(4, "mlong") {
		base += strings.Repeat("VeryLongSegment", 14)
	}
	return g.uniqueShort(base)
}

// scalar kinds by rough weight
func (g *gen) scalarKind() Kind {
	if g.oneIn(3, "strbias") {
		return KString
	}
	return pick(g, ScalarKinds, "kind")
}

type fieldCtx struct {
	used     map[string]bool
	num      int32
	multiOK  bool
	noMsg    bool // only scalars/enums (children of flatten etc. may still be anything)
	depth    int
	selfName string // fq name of the message under construction (for recursion)
}

func (g *gen) nextNum(c *fieldCtx) int32 {
	c.num++
	if g.oneIn(8, "numgap") {
		c.num += int32(g.intn(1, 30, "gap"))
	}
	if c.num >= 19000 && c.num <= 19999 {
		c.num = 20000
	}
	return c.num
}

// plainField draws an un-annotated field of arbitrary kind and cardinality.
func (g *gen) plainField(c *fieldCtx) *Field {
	f := &Field{Name: g.fieldName(c.used, c.multiOK), Number: g.nextNum(c), Card: Singular}
	// kind
	r := g.intn(0, 9, "fkindclass")
	switch {
	case r <= 5:
		f.Kind = g.scalarKind()
	case r == 6 && g.p.Enums && len(g.enums) > 0:
		f.Kind = KEnum
		f.TypeRef = pick(g, g.enums, "enumref")
	case r == 7 && g.p.Timestamps:
		f.Kind = KTimestamp
		g.tagf("kind:timestamp")
	case r >= 8 && g.p.MessageFields && !c.noMsg && (len(g.msgs) > 0 || (g.p.Recursive && c.selfName != "")):
		f.Kind = KMessage
		if g.p.Recursive && c.selfName != "" && g.oneIn(3, "selfref") {
			f.TypeRef = c.selfName
			g.tagf("recursive")
		} else if cands := g.childCandidates(); len(cands) > 0 {
			f.TypeRef = pick(g, cands, "msgref")
			if g.feature[f.TypeRef] != "" {
				g.tagf("ctx:child_of_plain:%s", g.feature[f.TypeRef])
			}
		} else if c.selfName == "" || !g.p.Recursive {
			f.Kind = KString
		} else {
			f.TypeRef = c.selfName
			g.tagf("recursive")
		}
	default:
		f.Kind = g.scalarKind()
	}
	// cardinality
	cr := g.intn(0, 9, "fcard")
	switch {
	case cr == 0 && g.p.Optionals && f.Kind != KTimestamp:
		f.Card = Optional
		g.tagf("card:optional")
	case cr == 1 && g.p.Optionals && (f.Kind == KMessage || f.Kind == KTimestamp):
		// proto3 optional on a message is legal but redundant; keep singular
	case (cr == 2 || cr == 3) && g.p.Repeateds:
		f.Card = Repeated
		g.tagf("card:repeated")
	case cr == 4 && g.p.Maps:
		f.Card = Map
		f.MapKey = pick(g, MapKeyKinds, "mapkey")
		if g.oneIn(2, "mapkeystr") {
			f.MapKey = KString
		}
		g.tagf("card:map")
	}
	if f.Kind == KMessage && f.TypeRef == c.selfName && f.Card == Singular {
		// fine: singular self reference is legal in proto3
	}
	return f
}

// childCandidates returns the message types usable as a plain child field.
func (g *gen) childCandidates() []string {
	if g.p.AnnotatedNested && !g.avoid("annotated_nested") {
		return g.msgs
	}
	var out []string
	for _, m := range g.msgs {
		if g.feature[m] == "" {
			out = append(out, m)
		}
	}
	return out
}

// newDataMessage creates a data message usable as a field type and returns its fq name.
func (g *gen) newDataMessage(f *File, depth int) string {
	name := g.msgName()
	m := &Message{Name: name}
	fq := g.s.Pkg + "." + name
	g.msgDefs[fq] = m
	f.Messages = append(f.Messages, m)
	c := &fieldCtx{used: map[string]bool{}, multiOK: true, depth: depth, selfName: fq}
	if g.p.Nested && g.oneIn(3, "nestedenum") && g.p.Enums {
		g.newEnum(f, m)
	}
	if g.p.Nested && g.oneIn(3, "nestedmsg") {
		nn := g.msgName()
		dup := g.p.DupShortNames && g.oneIn(2, "dupnested")
		if dup {
			// nested types of different parents may share their short name (Order.Item, Shipment.Item)
			nn = pick(g, []string{"Item", "Meta", "Detail"}, "dupname")
			if g.dupShort[nn] {
				g.tagf("dup_short_name")
			}
			if g.dupShort == nil {
				g.dupShort = map[string]bool{}
			}
			g.dupShort[nn] = true
		}
		nm := &Message{Name: nn}
		nfq := fq + "." + nn
		g.msgDefs[nfq] = nm
		m.Nested = append(m.Nested, nm)
		nc := &fieldCtx{used: map[string]bool{}, multiOK: true, noMsg: true}
		for i, n := 0, g.intn(0, 3, "nnf"); i < n; i++ {
			nm.Fields = append(nm.Fields, g.plainField(nc))
		}
		if dup && depth < 1 && g.bool("dupchild") {
			// a type only this nested message refers to
			ref := g.newDataMessage(f, depth+2)
			nm.Fields = append(nm.Fields, &Field{Name: g.fieldName(nc.used, true), Number: g.nextNum(nc), Kind: KMessage, TypeRef: ref, Card: Singular})
		}
		g.msgs = append(g.msgs, nfq)
		g.tagf("nested_type")
	}
	g.fillMessage(m, fq, c)
	g.msgs = append(g.msgs, fq)
	return fq
}

// fillMessage adds fields (plain and, by profile, annotated) to m.
func (g *gen) fillMessage(m *Message, fq string, c *fieldCtx) {
	max := g.p.MaxFields
	if max == 0 {
		max = 5
	}
	n := g.intn(0, max, "nfields")
	for i := 0; i < n; i++ {
		m.Fields = append(m.Fields, g.plainField(c))
	}
	if g.p.Oneofs && g.oneIn(3, "oneof") {
		g.addOneof(m, fq, c, false, false)
	}
	g.annotate(m, fq, c)
}

// addOneof adds a real oneof with 1..3 members.
func (g *gen) addOneof(m *Message, fq string, c *fieldCtx, disc, flat bool) *Oneof {
	oname := pick(g, []string{"choice", "payload_kind", "variant", "content"}, "oneofname")
	for c.used[oname] {
		oname += "_x"
	}
	c.used[oname] = true
	o := &Oneof{Name: oname}
	m.Oneofs = append(m.Oneofs, o)
	n := g.intn(1, 3, "nvariants")
	for i := 0; i < n; i++ {
		var f *Field
		if flat || (disc && g.bool("variantmsg")) {
			// message variant
			ref := g.variantMessage(flat || g.avoidQuiet("child_encoding_json"))
			f = &Field{Name: g.fieldName(c.used, true), Number: g.nextNum(c), Kind: KMessage, TypeRef: ref, Card: Singular}
			if child := g.msgDefs[ref]; flat && child != nil {
				// promoted variant fields must stay clear of the parent's fields (names are reserved)
				for _, cf := range child.Fields {
					for c.used[cf.Name] || c.used["json:"+strings.ToLower(JSONName(cf.Name))] {
						cf.Name += "x"
					}
					c.used[cf.Name] = true
					c.used["json:"+strings.ToLower(JSONName(cf.Name))] = true
				}
			}
		} else {
			f = g.plainField(c)
			f.Card = Singular
			f.MapKey = ""
			if disc && f.Kind == KTimestamp && g.avoid("oneof_disc_timestamp_variant") {
				f.Kind = KString
			}
			if disc && (f.Kind == KMessage || f.Kind == KTimestamp) && g.avoid("child_encoding_json") {
				f.Kind, f.TypeRef = KString, ""
			}
		}
		f.Oneof = oname
		if disc && g.oneIn(2, "oneofvalue") {
			f.EnsureAnn().OneofValue = pick(g, []string{"txt", "IMG", "kind-a", "b.v2", "with space"}, "oneofval") + fmt.Sprint(i)
			if g.p.HostileText && g.oneIn(4, "oneofvalhostile") && !g.avoid("oneof_value_text_unescaped") {
				f.Ann.OneofValue = pick(g, []string{"5'6\"", "back\\slash", "it's", "a`b${c}"}, "oneofvalhostileval") + fmt.Sprint(i)
				g.tagf("oneof_value:hostile_text")
			}
			g.tagf("oneof_value")
		}
		m.Fields = append(m.Fields, f)
	}
	g.tagf("oneof")
	return o
}

// variantMessage returns a message type usable as (flattened) oneof variant / flatten child.
// For flattened use its field JSON names must not collide with the parent's; we create a fresh
// message with distinctive field names.
func (g *gen) variantMessage(fresh bool) string {
	if cands := g.childCandidates(); !fresh && len(cands) > 0 && g.bool("reusevariant") {
		return pick(g, cands, "variantref")
	}
	name := g.msgName()
	m := &Message{Name: name}
	fq := g.s.Pkg + "." + name
	g.msgDefs[fq] = m
	g.s.Files[0].Messages = append(g.s.Files[0].Messages, m)
	used := map[string]bool{}
	simple := fresh && g.avoid("child_encoding_json")
	c := &fieldCtx{used: used, multiOK: g.p.MultiWordChild, noMsg: !g.p.AnnotatedNested}
	n := g.intn(1, 3, "nchild")
	for i := 0; i < n; i++ {
		f := g.plainField(c)
		if simple {
			// children that encoding/json happens to encode like proto3 JSON
			f.Card, f.MapKey, f.TypeRef = Singular, "", ""
			f.Kind = pick(g, []Kind{KString, KBool, KInt32, KUint32, KSint32, KString}, "simplekind")
		}
		// distinctive names: prefix with the message name so flattening never collides
		f.Name = strings.ToLower(name) + "_" + f.Name
		if !g.p.MultiWordChild || simple {
			f.Name = strings.ReplaceAll(f.Name, "_", "")
		}
		m.Fields = append(m.Fields, f)
	}
	g.msgs = append(g.msgs, fq)
	return fq
}

// annotate adds JSON-mapping annotations to m according to the profile.
func (g *gen) annotate(m *Message, fq string, c *fieldCtx) {
	p := g.p
	if len(p.Features) == 0 {
		return
	}
	have := func() bool { return g.feature[fq] != "" }
	mark := func(feat string) {
		if g.feature[fq] == "" {
			g.feature[fq] = feat
		} else if !strings.Contains(g.feature[fq], feat) {
			g.feature[fq] += "+" + feat
		}
		g.tagf("feat:%s", feat)
	}
	structural := func(f string) bool {
		return strings.Contains(f, "flatten") || strings.Contains(f, "oneof") || strings.Contains(f, "unwrap_root")
	}
	can := func(feat string) bool {
		if !p.feat(feat) {
			return false
		}
		if have() && g.feature[fq] != feat {
			// flatten / discriminated oneofs never share a message with another codec feature:
			// the plugins refuse most such combinations
			if !p.MultiFeature || structural(feat) || structural(g.feature[fq]) {
				return false
			}
			if g.avoid("multi_feature") {
				return false
			}
		}
		return true
	}
	// choose one primary feature for this message uniformly, so that every feature gets a
	// fair share of messages; further features only join in multi-feature mode
	var enabled []string
	for _, f := range []string{"int64", "nullable", "empty", "timestamp", "bytes", "enum_number", "enum_value", "flatten", "oneof"} {
		switch f {
		case "oneof":
			if p.feat("oneof_disc") || p.feat("oneof_flat") {
				enabled = append(enabled, f)
			}
		default:
			if p.feat(f) {
				enabled = append(enabled, f)
			}
		}
	}
	primary := ""
	g.variant = -1
	if p.Stratified && len(enabled) > 0 {
		// stratified: the sequence number of the message (schema index, message index) selects the
		// feature and its variant, so that a batch covers every (feature, variant) pair evenly instead
		// of leaving rare pairs to chance; everything else about the message is still drawn
		seq := g.stratum*7 + g.msgSeq
		g.msgSeq++
		primary = enabled[seq%len(enabled)]
		g.variant = seq / len(enabled)
	} else if len(enabled) > 0 && !g.oneIn(4, "noprimary") {
		primary = pick(g, enabled, "primary")
	}
	want := func(f string) bool {
		if primary == f {
			return true
		}
		return p.MultiFeature && g.oneIn(4, "extra:"+f)
	}
	addField := func(k Kind, ref string, card Card) *Field {
		f := &Field{Name: g.fieldName(c.used, c.multiOK), Number: g.nextNum(c), Kind: k, TypeRef: ref, Card: card}
		if card == Map {
			f.MapKey = KString
		}
		m.Fields = append(m.Fields, f)
		return f
	}
	cardFor := func(allowRepeated bool) Card {
		if p.AnnotateAnyCard {
			switch g.intn(0, 4, "anncard") {
			case 1:
				if p.Optionals {
					return Optional
				}
			case 2:
				if allowRepeated && p.Repeateds {
					return Repeated
				}
			}
		}
		return Singular
	}
	if can("int64") && want("int64") {
		k := pick(g, []Kind{KInt64, KUint64, KSint64, KFixed64, KSfixed64}, "i64kind")
		card := Singular
		if p.Repeateds && g.oneIn(3, "i64rep") {
			card = Repeated
		} else {
			card = cardFor(false)
		}
		if card == Optional && g.avoid("int64_number_optional") {
			card = Singular
		}
		f := addField(k, "", card)
		f.EnsureAnn().Int64Encoding = int32(g.variantOf([]int{2, 2, 2, 1}, "i64enc"))
		if f.Ann.Int64Encoding == 2 {
			mark("int64")
			g.tagf("int64:%s:%s", k, card)
		}
	}
	if can("nullable") && p.Optionals && want("nullable") {
		k := g.scalarKind()
		var ref string
		if p.Enums && len(g.enums) > 0 && g.oneIn(5, "nullenum") && !g.avoid("nullable_enum_schema") {
			k, ref = KEnum, pick(g, g.enums, "nullenumref")
		}
		f := addField(k, ref, Optional)
		f.EnsureAnn().Nullable = true
		mark("nullable")
		g.tagf("nullable:%s", k)
	}
	if can("empty") && want("empty") {
		ref := g.emptyCapableMessage()
		f := addField(KMessage, ref, Singular)
		f.EnsureAnn().EmptyBehavior = int32(g.variantOf([]int{1, 2, 3}, "emptyb"))
		if f.Ann.EmptyBehavior == 2 && p.ContractStrict && g.avoid("ts_empty_behavior_null_not_declared") {
			f.Ann.EmptyBehavior = 3
		}
		mark("empty")
		g.tagf("empty:%d", f.Ann.EmptyBehavior)
	}
	if can("timestamp") && want("timestamp") {
		card := cardFor(true)
		if card == Optional {
			card = Singular
		}
		if card == Repeated && g.avoid("timestamp_format_repeated") {
			card = Singular
		}
		f := addField(KTimestamp, "", card)
		f.EnsureAnn().TimestampFormat = int32(g.variantOf([]int{1, 2, 3, 4}, "tsfmt"))
		if f.Ann.TimestampFormat != 1 {
			mark("timestamp")
		}
		g.tagf("timestamp:%d:%s", f.Ann.TimestampFormat, card)
	}
	if can("bytes") && want("bytes") {
		card := cardFor(true)
		if card == Repeated && g.avoid("bytes_encoding_repeated") {
			card = Singular
		}
		if card == Optional && g.avoid("bytes_encoding_optional") {
			card = Singular
		}
		f := addField(KBytes, "", card)
		f.EnsureAnn().BytesEncoding = int32(g.variantOf([]int{1, 2, 3, 4, 5}, "bytesenc"))
		if f.Ann.BytesEncoding != 1 {
			mark("bytes")
		}
		g.tagf("bytes:%d:%s", f.Ann.BytesEncoding, card)
	}
	if p.feat("enum_number") && p.Enums && want("enum_number") && !g.avoid("enum_number") {
		// needs an enum without custom values
		var plain []string
		for _, e := range g.enums {
			if !g.enumHasCustom(e) {
				plain = append(plain, e)
			}
		}
		if len(plain) > 0 {
			f := addField(KEnum, pick(g, plain, "enumnumref"), cardFor(true))
			f.EnsureAnn().EnumEncoding = int32(pick(g, []int{2, 2, 1}, "enumenc"))
			g.tagf("enum_encoding:%d", f.Ann.EnumEncoding)
		}
	}
	if p.feat("enum_value") && p.Enums && want("enum_value") {
		var custom []string
		for _, e := range g.enums {
			if g.enumHasCustom(e) {
				custom = append(custom, e)
			}
		}
		if len(custom) > 0 {
			f := addField(KEnum, pick(g, custom, "enumvalref"), cardFor(true))
			if g.bool("enumencstr") {
				f.EnsureAnn().EnumEncoding = 1
			}
			g.tagf("enum_value_field")
		}
	}
	// KF-C04-1 (decoding loses the flattened child) rules flatten out where requests or client-side decoding
	// are judged; where only what the server *sends* is judged it may still appear in response messages
	isResponse := strings.HasSuffix(m.Name, "Response") && fq == g.s.Pkg+"."+m.Name
	if can("flatten") && want("flatten") && !g.avoid("flatten") && (isResponse || !g.avoid("flatten_in_requests")) {
		ref := g.variantMessage(true)
		f := addField(KMessage, ref, Singular)
		f.EnsureAnn().Flatten = true
		if g.bool("flatprefix") {
			f.Ann.FlattenPrefix = pick(g, []string{"billing_", "x", "p_"}, "prefix")
			g.tagf("flatten_prefix")
		}
		// the flatten field itself is not on the wire: a promoted child may carry its name
		delete(c.used, f.Name)
		delete(c.used, "json:"+strings.ToLower(JSONName(f.Name)))
		if child := g.msgDefs[ref]; child != nil && f.Ann.FlattenPrefix == "" && len(child.Fields) > 0 && g.oneIn(4, "flatsamename") &&
			(!strings.Contains(f.Name, "_") || !g.avoidQuiet("child_encoding_json")) {
			child.Fields[0].Name = f.Name
			g.tagf("flatten:child_named_like_field")
		}
		if child := g.msgDefs[ref]; child != nil && p.feat("nullable") && p.Optionals && g.oneIn(3, "flatnullable") {
			// an optional nullable field inside the flattened child (the child has its own codec)
			child.Fields = append(child.Fields, &Field{Name: strings.ToLower(child.Name) + "nick", Number: 90, Kind: pick(g, []Kind{KString, KBool, KInt32}, "flatnullkind"), Card: Optional, Ann: &Ann{Nullable: true}})
			g.feature[ref] = "nullable"
			g.tagf("flatten:nullable_child_field")
		}
		// the promoted names (prefix + child field) must not meet a parent field, in proto or JSON spelling:
		// the child is fresh, so its fields are renamed until they are free, and reserved for later fields
		if child := g.msgDefs[ref]; child != nil {
			for _, cf := range child.Fields {
				for c.used[f.Ann.FlattenPrefix+cf.Name] || c.used["json:"+strings.ToLower(JSONName(f.Ann.FlattenPrefix+cf.Name))] {
					cf.Name += "x"
				}
				c.used[f.Ann.FlattenPrefix+cf.Name] = true
				c.used["json:"+strings.ToLower(JSONName(f.Ann.FlattenPrefix+cf.Name))] = true
			}
		}
		c.used[f.Name] = true // still a proto field name of the parent
		c.used["json:"+strings.ToLower(JSONName(f.Name))] = true
		mark("flatten")
	}
	if (can("oneof_disc") || can("oneof_flat")) && len(m.Oneofs) == 0 && want("oneof") && !(p.ContractStrict && g.avoid("oneof_disc_openapi_schema")) {
		flat := can("oneof_flat") && (!can("oneof_disc") || g.variantOf([]int{0, 1}, "oneofflat") == 1)
		if !flat && p.ContractStrict && g.avoid("ts_oneof_disc_nested_under_oneof_name") {
			if !can("oneof_flat") {
				return
			}
			flat = true
		}
		o := g.addOneof(m, fq, c, true, flat)
		o.Discriminator = pick(g, []string{"type", "kind", "tag_name", "@type"}, "disc")
		if o.Discriminator == "@type" && g.avoid("ts_discriminator_nonidentifier") {
			o.Discriminator = "objectType"
		}
		for c.used["json:"+strings.ToLower(o.Discriminator)] {
			o.Discriminator += "x"
		}
		c.used["json:"+strings.ToLower(o.Discriminator)] = true
		o.Flatten = flat
		if flat {
			mark("oneof_flat")
		} else {
			mark("oneof_disc")
		}
	}
}

// variantOf picks an annotation variant: by the stratified index when the profile asks for it, else drawn.
func (g *gen) variantOf(vals []int, label string) int {
	if g.variant >= 0 {
		return vals[g.variant%len(vals)]
	}
	return pick(g, vals, label)
}

// yamlHostile are strings that some YAML reader resolves to a non-string (YAML 1.1 booleans in every
// capitalisation, null words, numbers, dates) or that need quoting.
var yamlHostile = []string{"123", "no", "No", "NO", "yes", "Yes", "on", "ON", "Off", "y", "Y", "n", "N", "true", "True", "TRUE", "false", "null", "Null", "NULL", "~",
	"1e3", "0x10", "0o14", "1_000", ".inf", ".NaN", "2001-12-14", "12:30:45", "a: b", "#c", "- x", "<<", "=", "1.2.3", "010", "+1"}

func is64(k Kind) bool {
	return k == KInt64 || k == KUint64 || k == KSint64 || k == KFixed64 || k == KSfixed64
}

// emptyCapableMessage returns a message type for empty_behavior fields.
func (g *gen) emptyCapableMessage() string {
	if cands := g.childCandidates(); len(cands) > 0 && g.bool("reuseempty") {
		return pick(g, cands, "emptyref")
	}
	name := g.msgName()
	m := &Message{Name: name}
	fq := g.s.Pkg + "." + name
	g.msgDefs[fq] = m
	g.s.Files[0].Messages = append(g.s.Files[0].Messages, m)
	c := &fieldCtx{used: map[string]bool{}, multiOK: true, noMsg: true}
	for i, n := 0, g.intn(0, 2, "nef"); i < n; i++ {
		m.Fields = append(m.Fields, g.plainField(c))
	}
	g.msgs = append(g.msgs, fq)
	return fq
}

// ---- services ---------------------------------------------------------------------

func (g *gen) newService(f *File, usedSvc map[string]bool, only bool) {
	name := pick(g, svcWords, "svcname") + "Service"
	for usedSvc[name] {
		name = "X" + name
	}
	usedSvc[name] = true
	s := &Service{Name: name}
	p := g.p
	if p.BasePaths && g.oneIn(2, "basepath") {
		choices := []string{"/api/v1", "/" + strings.ToLower(name[:3]), "/a/b/c"}
		if p.OddBasePaths {
			choices = append(choices, "/api/", "/")
			if !g.avoid("base_path_no_leading_slash") {
				choices = append(choices, "api", "v1/x/")
			}
		}
		s.BasePath = pick(g, choices, "basepathv")
		g.tagf("base_path")
	}
	if p.Headers && (p.HeaderHeavy && !g.oneIn(5, "nosvcheaders") || !p.HeaderHeavy && g.oneIn(2, "svcheaders")) {
		s.Headers = g.headers(nil)
	}
	nm := 1
	if p.MaxMethods > 1 {
		nm = g.intn(1, p.MaxMethods, "nmethods")
	}
	g.allowVarFirst = only && nm == 1
	usedM := map[string]bool{}
	usedRoutes := map[string]bool{}
	var prevReq, prevResp string
	for i := 0; i < nm; i++ {
		mname := pick(g, methodWords, "mverb") + pick(g, methodTail, "mtail")
		for usedM[mname] || g.usedShort[mname+"Request"] {
			mname += "X"
		}
		if g.methodNames[mname] && g.avoid("same_method_name_across_services") {
			for g.methodNames[mname] || usedM[mname] || g.usedShort[mname+"Request"] {
				mname += "Y"
			}
		}
		if g.methodNames == nil {
			g.methodNames = map[string]bool{}
		}
		g.methodNames[mname] = true
		usedM[mname] = true
		m := &Method{Name: mname}
		if p.Headers && (p.HeaderHeavy && !g.oneIn(3, "nomheaders") || !p.HeaderHeavy && g.oneIn(3, "mheaders")) {
			m.Headers = g.headers(s.Headers)
		}
		if p.SharedRequest && prevReq != "" && g.oneIn(4, "sharereq") {
			// share messages with the previous method; transport must then be body-verb default
			m.Input, m.Output = prevReq, prevResp
			m.HasConfig = p.Transport
			if p.Transport {
				m.Verb = int32(pick(g, []int{0, 2, 3, 5}, "sharedverb"))
				m.Path = g.staticPath(usedRoutes, VerbName(m.Verb), s)
			}
			g.tagf("shared_request")
			s.Methods = append(s.Methods, m)
			continue
		}
		g.buildMethod(f, s, m, usedRoutes)
		prevReq, prevResp = m.Input, m.Output
		s.Methods = append(s.Methods, m)
	}
	f.Services = append(f.Services, s)
}

func (g *gen) staticPath(used map[string]bool, verb string, s *Service) string {
	for try := 0; ; try++ {
		n := g.intn(1, 2, "nseg")
		var segs []string
		for i := 0; i < n; i++ {
			segs = append(segs, pick(g, pathSegs, "seg"))
		}
		for g.firstSeg[verb+" "+segs[0]] {
			segs[0] = fmt.Sprintf("%s%d", segs[0], len(g.firstSeg))
		}
		g.firstSeg[verb+" "+segs[0]] = true
		if try > 2 {
			segs = append(segs, fmt.Sprintf("r%d", try))
		}
		path := "/" + strings.Join(segs, "/")
		key := verb + " " + path
		if !used[key] {
			used[key] = true
			return path
		}
	}
}

func (g *gen) headers(over []*Header) []*Header {
	n := g.intn(1, 3, "nheaders")
	used := map[string]bool{}
	var out []*Header
	for i := 0; i < n; i++ {
		var name string
		if len(over) > 0 && g.oneIn(2, "override") && !(g.p.TSServer && g.avoid("ts_header_override_not_merged")) {
			name = pick(g, over, "overridden").Name
			if g.oneIn(3, "casevariant") && !g.avoid("header_case_variant_override") {
				name = strings.ToLower(name)
			}
			g.tagf("header_override")
		} else {
			name = pick(g, headerNames, "hname")
			clash := false
			for _, o := range over {
				if strings.EqualFold(o.Name, name) {
					clash = true
				}
			}
			if clash && (g.p.TSServer && g.avoidQuiet("ts_header_override_not_merged") || !strings.EqualFold(name, name)) {
				continue
			}
			if clash && g.avoidQuiet("header_case_variant_override") {
				// an accidental same-name declaration must at least use the same spelling
				for _, o := range over {
					if strings.EqualFold(o.Name, name) {
						name = o.Name
					}
				}
			}
		}
		if used[strings.ToLower(name)] {
			continue
		}
		used[strings.ToLower(name)] = true
		h := &Header{Name: name, Required: g.intn(0, 3, "hreq") != 0}
		h.Type = pick(g, []string{"string", "string", "integer", "number", "boolean", "array", ""}, "htype")
		if h.Type == "string" || h.Type == "" {
			h.Format = pick(g, []string{"", "", "uuid", "email", "date-time", "date", "time"}, "hformat")
		}
		if g.oneIn(3, "hdesc") {
			h.Description = "the " + name + " header"
			if g.p.HostileText && g.oneIn(2, "hdeschostile") && !g.avoid("header_text_unescaped") {
				// free text: quotes, backslashes, line breaks, template syntax
				h.Description = pick(g, []string{"the \"tenant\" id", "path C:\\temp", "line one\nline two", "cost ${amount} `now`", "ends with backslash \\", "*/ not a comment /*"}, "hdescval")
				g.tagf("header_text:hostile")
			}
		}
		if g.oneIn(4, "hexample") {
			h.Example = "example-1"
			if (h.Type == "string" || h.Type == "") && g.oneIn(2, "hexhostile") && !g.avoid("header_example_untagged_yaml_scalar") {
				h.Example = pick(g, yamlHostile, "hexval")
				g.tagf("header_example:yaml_hostile")
			}
		}
		h.Deprecated = g.oneIn(8, "hdeprecated")
		out = append(out, h)
	}
	return out
}

// buildMethod creates request/response messages and the transport config.
func (g *gen) buildMethod(f *File, s *Service, m *Method, usedRoutes map[string]bool) {
	p := g.p
	reqName := g.uniqueShort(m.Name + "Request")
	respName := g.uniqueShort(m.Name + "Response")
	req := &Message{Name: reqName}
	resp := &Message{Name: respName}
	reqFQ, respFQ := g.s.Pkg+"."+reqName, g.s.Pkg+"."+respName
	g.msgDefs[reqFQ], g.msgDefs[respFQ] = req, resp
	m.Input, m.Output = reqFQ, respFQ
	rc := &fieldCtx{used: map[string]bool{}, multiOK: true}

	verb := int32(0)
	if p.Transport {
		if p.DefaultPaths && g.oneIn(4, "noconfig") && !g.avoid("default_path_disagreement") {
			g.tagf("transport:no_config")
		} else {
			m.HasConfig = true
			verb = int32(g.intn(0, 5, "verb"))
			m.Verb = verb
		}
	}
	vname := VerbName(verb)
	bodyVerb := vname == "POST" || vname == "PUT" || vname == "PATCH"
	g.tagf("verb:%s", vname)

	// path variables
	var pathVars []*Field
	if m.HasConfig && !(p.DefaultPaths && g.oneIn(4, "nopath") && !g.avoid("default_path_disagreement")) {
		nv := g.intn(0, 3, "npathvars")
		for i := 0; i < nv; i++ {
			k := pick(g, URLKinds, "pathkind")
			if g.oneIn(2, "pathstr") {
				k = KString
			}
			fl := &Field{Name: g.fieldName(rc.used, true), Number: g.nextNum(rc), Kind: k, Card: Singular}
			if !bodyVerb && p.feat("int64") && is64(k) && g.oneIn(3, "pathi64num") {
				fl.EnsureAnn().Int64Encoding = 2
				g.tagf("path_var:int64_number")
			}
			pathVars = append(pathVars, fl)
			req.Fields = append(req.Fields, fl)
			g.tagf("path_var:%s", k)
		}
		// template
		for try := 0; ; try++ {
			var segs []string
			// net/http's ServeMux refuses ambiguous patterns: give every route of the schema a
			// distinct literal first segment per verb; a variable-first route is only drawn when
			// it is the first route of its verb in the schema and then blocks further ones
			varFirst := len(pathVars) > 0 && g.allowVarFirst && g.oneIn(2, "varfirst")
			if !varFirst {
				first := pick(g, pathSegs, "seg0")
				for g.firstSeg[vname+" "+first] {
					first = fmt.Sprintf("%s%d", first, len(g.firstSeg))
				}
				g.firstSeg[vname+" "+first] = true
				segs = append(segs, first)
			}
			for i, v := range pathVars {
				segs = append(segs, "{"+v.Name+"}")
				if i < len(pathVars)-1 && !g.oneIn(3, "adjacentseg") {
					segs = append(segs, pick(g, pathSegs, "segmid"))
				}
			}
			if g.oneIn(3, "trailseg") {
				segs = append(segs, pick(g, pathSegs, "segend"))
			}
			if try > 2 {
				segs = append(segs, fmt.Sprintf("r%d", try))
			}
			path := "/" + strings.Join(segs, "/")
			// route uniqueness key: verb + template with variables anonymised
			key := vname + " " + anonymise(path)
			if usedRoutes[key] {
				continue
			}
			usedRoutes[key] = true
			m.Path = path
			break
		}
		if len(pathVars) > 0 {
			g.tagf("path_vars:%d", len(pathVars))
		}
	} else if m.HasConfig {
		g.tagf("transport:verb_only")
	}

	// query fields
	nq := 0
	if p.Transport && m.HasConfig && (!bodyVerb || p.QueryOnBody) {
		nq = g.intn(0, 3, "nquery")
	}
	for i := 0; i < nq; i++ {
		k := pick(g, URLKinds, "querykind")
		fl := &Field{Name: g.fieldName(rc.used, true), Number: g.nextNum(rc), Kind: k, Card: Singular}
		if p.RepeatedQuery && g.oneIn(4, "repquery") && (p.NoClient || !g.avoid("query_repeated")) {
			fl.Card = Repeated
			g.tagf("query:repeated")
		}
		q := &Query{}
		if g.oneIn(2, "qname") {
			q.Name = pick(g, []string{"q", "page", "limit", "sort_by", "filter.name", "x-y", "Q"}, "qnamev") + fmt.Sprint(i)
		}
		q.Required = g.oneIn(4, "qreq")
		if q.Required && bodyVerb && !p.NoClient && g.avoid("required_query_on_body_verb") {
			q.Required = false
		}
		fl.EnsureAnn().Query = q
		// a URL-bound 64-bit field may also carry int64_encoding=NUMBER (bodiless verbs only: the request
		// message has no other codec feature there)
		if !bodyVerb && fl.Card == Singular && p.feat("int64") && is64(k) && g.oneIn(3, "queryi64num") {
			fl.Ann.Int64Encoding = 2
			g.tagf("query:int64_number")
		}
		req.Fields = append(req.Fields, fl)
		g.tagf("query:%s", k)
	}
	if bodyVerb {
		// body fields: anything
		g.fillMessage(req, reqFQ, rc)
	}
	respC := &fieldCtx{used: map[string]bool{}, multiOK: true}
	if !g.unwrapRoot(resp, respFQ) {
		g.fillMessage(resp, respFQ, respC)
		g.unwrapMapValue(resp, respFQ, respC)
	}
	if bodyVerb {
		g.unwrapMapValue(req, reqFQ, rc)
	}
	if p.Rules {
		g.addRules(req)
		// rules on messages the request refers to: nested / repeated / map field paths
		for _, fl := range req.Fields {
			if fl.Kind == KMessage && g.msgDefs[fl.TypeRef] != nil && !g.ruled[fl.TypeRef] {
				if g.ruled == nil {
					g.ruled = map[string]bool{}
				}
				g.ruled[fl.TypeRef] = true
				g.addRules(g.msgDefs[fl.TypeRef])
				g.tagf("rules:nested:%s", fl.Card)
			}
		}
	}
	if p.Examples {
		g.addExamples(resp)
	}
	f.Messages = append(f.Messages, req, resp)
}

func anonymise(path string) string {
	var b strings.Builder
	in := false
	for _, r := range path {
		switch {
		case r == '{':
			in = true
			b.WriteString("{}")
		case r == '}':
			in = false
		case !in:
			b.WriteRune(r)
		}
	}
	return b.String()
}

// splitFiles optionally moves some data messages to a second file of the same package.
func (g *gen) splitFiles(main *File) {
	if !g.p.SecondFile || !g.oneIn(2, "secondfile") {
		return
	}
	// Move leaf data messages (those not referencing later messages) — moving any data message is
	// legal since proto imports may be mutual only if acyclic: we move a prefix of the data messages
	// that only reference enums/messages also moved. Simplest sound choice: move messages whose
	// fields reference no message types and no enums, so the second file imports nothing.
	second := &File{Name: g.s.ID + "/types.proto", Generate: true}
	var keep []*Message
	for _, m := range main.Messages {
		// wrappers of unwrap fields are moved more often: cross-file unwrap resolution is a code path of its own
		wrapper := len(m.Fields) == 1 && m.Fields[0].Ann != nil && m.Fields[0].Ann.Unwrap
		if strings.HasSuffix(m.Name, "Request") || strings.HasSuffix(m.Name, "Response") || !leaf(m) || !(g.bool("movemsg") || (wrapper && g.bool("movewrapper"))) {
			keep = append(keep, m)
			continue
		}
		second.Messages = append(second.Messages, m)
	}
	if len(second.Messages) == 0 {
		return
	}
	main.Messages = keep
	g.s.Files = append(g.s.Files, second)
	g.tagf("second_file")
}

func leaf(m *Message) bool {
	if len(m.Nested) > 0 || len(m.Enums) > 0 {
		return false
	}
	for _, f := range m.Fields {
		if f.Kind == KEnum || f.Kind == KMessage {
			return false
		}
	}
	return true
}

// ---- rules & examples ---------------------------------------------------------------

func u64p(v uint64) *uint64 { return &v }
func strp(v string) *string { return &v }

func (g *gen) addRules(m *Message) {
	for _, f := range m.Fields {
		if f.Oneof != "" || !g.oneIn(2, "rule?") {
			continue
		}
		r := &Rules{}
		switch {
		case f.Card == Repeated:
			lo := uint64(g.intn(0, 2, "minitems"))
			r.MinItems = u64p(lo)
			if g.bool("maxitems") {
				r.MaxItems = u64p(lo + uint64(g.intn(0, 3, "maxitemsd")))
			}
		case f.Card == Map:
			r.MinPairs = u64p(uint64(g.intn(0, 2, "minpairs")))
		case f.Card != Singular:
			continue
		case f.Kind == KString && g.p.HostileText && g.oneIn(3, "strin") && !g.avoid("rules_untagged_yaml_scalars"):
			// an `in` list of strings that YAML readers may take for something else
			for i, n := 0, g.intn(1, 3, "nstrin"); i < n; i++ {
				v := pick(g, yamlHostile, "strinval")
				dup := false
				for _, o := range r.StrIn {
					dup = dup || o == v
				}
				if !dup {
					r.StrIn = append(r.StrIn, v)
				}
			}
			g.tagf("rules:string_in_yaml_hostile")
		case f.Kind == KString:
			lo := uint64(g.intn(0, 3, "minlen"))
			r.MinLen = u64p(lo)
			if g.bool("maxlen") {
				r.MaxLen = u64p(lo + uint64(g.intn(0, 8, "maxlend")))
			}
		case f.Kind.IsInt():
			lo := g.intn(0, 10, "gte")
			if f.Kind.IsUnsigned() || g.bool("gtepos") {
				r.Gte = strp(fmt.Sprint(lo))
			} else {
				r.Gte = strp(fmt.Sprint(-lo))
			}
			if g.bool("lte") {
				r.Lte = strp(fmt.Sprint(lo + g.intn(0, 100, "lted")))
			}
		case f.Kind.IsFloat():
			r.Gte = strp("0")
			if g.bool("flte") {
				r.Lte = strp("100.5")
			}
		default:
			continue
		}
		f.Rules = r
		g.tagf("rules")
	}
}

func (g *gen) addExamples(m *Message) {
	for _, f := range m.Fields {
		if f.Card != Singular || f.Oneof != "" || !g.oneIn(2, "examples?") {
			continue
		}
		var ex []string
		switch {
		case f.Kind == KString:
			ex = []string{"alpha", "beta gamma", "δ"}
			if g.p.HostileText && g.oneIn(3, "exhostile") && !g.avoid("example_text_unescaped") {
				ex = append(ex, pick(g, []string{"say \"hi\"", "C:\\temp", "a\nb", "${x} `y`", "back\\"}, "exhostileval"))
				g.tagf("examples:hostile_text")
			}
			if !g.p.MockShape && g.oneIn(3, "yamlhostile") && !g.avoid("examples_untagged_yaml_scalars") {
				ex = append(ex, pick(g, yamlHostile, "hostileex"))
				g.tagf("examples:yaml_hostile")
			}
		case f.Kind.IsInt():
			if f.Kind != KInt64 && f.Kind != KInt32 && g.avoid("mock_examples_unhandled_kinds") {
				continue
			}
			ex = []string{"7", "13"}
			if g.oneIn(3, "badex") && !g.avoid("mock_unparsable_example_default") {
				ex = append([]string{"not-a-number"}, ex...)
			}
		case f.Kind.IsFloat():
			ex = []string{"1.5", "2"}
		case f.Kind == KBool:
			ex = []string{"true"}
		default:
			continue
		}
		f.EnsureAnn().Examples = ex
		g.tagf("examples")
	}
}

// ---- unwrap ------------------------------------------------------------------------------

// wrapperMessage creates W{repeated X items = 1 [unwrap]} and returns its fq name.
func (g *gen) wrapperMessage() string {
	name := g.uniqueShort(pick(g, []string{"ItemList", "Bars", "Points", "TagList"}, "wrapname"))
	m := &Message{Name: name}
	fq := g.s.Pkg + "." + name
	g.msgDefs[fq] = m
	g.s.Files[0].Messages = append(g.s.Files[0].Messages, m)
	f := &Field{Name: pick(g, []string{"items", "values", "bar_list"}, "wrapfield"), Number: 1, Card: Repeated}
	if g.bool("wrapmsgelem") && len(g.childCandidates()) > 0 {
		f.Kind, f.TypeRef = KMessage, pick(g, g.childCandidates(), "wrapelem")
	} else {
		f.Kind = g.unwrapScalarKind()
	}
	f.EnsureAnn().Unwrap = true
	m.Fields = []*Field{f}
	g.feature[fq] = "unwrap"
	return fq
}

// unwrapRoot optionally turns resp into a root-unwrap message (single repeated or map field).
func (g *gen) unwrapRoot(m *Message, fq string) bool {
	p := g.p
	switch {
	case p.feat("unwrap_root_list") && g.oneIn(6, "f:unwrap_root_list"):
		f := &Field{Name: pick(g, []string{"items", "results", "data_points"}, "rootfield"), Number: 1, Card: Repeated}
		if g.bool("rootmsgelem") && len(g.childCandidates()) > 0 {
			f.Kind, f.TypeRef = KMessage, pick(g, g.childCandidates(), "rootelem")
		} else {
			f.Kind = g.unwrapScalarKind()
		}
		f.EnsureAnn().Unwrap = true
		m.Fields = []*Field{f}
		g.feature[fq] = "unwrap_root_list"
		g.tagf("feat:unwrap_root_list")
		return true
	case p.feat("unwrap_root_map") && g.oneIn(5, "f:unwrap_root_map"):
		f := &Field{Name: pick(g, []string{"entries", "by_key"}, "rootmapfield"), Number: 1, Card: Map, MapKey: KString}
		if g.oneIn(3, "rootmapkey") {
			f.MapKey = pick(g, MapKeyKinds, "rootmapkeykind")
		}
		switch {
		case p.feat("unwrap_combined") && g.bool("combined"):
			f.Kind, f.TypeRef = KMessage, g.wrapperMessage()
			g.tagf("feat:unwrap_combined")
		case g.bool("rootmapmsg") && len(g.childCandidates()) > 0:
			f.Kind, f.TypeRef = KMessage, pick(g, g.childCandidates(), "rootmapval")
		default:
			f.Kind = g.unwrapScalarKind()
		}
		if f.Kind == KMessage && f.MapKey != KString && g.avoid("unwrap_root_map_nonstring_key") {
			f.MapKey = KString
		}
		if f.Kind != KMessage && f.MapKey == KBool && g.avoid("unwrap_scalar_json") {
			f.MapKey = KString
		}
		f.EnsureAnn().Unwrap = true
		m.Fields = []*Field{f}
		g.feature[fq] = "unwrap_root_map"
		g.tagf("feat:unwrap_root_map")
		return true
	}
	return false
}

// unwrapMapValue optionally adds a map field whose value type is an unwrap wrapper.
func (g *gen) unwrapMapValue(m *Message, fq string, c *fieldCtx) {
	if !g.p.feat("unwrap_map_value") || !g.oneIn(2, "f:unwrap_map_value") {
		return
	}
	if g.feature[fq] != "" && (!g.p.MultiFeature || g.avoid("multi_feature")) {
		return
	}
	if !compilableSiblings(m) && g.avoid("unwrap_container_siblings") {
		return
	}
	if !simpleSiblings(m) && g.avoid("unwrap_container_siblings_json") {
		return
	}
	f := &Field{Name: g.fieldName(c.used, c.multiOK), Number: g.nextNum(c), Kind: KMessage, TypeRef: g.wrapperMessage(), Card: Map, MapKey: KString}
	m.Fields = append(m.Fields, f)
	if g.feature[fq] == "" {
		g.feature[fq] = "unwrap_map_value"
	} else {
		g.feature[fq] += "+unwrap_map_value"
	}
	g.tagf("feat:unwrap_map_value")
}

// compilableSiblings reports whether no field of m is one of the shapes for which the unwrap map-value
// container emits code that does not compile (KF-C13-6): proto3 optional, oneof member, Timestamp.
func compilableSiblings(m *Message) bool {
	for _, f := range m.Fields {
		if f.Card == Optional || f.Oneof != "" || f.Kind == KTimestamp {
			return false
		}
	}
	return true
}

// simpleSiblings reports whether every field of m is a singular implicit-presence string, bool or
// 32-bit integer: the only siblings the unwrap map-value container handles like proto3 JSON.
func simpleSiblings(m *Message) bool {
	for _, f := range m.Fields {
		if f.Card != Singular || f.Oneof != "" {
			return false
		}
		switch f.Kind {
		case KString, KBool, KInt32, KUint32, KSint32, KFixed32, KSfixed32:
		default:
			return false
		}
	}
	return true
}

// unwrapScalarKind draws the element kind of an unwrapped scalar collection.
func (g *gen) unwrapScalarKind() Kind {
	if g.avoid("unwrap_scalar_json") {
		return pick(g, []Kind{KString, KBool, KInt32, KUint32, KSint32, KFixed32, KSfixed32, KBytes, KString}, "unwrapkind")
	}
	if g.p.Stratified {
		// every scalar kind in turn: the emitted element decoders have one branch per kind
		g.wrapSeq++
		return ScalarKinds[(g.stratum+g.wrapSeq*4)%len(ScalarKinds)]
	}
	return g.scalarKind()
}

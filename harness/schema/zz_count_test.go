package schema

import (
	"fmt"
	"strings"
	"testing"

	"pgregory.net/rapid"
)

func TestZZCount(t *testing.T) {
	avoid := map[string]string{"annotated_nested": "KF", "enum_value_custom": "KF", "flatten_in_requests": "KF", "child_encoding_json": "k", "unwrap_scalar_json": "k", "enum_number": "k"}
	prof := ProfileContract(avoid)
	nested, ts := 0, 0
	for i := 0; i < 48; i++ {
		id := fmt.Sprintf("y%04d", i)
		s := rapid.Custom(func(t *rapid.T) *Schema { return Generate(t, prof, id) }).Example(i + 1000)
		for _, f := range s.Files {
			for _, m := range f.Messages {
				for _, n := range m.Nested {
					if strings.HasSuffix(n.Name, "Response") {
						nested++
						for _, fl := range n.Fields {
							if fl.Ann != nil && fl.Ann.TimestampFormat != 0 {
								ts++
								fmt.Println(id, m.Name, n.Name, fl.Name, fl.Ann.TimestampFormat, fl.Card)
							}
						}
					}
				}
			}
		}
	}
	fmt.Println("nested responses", nested, "with ts", ts)
}

package schema

import (
	"fmt"
	"testing"

	"pgregory.net/rapid"
)

func TestZZCount(t *testing.T) {
	avoid := map[string]string{"multi_feature": "k"}
	prof := ProfileFull(avoid)
	tags := map[string]int{}
	for i := 0; i < 150; i++ {
		s := rapid.Custom(func(t *rapid.T) *Schema { return Generate(t, prof, "c0001") }).Example(i + 1000)
		for _, tg := range s.Tags {
			tags[tg]++
		}
	}
	for _, k := range []string{"enum_value", "enum_value:hostile_text", "enum_value_field", "feat:enum_value"} {
		fmt.Println(k, tags[k])
	}
}

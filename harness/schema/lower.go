package schema

import (
	"fmt"
	"math"
	"sort"
	"strconv"
	"strings"

	"buf.build/gen/go/bufbuild/protovalidate/protocolbuffers/go/buf/validate"
	sebufhttp "github.com/SebastienMelki/sebuf/http"
	"google.golang.org/protobuf/proto"
	"google.golang.org/protobuf/reflect/protodesc"
	"google.golang.org/protobuf/reflect/protoreflect"
	"google.golang.org/protobuf/reflect/protoregistry"
	"google.golang.org/protobuf/types/descriptorpb"
	_ "google.golang.org/protobuf/types/known/anypb"
	_ "google.golang.org/protobuf/types/known/durationpb"
	_ "google.golang.org/protobuf/types/known/emptypb"
	_ "google.golang.org/protobuf/types/known/structpb"
	_ "google.golang.org/protobuf/types/known/timestamppb"
	_ "google.golang.org/protobuf/types/known/wrapperspb"
	"google.golang.org/protobuf/types/pluginpb"
)

const (
	pathDescriptor  = "google/protobuf/descriptor.proto"
	pathTimestamp   = "google/protobuf/timestamp.proto"
	pathDuration    = "google/protobuf/duration.proto"
	pathFieldMask   = "google/protobuf/field_mask.proto"
	pathValidate    = "buf/validate/validate.proto"
	pathAnnotations = "sebuf/http/annotations.proto"
	pathHeaders     = "sebuf/http/headers.proto"
	pathErrors      = "sebuf/http/errors.proto"
)

// wellKnownFiles returns the FileDescriptorProtos of the fixed dependencies in
// topological order, with sebuf's files renamed to the path a user imports.
func wellKnownFiles() []*descriptorpb.FileDescriptorProto {
	get := func(reg, as string) *descriptorpb.FileDescriptorProto {
		fd, err := protoregistry.GlobalFiles.FindFileByPath(reg)
		if err != nil {
			panic(fmt.Sprintf("well-known file %s not linked: %v", reg, err))
		}
		p := protodesc.ToFileDescriptorProto(fd)
		p.Name = proto.String(as)
		return p
	}
	return []*descriptorpb.FileDescriptorProto{
		get(pathDescriptor, pathDescriptor),
		get(pathDuration, pathDuration),
		get(pathFieldMask, pathFieldMask),
		get(pathTimestamp, pathTimestamp),
		get("google/protobuf/any.proto", "google/protobuf/any.proto"),
		get("google/protobuf/empty.proto", "google/protobuf/empty.proto"),
		get("google/protobuf/struct.proto", "google/protobuf/struct.proto"),
		get("google/protobuf/wrappers.proto", "google/protobuf/wrappers.proto"),
		get(pathValidate, pathValidate),
		get("proto/"+pathAnnotations, pathAnnotations),
		get("proto/"+pathHeaders, pathHeaders),
		get("proto/"+pathErrors, pathErrors),
	}
}

// JSONName is protoc's default json_name algorithm.
func JSONName(s string) string {
	var b strings.Builder
	up := false
	for _, r := range s {
		if r == '_' {
			up = true
			continue
		}
		if up && r >= 'a' && r <= 'z' {
			r = r - 'a' + 'A'
		}
		up = false
		b.WriteRune(r)
	}
	return b.String()
}

// mapEntryName is protoc's name for the synthetic map entry message.
func mapEntryName(field string) string {
	var b strings.Builder
	up := true
	for _, r := range field {
		if r == '_' {
			up = true
			continue
		}
		if up && r >= 'a' && r <= 'z' {
			r = r - 'a' + 'A'
		}
		up = false
		b.WriteRune(r)
	}
	return b.String() + "Entry"
}

var kindType = map[Kind]descriptorpb.FieldDescriptorProto_Type{
	KDouble:    descriptorpb.FieldDescriptorProto_TYPE_DOUBLE,
	KFloat:     descriptorpb.FieldDescriptorProto_TYPE_FLOAT,
	KInt32:     descriptorpb.FieldDescriptorProto_TYPE_INT32,
	KInt64:     descriptorpb.FieldDescriptorProto_TYPE_INT64,
	KUint32:    descriptorpb.FieldDescriptorProto_TYPE_UINT32,
	KUint64:    descriptorpb.FieldDescriptorProto_TYPE_UINT64,
	KSint32:    descriptorpb.FieldDescriptorProto_TYPE_SINT32,
	KSint64:    descriptorpb.FieldDescriptorProto_TYPE_SINT64,
	KFixed32:   descriptorpb.FieldDescriptorProto_TYPE_FIXED32,
	KFixed64:   descriptorpb.FieldDescriptorProto_TYPE_FIXED64,
	KSfixed32:  descriptorpb.FieldDescriptorProto_TYPE_SFIXED32,
	KSfixed64:  descriptorpb.FieldDescriptorProto_TYPE_SFIXED64,
	KBool:      descriptorpb.FieldDescriptorProto_TYPE_BOOL,
	KString:    descriptorpb.FieldDescriptorProto_TYPE_STRING,
	KBytes:     descriptorpb.FieldDescriptorProto_TYPE_BYTES,
	KEnum:      descriptorpb.FieldDescriptorProto_TYPE_ENUM,
	KMessage:   descriptorpb.FieldDescriptorProto_TYPE_MESSAGE,
	KTimestamp: descriptorpb.FieldDescriptorProto_TYPE_MESSAGE,
}

type lowerer struct {
	s    *Schema
	deps map[string]bool // per-file import set being built
	// fq type name -> defining file name (for cross-file imports)
	typeFile map[string]string
}

// Lower converts the schema to FileDescriptorProtos (schema files only, in
// dependency order: files are ordered so that a file precedes its importers).
func (s *Schema) Lower() ([]*descriptorpb.FileDescriptorProto, error) {
	l := &lowerer{s: s, typeFile: map[string]string{}}
	for _, f := range s.Files {
		pkg := s.FilePkg(f)
		for _, e := range f.Enums {
			l.typeFile[join(pkg, e.Name)] = f.Name
		}
		var walk func(prefix string, ms []*Message)
		walk = func(prefix string, ms []*Message) {
			for _, m := range ms {
				fq := join(prefix, m.Name)
				l.typeFile[fq] = f.Name
				for _, e := range m.Enums {
					l.typeFile[join(fq, e.Name)] = f.Name
				}
				walk(fq, m.Nested)
			}
		}
		walk(pkg, f.Messages)
	}
	byName := map[string]*descriptorpb.FileDescriptorProto{}
	var out []*descriptorpb.FileDescriptorProto
	for _, f := range s.Files {
		fd, err := l.lowerFile(f)
		if err != nil {
			return nil, err
		}
		byName[f.Name] = fd
		out = append(out, fd)
	}
	// topological order among schema files
	var ordered []*descriptorpb.FileDescriptorProto
	done := map[string]bool{}
	var visit func(fd *descriptorpb.FileDescriptorProto, stack map[string]bool) error
	visit = func(fd *descriptorpb.FileDescriptorProto, stack map[string]bool) error {
		if done[fd.GetName()] {
			return nil
		}
		if stack[fd.GetName()] {
			return fmt.Errorf("import cycle through %s", fd.GetName())
		}
		stack[fd.GetName()] = true
		for _, d := range fd.Dependency {
			if dep, ok := byName[d]; ok {
				if err := visit(dep, stack); err != nil {
					return err
				}
			}
		}
		done[fd.GetName()] = true
		ordered = append(ordered, fd)
		return nil
	}
	for _, fd := range out {
		if err := visit(fd, map[string]bool{}); err != nil {
			return nil, err
		}
	}
	return ordered, nil
}

func (l *lowerer) lowerFile(f *File) (*descriptorpb.FileDescriptorProto, error) {
	l.deps = map[string]bool{}
	fd := &descriptorpb.FileDescriptorProto{
		Name:   proto.String(f.Name),
		Syntax: proto.String("proto3"),
	}
	pkg := l.s.FilePkg(f)
	if pkg != "" {
		fd.Package = proto.String(pkg)
	}
	if !f.NoGoPkg {
		gp, gn := l.s.GoPath, l.s.GoPkg
		if f.GoPath != "" {
			gp = f.GoPath
		}
		if f.GoPkg != "" {
			gn = f.GoPkg
		}
		fd.Options = &descriptorpb.FileOptions{GoPackage: proto.String(gp + ";" + gn)}
	}
	for _, e := range f.Enums {
		fd.EnumType = append(fd.EnumType, l.lowerEnum(e))
	}
	for _, m := range f.Messages {
		md, err := l.lowerMessage(f, m, join(pkg, m.Name))
		if err != nil {
			return nil, err
		}
		fd.MessageType = append(fd.MessageType, md)
	}
	for _, s := range f.Services {
		fd.Service = append(fd.Service, l.lowerService(f, s))
	}
	deps := make([]string, 0, len(l.deps))
	for d := range l.deps {
		if d != f.Name {
			deps = append(deps, d)
		}
	}
	sort.Strings(deps)
	fd.Dependency = deps
	return fd, nil
}

func (l *lowerer) lowerEnum(e *Enum) *descriptorpb.EnumDescriptorProto {
	ed := &descriptorpb.EnumDescriptorProto{Name: proto.String(e.Name)}
	for _, v := range e.Values {
		vd := &descriptorpb.EnumValueDescriptorProto{Name: proto.String(v.Name), Number: proto.Int32(v.Number)}
		if v.Custom != "" {
			vd.Options = &descriptorpb.EnumValueOptions{}
			proto.SetExtension(vd.Options, sebufhttp.E_EnumValue, v.Custom)
			l.deps[pathAnnotations] = true
		}
		ed.Value = append(ed.Value, vd)
	}
	return ed
}

// wktFile maps well-known type names to their defining file.
var wktFile = map[string]string{
	"google.protobuf.Timestamp": pathTimestamp, "google.protobuf.Duration": pathDuration, "google.protobuf.FieldMask": pathFieldMask,
	"google.protobuf.Any": "google/protobuf/any.proto", "google.protobuf.Empty": "google/protobuf/empty.proto",
	"google.protobuf.Struct": "google/protobuf/struct.proto", "google.protobuf.Value": "google/protobuf/struct.proto",
	"google.protobuf.ListValue":   "google/protobuf/struct.proto",
	"google.protobuf.StringValue": "google/protobuf/wrappers.proto", "google.protobuf.Int64Value": "google/protobuf/wrappers.proto",
	"google.protobuf.BoolValue": "google/protobuf/wrappers.proto", "google.protobuf.DoubleValue": "google/protobuf/wrappers.proto",
	"google.protobuf.BytesValue": "google/protobuf/wrappers.proto", "google.protobuf.UInt32Value": "google/protobuf/wrappers.proto",
}

func (l *lowerer) useType(fq string, f *File) {
	if wf, ok := wktFile[fq]; ok {
		l.deps[wf] = true
		return
	}
	if tf, ok := l.typeFile[fq]; ok && tf != f.Name {
		l.deps[tf] = true
	}
}

func (l *lowerer) lowerMessage(f *File, m *Message, fq string) (*descriptorpb.DescriptorProto, error) {
	md := &descriptorpb.DescriptorProto{Name: proto.String(m.Name)}
	if len(m.CEL) > 0 {
		mr := &validate.MessageRules{}
		for _, c := range m.CEL {
			mr.Cel = append(mr.Cel, &validate.Rule{Id: proto.String(c.ID), Message: proto.String(c.Message), Expression: proto.String(c.Expression)})
		}
		md.Options = &descriptorpb.MessageOptions{}
		proto.SetExtension(md.Options, validate.E_Message, mr)
		l.deps[pathValidate] = true
	}
	oneofIdx := map[string]int32{}
	for i, o := range m.Oneofs {
		od := &descriptorpb.OneofDescriptorProto{Name: proto.String(o.Name)}
		if o.Discriminator != "" || o.HasConfig || o.Flatten {
			od.Options = &descriptorpb.OneofOptions{}
			cfg := &sebufhttp.OneofConfig{Discriminator: o.Discriminator, Flatten: o.Flatten}
			proto.SetExtension(od.Options, sebufhttp.E_OneofConfig, cfg)
			l.deps[pathAnnotations] = true
		}
		md.OneofDecl = append(md.OneofDecl, od)
		oneofIdx[o.Name] = int32(i)
	}
	var synthetic []*descriptorpb.OneofDescriptorProto
	for _, fl := range m.Fields {
		fdp := &descriptorpb.FieldDescriptorProto{
			Name:   proto.String(fl.Name),
			Number: proto.Int32(fl.Number),
			Label:  descriptorpb.FieldDescriptorProto_LABEL_OPTIONAL.Enum(),
		}
		if fl.JSONName != "" {
			fdp.JsonName = proto.String(fl.JSONName)
		} else {
			fdp.JsonName = proto.String(JSONName(fl.Name))
		}
		setType := func(dst *descriptorpb.FieldDescriptorProto, k Kind, ref string) error {
			t, ok := kindType[k]
			if !ok {
				return fmt.Errorf("unknown kind %q", k)
			}
			dst.Type = t.Enum()
			switch k {
			case KTimestamp:
				dst.TypeName = proto.String(".google.protobuf.Timestamp")
				l.deps[pathTimestamp] = true
			case KEnum, KMessage:
				if ref == "" {
					return fmt.Errorf("field %s.%s: missing type_ref", m.Name, fl.Name)
				}
				dst.TypeName = proto.String("." + ref)
				l.useType(ref, f)
			}
			return nil
		}
		switch fl.Card {
		case Map:
			entry := &descriptorpb.DescriptorProto{
				Name:    proto.String(mapEntryName(fl.Name)),
				Options: &descriptorpb.MessageOptions{MapEntry: proto.Bool(true)},
			}
			kf := &descriptorpb.FieldDescriptorProto{Name: proto.String("key"), Number: proto.Int32(1),
				Label: descriptorpb.FieldDescriptorProto_LABEL_OPTIONAL.Enum(), JsonName: proto.String("key")}
			if err := setType(kf, fl.MapKey, ""); err != nil {
				return nil, err
			}
			vf := &descriptorpb.FieldDescriptorProto{Name: proto.String("value"), Number: proto.Int32(2),
				Label: descriptorpb.FieldDescriptorProto_LABEL_OPTIONAL.Enum(), JsonName: proto.String("value")}
			if err := setType(vf, fl.Kind, fl.TypeRef); err != nil {
				return nil, err
			}
			entry.Field = []*descriptorpb.FieldDescriptorProto{kf, vf}
			md.NestedType = append(md.NestedType, entry)
			fdp.Label = descriptorpb.FieldDescriptorProto_LABEL_REPEATED.Enum()
			fdp.Type = descriptorpb.FieldDescriptorProto_TYPE_MESSAGE.Enum()
			fdp.TypeName = proto.String("." + fq + "." + entry.GetName())
		case Repeated:
			fdp.Label = descriptorpb.FieldDescriptorProto_LABEL_REPEATED.Enum()
			if err := setType(fdp, fl.Kind, fl.TypeRef); err != nil {
				return nil, err
			}
		case Optional:
			if err := setType(fdp, fl.Kind, fl.TypeRef); err != nil {
				return nil, err
			}
			fdp.Proto3Optional = proto.Bool(true)
			synthetic = append(synthetic, &descriptorpb.OneofDescriptorProto{Name: proto.String("_" + fl.Name)})
			fdp.OneofIndex = proto.Int32(int32(len(m.Oneofs) + len(synthetic) - 1))
		default:
			if err := setType(fdp, fl.Kind, fl.TypeRef); err != nil {
				return nil, err
			}
			if fl.Oneof != "" {
				idx, ok := oneofIdx[fl.Oneof]
				if !ok {
					return nil, fmt.Errorf("field %s.%s: unknown oneof %q", m.Name, fl.Name, fl.Oneof)
				}
				fdp.OneofIndex = proto.Int32(idx)
			}
		}
		if err := l.fieldOptions(fdp, fl); err != nil {
			return nil, fmt.Errorf("field %s.%s: %w", m.Name, fl.Name, err)
		}
		md.Field = append(md.Field, fdp)
	}
	md.OneofDecl = append(md.OneofDecl, synthetic...)
	for _, e := range m.Enums {
		md.EnumType = append(md.EnumType, l.lowerEnum(e))
	}
	for _, n := range m.Nested {
		nd, err := l.lowerMessage(f, n, fq+"."+n.Name)
		if err != nil {
			return nil, err
		}
		md.NestedType = append(md.NestedType, nd)
	}
	return md, nil
}

func (l *lowerer) fieldOptions(fdp *descriptorpb.FieldDescriptorProto, fl *Field) error {
	opts := &descriptorpb.FieldOptions{}
	used := false
	if a := fl.Ann; a != nil {
		set := func(xt protoreflect.ExtensionType, v any) {
			proto.SetExtension(opts, xt, v)
			used = true
			l.deps[pathAnnotations] = true
		}
		if a.Query != nil {
			set(sebufhttp.E_Query, &sebufhttp.QueryConfig{Name: a.Query.Name, Required: a.Query.Required})
		}
		if a.Unwrap {
			set(sebufhttp.E_Unwrap, true)
		}
		if a.Int64Encoding != 0 {
			set(sebufhttp.E_Int64Encoding, sebufhttp.Int64Encoding(a.Int64Encoding))
		}
		if a.EnumEncoding != 0 {
			set(sebufhttp.E_EnumEncoding, sebufhttp.EnumEncoding(a.EnumEncoding))
		}
		if a.Nullable {
			set(sebufhttp.E_Nullable, true)
		}
		if a.EmptyBehavior != 0 {
			set(sebufhttp.E_EmptyBehavior, sebufhttp.EmptyBehavior(a.EmptyBehavior))
		}
		if a.TimestampFormat != 0 {
			set(sebufhttp.E_TimestampFormat, sebufhttp.TimestampFormat(a.TimestampFormat))
		}
		if a.BytesEncoding != 0 {
			set(sebufhttp.E_BytesEncoding, sebufhttp.BytesEncoding(a.BytesEncoding))
		}
		if a.OneofValue != "" {
			set(sebufhttp.E_OneofValue, a.OneofValue)
		}
		if a.Flatten {
			set(sebufhttp.E_Flatten, true)
		}
		if a.FlattenPrefix != "" {
			set(sebufhttp.E_FlattenPrefix, a.FlattenPrefix)
		}
		if len(a.Examples) > 0 || a.HasExamples {
			set(sebufhttp.E_FieldExamples, &sebufhttp.FieldExamples{Values: a.Examples})
		}
	}
	if r := fl.Rules; r != nil {
		fr, err := lowerRules(fl, r)
		if err != nil {
			return err
		}
		if fr != nil {
			proto.SetExtension(opts, validate.E_Field, fr)
			used = true
			l.deps[pathValidate] = true
		}
	}
	if used {
		fdp.Options = opts
	}
	return nil
}

func (l *lowerer) lowerService(f *File, s *Service) *descriptorpb.ServiceDescriptorProto {
	sd := &descriptorpb.ServiceDescriptorProto{Name: proto.String(s.Name)}
	so := &descriptorpb.ServiceOptions{}
	used := false
	if s.BasePath != "" || s.HasConfig {
		proto.SetExtension(so, sebufhttp.E_ServiceConfig, &sebufhttp.ServiceConfig{BasePath: s.BasePath})
		used = true
		l.deps[pathAnnotations] = true
	}
	if len(s.Headers) > 0 {
		proto.SetExtension(so, sebufhttp.E_ServiceHeaders, &sebufhttp.ServiceHeaders{RequiredHeaders: lowerHeaders(s.Headers)})
		used = true
		l.deps[pathHeaders] = true
	}
	if used {
		sd.Options = so
	}
	for _, m := range s.Methods {
		md := &descriptorpb.MethodDescriptorProto{
			Name:       proto.String(m.Name),
			InputType:  proto.String("." + m.Input),
			OutputType: proto.String("." + m.Output),
		}
		l.useType(m.Input, f)
		l.useType(m.Output, f)
		mo := &descriptorpb.MethodOptions{}
		mused := false
		if m.HasConfig || m.Path != "" || m.Verb != 0 {
			proto.SetExtension(mo, sebufhttp.E_Config, &sebufhttp.HttpConfig{Path: m.Path, Method: sebufhttp.HttpMethod(m.Verb)})
			mused = true
			l.deps[pathAnnotations] = true
		}
		if len(m.Headers) > 0 {
			proto.SetExtension(mo, sebufhttp.E_MethodHeaders, &sebufhttp.MethodHeaders{RequiredHeaders: lowerHeaders(m.Headers)})
			mused = true
			l.deps[pathHeaders] = true
		}
		if mused {
			md.Options = mo
		}
		sd.Method = append(sd.Method, md)
	}
	return sd
}

func lowerHeaders(hs []*Header) []*sebufhttp.Header {
	var out []*sebufhttp.Header
	for _, h := range hs {
		out = append(out, &sebufhttp.Header{Name: h.Name, Description: h.Description, Type: h.Type,
			Required: h.Required, Format: h.Format, Example: h.Example, Deprecated: h.Deprecated})
	}
	return out
}

// ---- buf.validate lowering ---------------------------------------------------

func parseI64(s string) (int64, error)   { return strconv.ParseInt(s, 10, 64) }
func parseU64(s string) (uint64, error)  { return strconv.ParseUint(s, 10, 64) }
func parseF64(s string) (float64, error) { return strconv.ParseFloat(s, 64) }

func lowerRules(fl *Field, r *Rules) (*validate.FieldRules, error) {
	fr := &validate.FieldRules{}
	any := false
	if r.Required {
		fr.Required = proto.Bool(true)
		any = true
	}
	switch fl.Card {
	case Repeated:
		if r.MinItems != nil || r.MaxItems != nil || r.Unique {
			rr := &validate.RepeatedRules{MinItems: r.MinItems, MaxItems: r.MaxItems}
			if r.Unique {
				rr.Unique = proto.Bool(true)
			} else if r.UniqueFalse {
				rr.Unique = proto.Bool(false)
			}
			fr.Type = &validate.FieldRules_Repeated{Repeated: rr}
			any = true
		}
		if !any {
			return nil, nil
		}
		return fr, nil
	case Map:
		if r.MinPairs != nil || r.MaxPairs != nil {
			fr.Type = &validate.FieldRules_Map{Map: &validate.MapRules{MinPairs: r.MinPairs, MaxPairs: r.MaxPairs}}
			any = true
		}
		if !any {
			return nil, nil
		}
		return fr, nil
	}
	switch {
	case fl.Kind == KString:
		sr := &validate.StringRules{MinLen: r.MinLen, MaxLen: r.MaxLen, Len: r.Len, Pattern: r.Pattern,
			In: r.StrIn, NotIn: r.StrNotIn, Const: r.StrConst}
		has := r.MinLen != nil || r.MaxLen != nil || r.Len != nil || r.Pattern != nil || len(r.StrIn) > 0 || len(r.StrNotIn) > 0 || r.StrConst != nil
		switch r.WellKnown {
		case "email":
			sr.WellKnown = &validate.StringRules_Email{Email: true}
		case "uuid":
			sr.WellKnown = &validate.StringRules_Uuid{Uuid: true}
		case "uri":
			sr.WellKnown = &validate.StringRules_Uri{Uri: true}
		case "hostname":
			sr.WellKnown = &validate.StringRules_Hostname{Hostname: true}
		case "ip":
			sr.WellKnown = &validate.StringRules_Ip{Ip: true}
		case "ipv4":
			sr.WellKnown = &validate.StringRules_Ipv4{Ipv4: true}
		case "ipv6":
			sr.WellKnown = &validate.StringRules_Ipv6{Ipv6: true}
		case "address":
			sr.WellKnown = &validate.StringRules_Address{Address: true}
		case "":
		default:
			return nil, fmt.Errorf("unknown well-known %q", r.WellKnown)
		}
		if has || r.WellKnown != "" {
			fr.Type = &validate.FieldRules_String_{String_: sr}
			any = true
		}
	case fl.Kind == KBool:
		if r.BoolConst != nil {
			fr.Type = &validate.FieldRules_Bool{Bool: &validate.BoolRules{Const: r.BoolConst}}
			any = true
		}
	case fl.Kind == KEnum:
		if r.DefinedOnly || len(r.EnumIn) > 0 {
			er := &validate.EnumRules{In: r.EnumIn}
			if r.DefinedOnly {
				er.DefinedOnly = proto.Bool(true)
			}
			fr.Type = &validate.FieldRules_Enum{Enum: er}
			any = true
		}
	case fl.Kind.IsInt() || fl.Kind.IsFloat():
		has := r.Gt != nil || r.Gte != nil || r.Lt != nil || r.Lte != nil || len(r.NumIn) > 0 || len(r.NumNotIn) > 0 || r.NumConst != nil
		if has {
			if err := lowerNumeric(fr, fl.Kind, r); err != nil {
				return nil, err
			}
			any = true
		}
	}
	if !any {
		return nil, nil
	}
	return fr, nil
}

// numeric rule lowering: one block per kind because the generated rule types
// are distinct Go types.
func lowerNumeric(fr *validate.FieldRules, k Kind, r *Rules) error {
	i64 := func(p *string) (*int64, error) {
		if p == nil {
			return nil, nil
		}
		v, err := parseI64(*p)
		return &v, err
	}
	u64 := func(p *string) (*uint64, error) {
		if p == nil {
			return nil, nil
		}
		v, err := parseU64(*p)
		return &v, err
	}
	f64 := func(p *string) (*float64, error) {
		if p == nil {
			return nil, nil
		}
		v, err := parseF64(*p)
		return &v, err
	}
	i64s := func(ss []string) ([]int64, error) {
		var out []int64
		for _, s := range ss {
			v, err := parseI64(s)
			if err != nil {
				return nil, err
			}
			out = append(out, v)
		}
		return out, nil
	}
	u64s := func(ss []string) ([]uint64, error) {
		var out []uint64
		for _, s := range ss {
			v, err := parseU64(s)
			if err != nil {
				return nil, err
			}
			out = append(out, v)
		}
		return out, nil
	}
	f64s := func(ss []string) ([]float64, error) {
		var out []float64
		for _, s := range ss {
			v, err := parseF64(s)
			if err != nil {
				return nil, err
			}
			out = append(out, v)
		}
		return out, nil
	}
	to32 := func(p *int64) *int32 {
		if p == nil {
			return nil
		}
		if *p > math.MaxInt32 || *p < math.MinInt32 {
			panic("int32 rule value out of range")
		}
		v := int32(*p)
		return &v
	}
	tou32 := func(p *uint64) *uint32 {
		if p == nil {
			return nil
		}
		if *p > math.MaxUint32 {
			panic("uint32 rule value out of range")
		}
		v := uint32(*p)
		return &v
	}
	tof32 := func(p *float64) *float32 {
		if p == nil {
			return nil
		}
		v := float32(*p)
		return &v
	}
	s32 := func(xs []int64) []int32 {
		var out []int32
		for _, x := range xs {
			out = append(out, int32(x))
		}
		return out
	}
	su32 := func(xs []uint64) []uint32 {
		var out []uint32
		for _, x := range xs {
			out = append(out, uint32(x))
		}
		return out
	}
	sf32 := func(xs []float64) []float32 {
		var out []float32
		for _, x := range xs {
			out = append(out, float32(x))
		}
		return out
	}
	var err error
	firstErr := func(e error) {
		if err == nil && e != nil {
			err = e
		}
	}
	switch k {
	case KInt32, KSint32, KSfixed32, KInt64, KSint64, KSfixed64:
		gt, e := i64(r.Gt)
		firstErr(e)
		gte, e := i64(r.Gte)
		firstErr(e)
		lt, e := i64(r.Lt)
		firstErr(e)
		lte, e := i64(r.Lte)
		firstErr(e)
		in, e := i64s(r.NumIn)
		firstErr(e)
		notIn, e := i64s(r.NumNotIn)
		firstErr(e)
		c, e := i64(r.NumConst)
		firstErr(e)
		if err != nil {
			return err
		}
		switch k {
		case KInt32:
			x := &validate.Int32Rules{In: s32(in), NotIn: s32(notIn), Const: to32(c)}
			if gt != nil {
				x.GreaterThan = &validate.Int32Rules_Gt{Gt: *to32(gt)}
			}
			if gte != nil {
				x.GreaterThan = &validate.Int32Rules_Gte{Gte: *to32(gte)}
			}
			if lt != nil {
				x.LessThan = &validate.Int32Rules_Lt{Lt: *to32(lt)}
			}
			if lte != nil {
				x.LessThan = &validate.Int32Rules_Lte{Lte: *to32(lte)}
			}
			fr.Type = &validate.FieldRules_Int32{Int32: x}
		case KSint32:
			x := &validate.SInt32Rules{In: s32(in), NotIn: s32(notIn), Const: to32(c)}
			if gt != nil {
				x.GreaterThan = &validate.SInt32Rules_Gt{Gt: *to32(gt)}
			}
			if gte != nil {
				x.GreaterThan = &validate.SInt32Rules_Gte{Gte: *to32(gte)}
			}
			if lt != nil {
				x.LessThan = &validate.SInt32Rules_Lt{Lt: *to32(lt)}
			}
			if lte != nil {
				x.LessThan = &validate.SInt32Rules_Lte{Lte: *to32(lte)}
			}
			fr.Type = &validate.FieldRules_Sint32{Sint32: x}
		case KSfixed32:
			x := &validate.SFixed32Rules{In: s32(in), NotIn: s32(notIn), Const: to32(c)}
			if gt != nil {
				x.GreaterThan = &validate.SFixed32Rules_Gt{Gt: *to32(gt)}
			}
			if gte != nil {
				x.GreaterThan = &validate.SFixed32Rules_Gte{Gte: *to32(gte)}
			}
			if lt != nil {
				x.LessThan = &validate.SFixed32Rules_Lt{Lt: *to32(lt)}
			}
			if lte != nil {
				x.LessThan = &validate.SFixed32Rules_Lte{Lte: *to32(lte)}
			}
			fr.Type = &validate.FieldRules_Sfixed32{Sfixed32: x}
		case KInt64:
			x := &validate.Int64Rules{In: in, NotIn: notIn, Const: c}
			if gt != nil {
				x.GreaterThan = &validate.Int64Rules_Gt{Gt: *gt}
			}
			if gte != nil {
				x.GreaterThan = &validate.Int64Rules_Gte{Gte: *gte}
			}
			if lt != nil {
				x.LessThan = &validate.Int64Rules_Lt{Lt: *lt}
			}
			if lte != nil {
				x.LessThan = &validate.Int64Rules_Lte{Lte: *lte}
			}
			fr.Type = &validate.FieldRules_Int64{Int64: x}
		case KSint64:
			x := &validate.SInt64Rules{In: in, NotIn: notIn, Const: c}
			if gt != nil {
				x.GreaterThan = &validate.SInt64Rules_Gt{Gt: *gt}
			}
			if gte != nil {
				x.GreaterThan = &validate.SInt64Rules_Gte{Gte: *gte}
			}
			if lt != nil {
				x.LessThan = &validate.SInt64Rules_Lt{Lt: *lt}
			}
			if lte != nil {
				x.LessThan = &validate.SInt64Rules_Lte{Lte: *lte}
			}
			fr.Type = &validate.FieldRules_Sint64{Sint64: x}
		case KSfixed64:
			x := &validate.SFixed64Rules{In: in, NotIn: notIn, Const: c}
			if gt != nil {
				x.GreaterThan = &validate.SFixed64Rules_Gt{Gt: *gt}
			}
			if gte != nil {
				x.GreaterThan = &validate.SFixed64Rules_Gte{Gte: *gte}
			}
			if lt != nil {
				x.LessThan = &validate.SFixed64Rules_Lt{Lt: *lt}
			}
			if lte != nil {
				x.LessThan = &validate.SFixed64Rules_Lte{Lte: *lte}
			}
			fr.Type = &validate.FieldRules_Sfixed64{Sfixed64: x}
		}
	case KUint32, KFixed32, KUint64, KFixed64:
		gt, e := u64(r.Gt)
		firstErr(e)
		gte, e := u64(r.Gte)
		firstErr(e)
		lt, e := u64(r.Lt)
		firstErr(e)
		lte, e := u64(r.Lte)
		firstErr(e)
		in, e := u64s(r.NumIn)
		firstErr(e)
		notIn, e := u64s(r.NumNotIn)
		firstErr(e)
		c, e := u64(r.NumConst)
		firstErr(e)
		if err != nil {
			return err
		}
		switch k {
		case KUint32:
			x := &validate.UInt32Rules{In: su32(in), NotIn: su32(notIn), Const: tou32(c)}
			if gt != nil {
				x.GreaterThan = &validate.UInt32Rules_Gt{Gt: *tou32(gt)}
			}
			if gte != nil {
				x.GreaterThan = &validate.UInt32Rules_Gte{Gte: *tou32(gte)}
			}
			if lt != nil {
				x.LessThan = &validate.UInt32Rules_Lt{Lt: *tou32(lt)}
			}
			if lte != nil {
				x.LessThan = &validate.UInt32Rules_Lte{Lte: *tou32(lte)}
			}
			fr.Type = &validate.FieldRules_Uint32{Uint32: x}
		case KFixed32:
			x := &validate.Fixed32Rules{In: su32(in), NotIn: su32(notIn), Const: tou32(c)}
			if gt != nil {
				x.GreaterThan = &validate.Fixed32Rules_Gt{Gt: *tou32(gt)}
			}
			if gte != nil {
				x.GreaterThan = &validate.Fixed32Rules_Gte{Gte: *tou32(gte)}
			}
			if lt != nil {
				x.LessThan = &validate.Fixed32Rules_Lt{Lt: *tou32(lt)}
			}
			if lte != nil {
				x.LessThan = &validate.Fixed32Rules_Lte{Lte: *tou32(lte)}
			}
			fr.Type = &validate.FieldRules_Fixed32{Fixed32: x}
		case KUint64:
			x := &validate.UInt64Rules{In: in, NotIn: notIn, Const: c}
			if gt != nil {
				x.GreaterThan = &validate.UInt64Rules_Gt{Gt: *gt}
			}
			if gte != nil {
				x.GreaterThan = &validate.UInt64Rules_Gte{Gte: *gte}
			}
			if lt != nil {
				x.LessThan = &validate.UInt64Rules_Lt{Lt: *lt}
			}
			if lte != nil {
				x.LessThan = &validate.UInt64Rules_Lte{Lte: *lte}
			}
			fr.Type = &validate.FieldRules_Uint64{Uint64: x}
		case KFixed64:
			x := &validate.Fixed64Rules{In: in, NotIn: notIn, Const: c}
			if gt != nil {
				x.GreaterThan = &validate.Fixed64Rules_Gt{Gt: *gt}
			}
			if gte != nil {
				x.GreaterThan = &validate.Fixed64Rules_Gte{Gte: *gte}
			}
			if lt != nil {
				x.LessThan = &validate.Fixed64Rules_Lt{Lt: *lt}
			}
			if lte != nil {
				x.LessThan = &validate.Fixed64Rules_Lte{Lte: *lte}
			}
			fr.Type = &validate.FieldRules_Fixed64{Fixed64: x}
		}
	case KFloat, KDouble:
		gt, e := f64(r.Gt)
		firstErr(e)
		gte, e := f64(r.Gte)
		firstErr(e)
		lt, e := f64(r.Lt)
		firstErr(e)
		lte, e := f64(r.Lte)
		firstErr(e)
		in, e := f64s(r.NumIn)
		firstErr(e)
		notIn, e := f64s(r.NumNotIn)
		firstErr(e)
		c, e := f64(r.NumConst)
		firstErr(e)
		if err != nil {
			return err
		}
		if k == KFloat {
			x := &validate.FloatRules{In: sf32(in), NotIn: sf32(notIn), Const: tof32(c)}
			if gt != nil {
				x.GreaterThan = &validate.FloatRules_Gt{Gt: *tof32(gt)}
			}
			if gte != nil {
				x.GreaterThan = &validate.FloatRules_Gte{Gte: *tof32(gte)}
			}
			if lt != nil {
				x.LessThan = &validate.FloatRules_Lt{Lt: *tof32(lt)}
			}
			if lte != nil {
				x.LessThan = &validate.FloatRules_Lte{Lte: *tof32(lte)}
			}
			fr.Type = &validate.FieldRules_Float{Float: x}
		} else {
			x := &validate.DoubleRules{In: in, NotIn: notIn, Const: c}
			if gt != nil {
				x.GreaterThan = &validate.DoubleRules_Gt{Gt: *gt}
			}
			if gte != nil {
				x.GreaterThan = &validate.DoubleRules_Gte{Gte: *gte}
			}
			if lt != nil {
				x.LessThan = &validate.DoubleRules_Lt{Lt: *lt}
			}
			if lte != nil {
				x.LessThan = &validate.DoubleRules_Lte{Lte: *lte}
			}
			fr.Type = &validate.FieldRules_Double{Double: x}
		}
	default:
		return fmt.Errorf("numeric rules on kind %s", k)
	}
	return nil
}

// ---- request building ----------------------------------------------------------

// Request builds a CodeGeneratorRequest for the given schemas. Every schema file
// with Generate=true is listed in file_to_generate. The well-known dependency
// files come first, then each schema's files in dependency order.
func Request(param string, schemas ...*Schema) (*pluginpb.CodeGeneratorRequest, error) {
	req := &pluginpb.CodeGeneratorRequest{
		CompilerVersion: &pluginpb.Version{Major: proto.Int32(5), Minor: proto.Int32(29), Patch: proto.Int32(3)},
	}
	if param != "" {
		req.Parameter = proto.String(param)
	}
	req.ProtoFile = append(req.ProtoFile, wellKnownFiles()...)
	for _, s := range schemas {
		fds, err := s.Lower()
		if err != nil {
			return nil, fmt.Errorf("schema %s: %w", s.ID, err)
		}
		gen := map[string]bool{}
		for _, f := range s.Files {
			if f.Generate {
				gen[f.Name] = true
			}
		}
		for _, fd := range fds {
			req.ProtoFile = append(req.ProtoFile, fd)
			if gen[fd.GetName()] {
				req.FileToGenerate = append(req.FileToGenerate, fd.GetName())
			}
		}
	}
	for _, fd := range req.ProtoFile {
		req.SourceFileDescriptors = append(req.SourceFileDescriptors, fd)
	}
	// source_file_descriptors is only for files to generate
	var sfd []*descriptorpb.FileDescriptorProto
	gen := map[string]bool{}
	for _, n := range req.FileToGenerate {
		gen[n] = true
	}
	for _, fd := range req.ProtoFile {
		if gen[fd.GetName()] {
			sfd = append(sfd, fd)
		}
	}
	req.SourceFileDescriptors = sfd
	return req, nil
}

// Gate checks that the request's files form a well-formed descriptor set, the
// way protoc would have ensured. A failure is a generator bug, never a finding.
func Gate(req *pluginpb.CodeGeneratorRequest) (*protoregistry.Files, error) {
	set := &descriptorpb.FileDescriptorSet{File: req.ProtoFile}
	files, err := protodesc.NewFiles(set)
	if err != nil {
		return nil, err
	}
	// rules protoc enforces that protodesc does not
	var check func(prefix string, ms []*descriptorpb.DescriptorProto) error
	check = func(prefix string, ms []*descriptorpb.DescriptorProto) error {
		for _, m := range ms {
			used := make([]int, len(m.OneofDecl))
			for _, f := range m.Field {
				if f.OneofIndex != nil {
					used[f.GetOneofIndex()]++
				}
			}
			for i, n := range used {
				if n == 0 {
					return fmt.Errorf("oneof %s.%s.%s has no fields", prefix, m.GetName(), m.OneofDecl[i].GetName())
				}
			}
			if err := check(prefix+"."+m.GetName(), m.NestedType); err != nil {
				return err
			}
		}
		return nil
	}
	for _, f := range req.ProtoFile {
		if err := check(f.GetPackage(), f.MessageType); err != nil {
			return nil, err
		}
	}
	return files, nil
}

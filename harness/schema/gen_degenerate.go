package schema

import (
	"fmt"
	"strings"

	"pgregory.net/rapid"
)

// GenerateDegenerate draws a well-formed but unusual schema for the termination
// property (C16): type cycles, deep nesting, wide messages, long names, well-known
// types, empty messages/services, files without package or go_package, shared
// request types.
func GenerateDegenerate(t *rapid.T, id string, avoid map[string]string) *Schema {
	base := &Profile{Name: "degenerate", MaxDataMessages: 2, MaxFields: 4, Nested: true, Maps: true, Oneofs: true, Optionals: true,
		Repeateds: true, Enums: true, Timestamps: true, MessageFields: true, MaxServices: 2, MaxMethods: 3, Transport: true,
		BasePaths: true, Headers: true, SharedRequest: true, Avoid: avoid}
	s := Generate(t, base, id)
	s.Profile = "degenerate"
	g := &gen{t: t, p: base, s: s, tag: map[string]bool{}, usedShort: map[string]bool{}}
	for _, tg := range s.Tags {
		g.tag[tg] = true
	}
	main := s.Files[0]
	pkg := s.Pkg
	add := func(m *Message) string {
		main.Messages = append(main.Messages, m)
		return pkg + "." + m.Name
	}
	attach := func(ref string, toResponse bool) {
		// reference the type from a request or response of some method so generators reach it
		var targets []*Message
		for _, m := range main.Messages {
			if toResponse && strings.HasSuffix(m.Name, "Response") {
				targets = append(targets, m)
			}
			if !toResponse && strings.HasSuffix(m.Name, "Request") && bodyRequest(s, pkg+"."+m.Name) {
				targets = append(targets, m)
			}
		}
		if len(targets) == 0 {
			return
		}
		tm := pick(g, targets, "attachto")
		tm.Fields = append(tm.Fields, &Field{Name: fmt.Sprintf("dg_%d", len(tm.Fields)+900), Number: int32(900 + len(tm.Fields)), Kind: KMessage, TypeRef: ref, Card: Singular})
	}
	if g.oneIn(2, "dg:selfrec") {
		card := pick(g, []Card{Singular, Repeated, Map}, "reccard")
		m := &Message{Name: "RecNode"}
		f := &Field{Name: "next", Number: 1, Kind: KMessage, TypeRef: pkg + ".RecNode", Card: card}
		if card == Map {
			f.MapKey = KString
		}
		m.Fields = []*Field{{Name: "label", Number: 2, Kind: KString, Card: Singular}, f}
		if g.bool("recinoneof") {
			m.Oneofs = []*Oneof{{Name: "alt"}}
			m.Fields = append(m.Fields, &Field{Name: "alt_node", Number: 3, Kind: KMessage, TypeRef: pkg + ".RecNode", Card: Singular, Oneof: "alt"},
				&Field{Name: "alt_text", Number: 4, Kind: KString, Card: Singular, Oneof: "alt"})
		}
		ref := add(m)
		resp := g.bool("recresp")
		attach(ref, resp)
		g.tagf("cycle:self:%s", card)
		if resp {
			g.tagf("cycle:in_response")
		}
	}
	if g.oneIn(2, "dg:mutual") {
		n := g.intn(2, 4, "cyclelen")
		for i := 0; i < n; i++ {
			m := &Message{Name: fmt.Sprintf("Cyc%d", i)}
			m.Fields = []*Field{{Name: "peer", Number: 1, Kind: KMessage, TypeRef: fmt.Sprintf("%s.Cyc%d", pkg, (i+1)%n), Card: pick(g, []Card{Singular, Repeated}, "cyccard")},
				{Name: "v", Number: 2, Kind: KInt32, Card: Singular}}
			add(m)
		}
		resp := g.bool("cycresp")
		attach(pkg+".Cyc0", resp)
		g.tagf("cycle:mutual:%d", n)
		if resp {
			g.tagf("cycle:in_response")
		}
	}
	if g.oneIn(3, "dg:deepchain") {
		n := g.intn(8, 60, "chain")
		for i := 0; i < n; i++ {
			m := &Message{Name: fmt.Sprintf("Chain%d", i)}
			if i+1 < n {
				m.Fields = []*Field{{Name: "down", Number: 1, Kind: KMessage, TypeRef: fmt.Sprintf("%s.Chain%d", pkg, i+1), Card: Singular}}
			} else {
				m.Fields = []*Field{{Name: "leaf", Number: 1, Kind: KString, Card: Singular}}
			}
			add(m)
		}
		attach(pkg+".Chain0", g.bool("chainresp"))
		g.tagf("depth:chain>=8")
	}
	if g.oneIn(3, "dg:deepnest") {
		n := g.intn(8, 30, "nest")
		var cur *Message
		fq := pkg
		var top *Message
		for i := 0; i < n; i++ {
			m := &Message{Name: fmt.Sprintf("Nest%d", i), Fields: []*Field{{Name: "v", Number: 1, Kind: KInt64, Card: Singular}}}
			if cur == nil {
				top = m
			} else {
				cur.Nested = append(cur.Nested, m)
				cur.Fields = append(cur.Fields, &Field{Name: "inner", Number: 2, Kind: KMessage, TypeRef: fq + "." + m.Name, Card: Singular})
			}
			fq = fq + "." + m.Name
			cur = m
		}
		add(top)
		attach(pkg+".Nest0", g.bool("nestresp"))
		g.tagf("depth:nested_defs>=8")
	}
	if g.oneIn(4, "dg:wide") {
		n := g.intn(100, 400, "wide")
		m := &Message{Name: "Wide"}
		for i := 0; i < n; i++ {
			m.Fields = append(m.Fields, &Field{Name: fmt.Sprintf("w%d", i), Number: int32(i + 1), Kind: ScalarKinds[i%len(ScalarKinds)], Card: Singular})
		}
		add(m)
		attach(pkg+".Wide", g.bool("wideresp"))
		g.tagf("wide>=100")
	}
	if g.oneIn(4, "dg:long") {
		long := strings.Repeat("very_long_name_segment_", g.intn(10, 60, "longn"))
		m := &Message{Name: "L" + strings.ReplaceAll(long, "_", "X"), Fields: []*Field{{Name: long + "f", Number: 1, Kind: KString, Card: Singular}}}
		ref := add(m)
		attach(ref, g.bool("longresp"))
		g.tagf("long_names")
	}
	if g.oneIn(3, "dg:wkt") {
		m := &Message{Name: "Wkt"}
		wk := []string{"google.protobuf.Duration", "google.protobuf.Any", "google.protobuf.Empty", "google.protobuf.Struct", "google.protobuf.Value",
			"google.protobuf.StringValue", "google.protobuf.Int64Value", "google.protobuf.FieldMask", "google.protobuf.ListValue", "google.protobuf.BoolValue"}
		n := g.intn(1, 5, "nwkt")
		for i := 0; i < n; i++ {
			m.Fields = append(m.Fields, &Field{Name: fmt.Sprintf("k%d", i), Number: int32(i + 1), Kind: KMessage, TypeRef: pick(g, wk, "wkt"),
				Card: pick(g, []Card{Singular, Repeated}, "wktcard")})
		}
		add(m)
		attach(pkg+".Wkt", g.bool("wktresp"))
		g.tagf("wkt")
	}
	if g.oneIn(3, "dg:oddnames") {
		// identifiers that are valid proto but degenerate for name-mangling helpers: doubled, leading and
		// trailing underscores, all-caps, a digit after an underscore
		odd := []string{"user__id", "id_", "_id", "a__b__c", "x_", "__x", "ID", "HTTPCode", "_9z", "z_9_", "_", "a_B_c"}
		for _, m := range main.Messages {
			used := map[string]bool{}
			for _, f := range m.Fields {
				used[f.Name] = true
				used["json:"+strings.ToLower(JSONName(f.Name))] = true
			}
			for _, f := range m.Fields {
				if !g.oneIn(3, "oddfield") {
					continue
				}
				n := pick(g, odd, "oddname")
				if used[n] || used["json:"+strings.ToLower(JSONName(n))] || JSONName(n) == "" {
					continue
				}
				if f.Card == Map && n == "_9z" {
					continue // protoc derives the map entry type name "9zEntry" from it: not a valid definition
				}
				used[n], used["json:"+strings.ToLower(JSONName(n))] = true, true
				for _, sv := range main.Services {
					for _, me := range sv.Methods {
						if me.Input == pkg+"."+m.Name {
							me.Path = strings.ReplaceAll(me.Path, "{"+f.Name+"}", "{"+n+"}")
						}
					}
				}
				f.Name = n
				g.tagf("odd_identifiers")
			}
		}
	}
	if g.oneIn(4, "dg:empties") {
		add(&Message{Name: "Hollow"})
		attach(pkg+".Hollow", g.bool("hollowresp"))
		main.Services = append(main.Services, &Service{Name: "NoMethodsService"})
		g.tagf("empty_service")
	}
	if g.oneIn(5, "dg:emptyrpc") {
		main.Services = append(main.Services, &Service{Name: "EmptyIOService", Methods: []*Method{{Name: "Ping", Input: "google.protobuf.Empty", Output: "google.protobuf.Empty"}}})
		g.tagf("wkt_empty_rpc")
	}
	if g.oneIn(6, "dg:nopkg") {
		if avoid["file_without_go_package"] == "" && g.bool("nogopkg") {
			main.NoGoPkg = true
			g.tagf("no_go_package")
		} else {
			s.Avoided = bump(s.Avoided, "file_without_go_package")
		}
	}
	s.Tags = s.Tags[:0]
	for k := range g.tag {
		s.Tags = append(s.Tags, k)
	}
	sortStrings(s.Tags)
	return s
}

func bodyRequest(s *Schema, fq string) bool {
	for _, f := range s.Files {
		for _, sv := range f.Services {
			for _, m := range sv.Methods {
				if m.Input == fq {
					v := VerbName(m.Verb)
					return v == "POST" || v == "PUT" || v == "PATCH"
				}
			}
		}
	}
	return false
}

func bump(m map[string]int, k string) map[string]int {
	if m == nil {
		m = map[string]int{}
	}
	m[k]++
	return m
}

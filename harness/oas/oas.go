// Package oas parses emitted OpenAPI documents with parsers independent of the plugin and
// talks to the Python jsonschema oracle.
package oas

import (
	"bufio"
	"encoding/json"
	"errors"
	"fmt"
	"io"
	"math/big"
	"os"
	"os/exec"
	"sort"
	"strconv"
	"strings"
	"sync"

	yaml "go.yaml.in/yaml/v4"
)

// ParseYAML decodes YAML text into a JSON-like tree (map[string]any, []any, string, json.Number, bool, nil).
func ParseYAML(b []byte) (any, error) {
	var v any
	if err := yaml.Unmarshal(b, &v); err != nil {
		return nil, err
	}
	return normalise(v)
}

// ParseJSON decodes JSON text into the same tree shape.
func ParseJSON(b []byte) (any, error) {
	dec := json.NewDecoder(strings.NewReader(string(b)))
	dec.UseNumber()
	var v any
	if err := dec.Decode(&v); err != nil {
		return nil, err
	}
	return v, nil
}

func normalise(v any) (any, error) {
	switch x := v.(type) {
	case map[string]any:
		out := map[string]any{}
		for k, e := range x {
			n, err := normalise(e)
			if err != nil {
				return nil, err
			}
			out[k] = n
		}
		return out, nil
	case map[any]any:
		out := map[string]any{}
		for k, e := range x {
			n, err := normalise(e)
			if err != nil {
				return nil, err
			}
			out[fmt.Sprint(k)] = n
		}
		return out, nil
	case []any:
		out := make([]any, len(x))
		for i, e := range x {
			n, err := normalise(e)
			if err != nil {
				return nil, err
			}
			out[i] = n
		}
		return out, nil
	case int:
		return json.Number(strconv.Itoa(x)), nil
	case int64:
		return json.Number(strconv.FormatInt(x, 10)), nil
	case uint64:
		return json.Number(strconv.FormatUint(x, 10)), nil
	case float64:
		return json.Number(strconv.FormatFloat(x, 'g', -1, 64)), nil
	case string, bool, nil:
		return x, nil
	}
	return nil, fmt.Errorf("unsupported YAML node %T", v)
}

// Equal compares two trees; numbers are compared as exact decimals.
func Equal(a, b any) string { return diff("$", a, b) }

func diff(path string, a, b any) string {
	switch x := a.(type) {
	case map[string]any:
		y, ok := b.(map[string]any)
		if !ok {
			return fmt.Sprintf("%s: object vs %T", path, b)
		}
		for _, k := range Keys(x) {
			yv, ok := y[k]
			if !ok {
				return fmt.Sprintf("%s: key %q only in the first", path, k)
			}
			if d := diff(path+"."+k, x[k], yv); d != "" {
				return d
			}
		}
		for _, k := range Keys(y) {
			if _, ok := x[k]; !ok {
				return fmt.Sprintf("%s: key %q only in the second", path, k)
			}
		}
	case []any:
		y, ok := b.([]any)
		if !ok || len(x) != len(y) {
			return fmt.Sprintf("%s: arrays differ in kind or length", path)
		}
		for i := range x {
			if d := diff(fmt.Sprintf("%s[%d]", path, i), x[i], y[i]); d != "" {
				return d
			}
		}
	case json.Number:
		y, ok := b.(json.Number)
		if !ok {
			return fmt.Sprintf("%s: number %s vs %T %v", path, x, b, b)
		}
		ra, ok1 := new(big.Rat).SetString(string(x))
		rb, ok2 := new(big.Rat).SetString(string(y))
		if !ok1 || !ok2 || ra.Cmp(rb) != 0 {
			return fmt.Sprintf("%s: number %s vs %s", path, x, y)
		}
	default:
		if a != b {
			return fmt.Sprintf("%s: %#v vs %#v", path, a, b)
		}
	}
	return ""
}

// Keys returns the sorted keys of a map.
func Keys(m map[string]any) []string {
	ks := make([]string, 0, len(m))
	for k := range m {
		ks = append(ks, k)
	}
	sort.Strings(ks)
	return ks
}

// Get walks a tree by keys.
func Get(v any, path ...string) any {
	for _, p := range path {
		m, ok := v.(map[string]any)
		if !ok {
			return nil
		}
		v = m[p]
	}
	return v
}

// Obj returns v as an object (nil if it is not one).
func Obj(v any) map[string]any { m, _ := v.(map[string]any); return m }

// Arr returns v as an array.
func Arr(v any) []any { a, _ := v.([]any); return a }

// Str returns v as a string.
func Str(v any) string { s, _ := v.(string); return s }

// ResolvePointer resolves a local JSON pointer ("#/a/b") in doc.
func ResolvePointer(doc any, ref string) (any, bool) {
	if !strings.HasPrefix(ref, "#/") {
		return nil, false
	}
	cur := doc
	for _, part := range strings.Split(ref[2:], "/") {
		part = strings.ReplaceAll(strings.ReplaceAll(part, "~1", "/"), "~0", "~")
		switch x := cur.(type) {
		case map[string]any:
			n, ok := x[part]
			if !ok {
				return nil, false
			}
			cur = n
		case []any:
			i, err := strconv.Atoi(part)
			if err != nil || i < 0 || i >= len(x) {
				return nil, false
			}
			cur = x[i]
		default:
			return nil, false
		}
	}
	return cur, true
}

// Refs collects every $ref string in the tree.
func Refs(v any, out *[]string) {
	switch x := v.(type) {
	case map[string]any:
		for k, e := range x {
			if k == "$ref" {
				if s, ok := e.(string); ok {
					*out = append(*out, s)
				}
			}
			// a discriminator's mapping values are references too (OpenAPI 3.1, Discriminator Object)
			if k == "discriminator" {
				if d, ok := e.(map[string]any); ok {
					if mp, ok := d["mapping"].(map[string]any); ok {
						for _, mv := range mp {
							if s, ok := mv.(string); ok && strings.HasPrefix(s, "#/") {
								*out = append(*out, s)
							}
						}
					}
				}
			}
			Refs(e, out)
		}
	case []any:
		for _, e := range x {
			Refs(e, out)
		}
	}
}

// ---- Python jsonschema oracle ------------------------------------------------------------------

// ErrNoPython is returned when the tooling interpreter is missing (infrastructure).
var ErrNoPython = errors.New("python3-vt with jsonschema not found")

// Validator is a running validate.py process.
type Validator struct {
	cmd *exec.Cmd
	in  io.WriteCloser
	out *bufio.Reader
	mu  sync.Mutex
	n   int
}

// StartValidator launches py/validate.py.
func StartValidator(script string) (*Validator, error) {
	py, err := exec.LookPath("python3-vt")
	if err != nil {
		if _, serr := os.Stat("/opt/veriftools/pyvenv/bin/python3"); serr == nil {
			py = "/opt/veriftools/pyvenv/bin/python3"
		} else {
			return nil, ErrNoPython
		}
	}
	cmd := exec.Command(py, script)
	cmd.Stderr = nil // never inherit the parent's pipes
	in, err := cmd.StdinPipe()
	if err != nil {
		return nil, err
	}
	out, err := cmd.StdoutPipe()
	if err != nil {
		return nil, err
	}
	if err := cmd.Start(); err != nil {
		return nil, err
	}
	v := &Validator{cmd: cmd, in: in, out: bufio.NewReaderSize(out, 1<<20)}
	if _, err := v.call(map[string]any{"op": "ping"}); err != nil {
		v.Close()
		return nil, fmt.Errorf("%w: %v", ErrNoPython, err)
	}
	return v, nil
}

func (v *Validator) call(cmd map[string]any) (map[string]any, error) {
	v.mu.Lock()
	defer v.mu.Unlock()
	v.n++
	cmd["id"] = v.n
	b, err := json.Marshal(cmd)
	if err != nil {
		return nil, err
	}
	if _, err := v.in.Write(append(b, '\n')); err != nil {
		return nil, err
	}
	line, err := v.out.ReadBytes('\n')
	if err != nil {
		return nil, fmt.Errorf("validator died: %w", err)
	}
	var r map[string]any
	if err := json.Unmarshal(line, &r); err != nil {
		return nil, err
	}
	if ok, _ := r["ok"].(bool); !ok {
		return nil, fmt.Errorf("validator error: %v", r["error"])
	}
	return r, nil
}

// Load registers a document.
func (v *Validator) Load(id string, doc any) error {
	_, err := v.call(map[string]any{"op": "load", "doc": id, "document": doc})
	return err
}

// Unload forgets a document.
func (v *Validator) Unload(id string) { _, _ = v.call(map[string]any{"op": "unload", "doc": id}) }

// Verdict is a validation result.
type Verdict struct {
	Valid  bool
	Errors string
}

func verdict(r map[string]any) Verdict {
	valid, _ := r["valid"].(bool)
	b, _ := json.Marshal(r["errors"])
	return Verdict{Valid: valid, Errors: string(b)}
}

// ValidatePtr validates instance against the schema at ptr ("#/components/schemas/X") of doc.
func (v *Validator) ValidatePtr(doc, ptr string, instance any) (Verdict, error) {
	r, err := v.call(map[string]any{"op": "validate", "doc": doc, "ptr": ptr, "instance": instance})
	if err != nil {
		return Verdict{}, err
	}
	return verdict(r), nil
}

// ValidateSchema validates instance against an inline schema that may $ref into doc.
func (v *Validator) ValidateSchema(doc string, schema any, instance any) (Verdict, error) {
	r, err := v.call(map[string]any{"op": "validate", "doc": doc, "schema": schema, "instance": instance})
	if err != nil {
		return Verdict{}, err
	}
	return verdict(r), nil
}

// CheckSchema checks that the schema at ptr is itself a valid 2020-12 schema.
func (v *Validator) CheckSchema(doc, ptr string) (Verdict, error) {
	r, err := v.call(map[string]any{"op": "check_schema", "doc": doc, "ptr": ptr})
	if err != nil {
		return Verdict{}, err
	}
	return verdict(r), nil
}

// Close stops the process.
func (v *Validator) Close() {
	_ = v.in.Close()
	_ = v.cmd.Process.Kill()
	_ = v.cmd.Wait()
}

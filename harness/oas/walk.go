package oas

import (
	"fmt"
	"strconv"
)

// Undeclared returns the paths of instance properties that no applicable subschema describes.
// A property is described when some subschema reachable through $ref / allOf / oneOf / anyOf lists
// it under properties, or explicitly carries additionalProperties (a schema or true) or a matching
// patternProperties entry. Generated schemas never say additionalProperties: false, so plain
// JSON Schema validation cannot see undeclared properties; this walker can.
func Undeclared(doc any, schema any, instance any) []string {
	var out []string
	walkUndeclared(doc, schema, instance, "$", 0, &out)
	return out
}

// applicable flattens a schema into the object schemas that apply to an instance.
func applicable(doc any, schema any, depth int, acc *[]map[string]any) {
	if depth > 12 {
		return
	}
	o := Obj(schema)
	if o == nil {
		return
	}
	if ref := Str(o["$ref"]); ref != "" {
		if t, ok := ResolvePointer(doc, ref); ok {
			applicable(doc, t, depth+1, acc)
		}
	}
	*acc = append(*acc, o)
	for _, k := range []string{"allOf", "oneOf", "anyOf"} {
		for _, sub := range Arr(o[k]) {
			applicable(doc, sub, depth+1, acc)
		}
	}
}

func walkUndeclared(doc any, schema any, instance any, path string, depth int, out *[]string) {
	if depth > 40 || len(*out) > 5 {
		return
	}
	var subs []map[string]any
	applicable(doc, schema, 0, &subs)
	switch inst := instance.(type) {
	case map[string]any:
		for _, k := range Keys(inst) {
			var propSchemas []any
			for _, s := range subs {
				if ps, ok := Obj(s["properties"])[k]; ok {
					propSchemas = append(propSchemas, ps)
				}
				if ap, ok := s["additionalProperties"]; ok {
					if b, isBool := ap.(bool); !isBool || b {
						propSchemas = append(propSchemas, ap)
					}
				}
			}
			if len(propSchemas) == 0 {
				*out = append(*out, fmt.Sprintf("%s.%s", path, k))
				continue
			}
			// descend with the first schema that is an object schema (all of them must agree for a
			// faithful contract; validation proper is the JSON Schema oracle's job)
			for _, ps := range propSchemas {
				if Obj(ps) != nil {
					walkUndeclared(doc, ps, inst[k], path+"."+k, depth+1, out)
					break
				}
			}
		}
	case []any:
		for _, s := range subs {
			if items := s["items"]; Obj(items) != nil {
				for i, e := range inst {
					walkUndeclared(doc, items, e, path+"["+strconv.Itoa(i)+"]", depth+1, out)
				}
				break
			}
		}
	}
}

// Operation finds the operation with the given operationId; it returns the path template, the
// verb and the operation object.
func Operation(doc any, operationID string) (string, string, map[string]any) {
	paths := Obj(Get(doc, "paths"))
	for _, p := range Keys(paths) {
		item := Obj(paths[p])
		for _, verb := range []string{"get", "put", "post", "delete", "patch", "options", "head", "trace"} {
			if op := Obj(item[verb]); op != nil && Str(op["operationId"]) == operationID {
				return p, verb, op
			}
		}
	}
	return "", "", nil
}

// Parameters returns the parameters of an operation resolved to objects.
func Parameters(doc any, op map[string]any) []map[string]any {
	var out []map[string]any
	for _, p := range Arr(op["parameters"]) {
		po := Obj(p)
		if ref := Str(po["$ref"]); ref != "" {
			if t, ok := ResolvePointer(doc, ref); ok {
				po = Obj(t)
			}
		}
		if po != nil {
			out = append(out, po)
		}
	}
	return out
}

// Package plugin builds the five sebuf protoc plugins (and protoc-gen-go) from
// the current working tree and runs them at the process boundary.
package plugin

import (
	"bytes"
	"context"
	"errors"
	"fmt"
	"os"
	"os/exec"
	"path/filepath"
	"strings"
	"syscall"
	"time"

	"google.golang.org/protobuf/proto"
	"google.golang.org/protobuf/types/pluginpb"
)

// Names of the five plugins.
const (
	GoHTTP   = "protoc-gen-go-http"
	GoClient = "protoc-gen-go-client"
	OpenAPI  = "protoc-gen-openapiv3"
	TSClient = "protoc-gen-ts-client"
	TSServer = "protoc-gen-ts-server"
	ProtoGo  = "protoc-gen-go"
)

// All lists the five sebuf plugins.
var All = []string{GoHTTP, GoClient, OpenAPI, TSClient, TSServer}

// Repo returns the repository under test.
func Repo() string {
	if r := os.Getenv("VERIF_REPO"); r != "" {
		return r
	}
	return "/repo"
}

// GoEnv returns the environment for go commands run by the harness.
func GoEnv(extra ...string) []string {
	env := os.Environ()
	out := env[:0:0]
	for _, e := range env {
		if strings.HasPrefix(e, "GOFLAGS=") || strings.HasPrefix(e, "GOPROXY=") || strings.HasPrefix(e, "GOSUMDB=") ||
			strings.HasPrefix(e, "GONOSUMDB=") || strings.HasPrefix(e, "GOTOOLCHAIN=") ||
			strings.HasPrefix(e, "GOWORK=") || strings.HasPrefix(e, "GONOPROXY=") || strings.HasPrefix(e, "GOPRIVATE=") {
			continue
		}
		out = append(out, e)
	}
	out = append(out, "GOPROXY=off", "GONOSUMDB=*", "GOTOOLCHAIN=auto", "GOWORK=off", "GOFLAGS=-mod=mod")
	out = append(out, extra...)
	return out
}

// GeneratedCache, when set, is the GOCACHE used for building *generated* code. Every run compiles
// hundreds of packages whose content is unique to that run; in the shared build cache they would pile up
// (134 GB after a day of runs). core.NewCtx points this at a hard-link clone of the shared cache inside the
// run's scratch directory, which disappears with it; the shared cache only holds the stable dependencies.
var GeneratedCache string

// GeneratedEnv is GoEnv for commands that compile generated code.
func GeneratedEnv(extra ...string) []string {
	env := GoEnv(extra...)
	if GeneratedCache != "" {
		env = append(env, "GOCACHE="+GeneratedCache)
	}
	return env
}

// CloneSharedCache hard-links the shared Go build cache into dir and returns dir ("" when that is not
// possible, e.g. across file systems: the shared cache is then used directly).
func CloneSharedCache(dir string) string {
	if os.Getenv("VERIF_SHARED_GOCACHE") != "" {
		return ""
	}
	cmd := exec.Command("go", "env", "GOCACHE")
	cmd.Env = GoEnv()
	out, err := cmd.Output()
	shared := strings.TrimSpace(string(out))
	if err != nil || shared == "" {
		return ""
	}
	if _, err := os.Stat(shared); err != nil {
		return ""
	}
	if out, err := exec.Command("cp", "-al", shared, dir).CombinedOutput(); err != nil {
		_ = os.RemoveAll(dir)
		_ = out
		return ""
	}
	return dir
}

// Set is a directory of built plugin binaries.
type Set struct {
	Dir string
}

// Build compiles the five plugins from the repository working tree into dir.
// It never writes inside the repository (-mod=readonly).
func Build(dir string) (*Set, error) {
	if err := os.MkdirAll(dir, 0o755); err != nil {
		return nil, err
	}
	cmd := exec.Command("go", "build", "-o", dir+string(os.PathSeparator), "./cmd/...")
	cmd.Dir = Repo()
	cmd.Env = GoEnv("GOFLAGS=-mod=readonly")
	out, err := cmd.CombinedOutput()
	if err != nil {
		return nil, fmt.Errorf("building plugins from %s failed: %v\n%s", Repo(), err, out)
	}
	for _, n := range All {
		if _, err := os.Stat(filepath.Join(dir, n)); err != nil {
			return nil, fmt.Errorf("plugin %s not built: %v", n, err)
		}
	}
	return &Set{Dir: dir}, nil
}

// BuildProtocGenGo builds protoc-gen-go from the module cache (harness module).
func BuildProtocGenGo(harnessDir, dir string) error {
	if _, err := os.Stat(filepath.Join(dir, ProtoGo)); err == nil {
		return nil
	}
	cmd := exec.Command("go", "build", "-o", filepath.Join(dir, ProtoGo), "google.golang.org/protobuf/cmd/protoc-gen-go")
	cmd.Dir = harnessDir
	cmd.Env = GoEnv()
	out, err := cmd.CombinedOutput()
	if err != nil {
		return fmt.Errorf("building protoc-gen-go failed: %v\n%s", err, out)
	}
	return nil
}

// Result is the outcome of one plugin execution.
type Result struct {
	Plugin   string
	Resp     *pluginpb.CodeGeneratorResponse // nil if stdout did not parse
	Stdout   []byte
	Stderr   string
	ExitCode int    // -1 if killed by signal / timeout
	Signal   string // non-empty if terminated by a signal
	TimedOut bool
	Wall     time.Duration
	MaxRSSKB int64
	StartErr error
}

// Files returns name->content of the emitted files.
func (r *Result) Files() map[string]string {
	out := map[string]string{}
	if r.Resp == nil {
		return out
	}
	for _, f := range r.Resp.File {
		out[f.GetName()] += f.GetContent()
	}
	return out
}

// Err returns the plugin's reported error string ("" if none). A non-zero exit
// with a message on stderr (protogen's failure mode) is also an error report.
func (r *Result) Err() string {
	if r.Resp != nil && r.Resp.Error != nil {
		return r.Resp.GetError()
	}
	if r.ExitCode != 0 {
		return strings.TrimSpace(r.Stderr)
	}
	return ""
}

// Crashed reports whether the process died abnormally (panic, fatal error,
// signal, timeout) rather than answering.
func (r *Result) Crashed() (bool, string) {
	switch {
	case r.StartErr != nil:
		return true, "could not start: " + r.StartErr.Error()
	case r.TimedOut:
		return true, "timed out"
	case r.Signal != "":
		return true, "killed by signal " + r.Signal
	case strings.Contains(r.Stderr, "panic:") || strings.Contains(r.Stderr, "fatal error:") || strings.Contains(r.Stderr, "goroutine 1 ["):
		return true, "panic/fatal error on stderr"
	case r.ExitCode == 0 && r.Resp == nil:
		return true, "exit 0 but stdout is not a CodeGeneratorResponse"
	case r.ExitCode != 0 && r.ExitCode != 1:
		return true, fmt.Sprintf("unexpected exit status %d", r.ExitCode)
	case r.ExitCode == 1 && strings.TrimSpace(r.Stderr) == "":
		return true, "exit 1 without any message"
	}
	return false, ""
}

// Opts configures a run.
type Opts struct {
	Timeout    time.Duration // default 60s
	MemLimitKB int64         // RLIMIT_AS in KB via prlimit wrapper; 0 = none
	Env        []string      // extra env (e.g. GOMAXPROCS=1)
}

// Run executes one plugin on a request.
func (s *Set) Run(name string, req *pluginpb.CodeGeneratorRequest, o Opts) *Result {
	in, err := proto.Marshal(req)
	if err != nil {
		return &Result{Plugin: name, StartErr: err}
	}
	return s.RunRaw(name, in, o)
}

// RunRaw executes one plugin on raw request bytes.
func (s *Set) RunRaw(name string, in []byte, o Opts) *Result {
	if o.Timeout == 0 {
		o.Timeout = 60 * time.Second
	}
	ctx, cancel := context.WithTimeout(context.Background(), o.Timeout)
	defer cancel()
	bin := filepath.Join(s.Dir, name)
	var cmd *exec.Cmd
	if o.MemLimitKB > 0 {
		// Go binaries reserve large virtual ranges; use a shell ulimit -v on the data segment instead is
		// unreliable. We rely on RSS polling via rusage after the fact and GOMEMLIMIT as a soft cap.
		cmd = exec.CommandContext(ctx, bin)
	} else {
		cmd = exec.CommandContext(ctx, bin)
	}
	cmd.Stdin = bytes.NewReader(in)
	var stdout, stderr bytes.Buffer
	cmd.Stdout = &stdout
	cmd.Stderr = &limitedWriter{w: &stderr, n: 1 << 20}
	cmd.Env = append(os.Environ(), o.Env...)
	cmd.WaitDelay = 2 * time.Second
	start := time.Now()
	err := cmd.Run()
	res := &Result{Plugin: name, Stdout: stdout.Bytes(), Stderr: stderr.String(), Wall: time.Since(start)}
	if ctx.Err() == context.DeadlineExceeded {
		res.TimedOut = true
	}
	if cmd.ProcessState != nil {
		res.ExitCode = cmd.ProcessState.ExitCode()
		if ru, ok := cmd.ProcessState.SysUsage().(*syscall.Rusage); ok {
			res.MaxRSSKB = ru.Maxrss
		}
		if ws, ok := cmd.ProcessState.Sys().(syscall.WaitStatus); ok && ws.Signaled() {
			res.Signal = ws.Signal().String()
			res.ExitCode = -1
		}
	} else if err != nil {
		var ee *exec.ExitError
		if !errors.As(err, &ee) {
			res.StartErr = err
		}
	}
	if res.ExitCode == 0 && !res.TimedOut {
		var resp pluginpb.CodeGeneratorResponse
		if uerr := proto.Unmarshal(res.Stdout, &resp); uerr == nil {
			res.Resp = &resp
		}
	}
	return res
}

type limitedWriter struct {
	w *bytes.Buffer
	n int
}

func (l *limitedWriter) Write(p []byte) (int, error) {
	if l.n > 0 {
		k := len(p)
		if k > l.n {
			k = l.n
		}
		l.w.Write(p[:k])
		l.n -= k
	}
	return len(p), nil
}

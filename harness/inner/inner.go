// Package inner is the generic engine linked into every batch test binary.
package inner

import (
	"testing"

	"verif/harness/rt"
)

// Run is the single test entry point of a batch binary.
func Run(t *testing.T) {
	for _, p := range rt.Packages() {
		t.Logf("package %s/%s: %d services, %d messages", p.ID, p.Variant, len(p.Services), len(p.Messages))
	}
}

// Package inner is the generic engine linked into every batch test binary. It iterates over
// the generated packages registered with verif/harness/rt and runs rapid properties whose
// generators are built from the message descriptors of the generated Go types.
package inner

import (
	"crypto/sha256"
	"encoding/hex"
	"encoding/json"
	"fmt"
	"os"
	"sort"
	"strings"
	"testing"
	"time"

	"pgregory.net/rapid"

	"verif/harness/rapidx"
	"verif/harness/rt"
)

// Config is read from the file named by VERIF_INNER_CONFIG.
type Config struct {
	Checks   []string          `json:"checks"`
	Seed     uint64            `json:"seed"`
	Cases    int               `json:"cases"`
	Report   string            `json:"report"`
	Shard    int               `json:"shard"`
	Shards   int               `json:"shards"`
	Only     string            `json:"only,omitempty"`      // schema id filter
	OnlyUnit string            `json:"only_unit,omitempty"` // unit filter (message / rpc name)
	Avoid    map[string]string `json:"avoid,omitempty"`
	Shrink   string            `json:"shrink,omitempty"` // shrink budget per failure (duration)
	Extra    map[string]string `json:"extra,omitempty"`
}

// Result is the outcome of one (check, schema, unit) property.
type Result struct {
	Check       string         `json:"check"`
	Schema      string         `json:"schema"`
	Unit        string         `json:"unit"`
	Cases       int            `json:"cases"`
	Nontrivial  []string       `json:"nontrivial,omitempty"` // hashed distinct non-trivial case keys
	Classes     map[string]int `json:"classes,omitempty"`
	Excluded    map[string]int `json:"excluded,omitempty"`
	Unspecified int            `json:"unspecified,omitempty"`
	Samples     []any          `json:"samples,omitempty"`
	Failed      bool           `json:"failed,omitempty"`
	Flaky       bool           `json:"flaky,omitempty"`
	Message     string         `json:"message,omitempty"`
	Seed        uint64         `json:"seed"`
	Digest      string         `json:"digest,omitempty"` // behaviour digest (c14b)
	Skipped     string         `json:"skipped,omitempty"`

	nt    map[string]bool
	infra string
}

// Report is what the batch binary writes.
type Report struct {
	Results []*Result `json:"results"`
	WallS   float64   `json:"wall_s"`
}

func (r *Result) class(name string) {
	if r.Classes == nil {
		r.Classes = map[string]int{}
	}
	r.Classes[name]++
}

func (r *Result) excluded(name string) {
	if r.Excluded == nil {
		r.Excluded = map[string]int{}
	}
	r.Excluded[name]++
}

func (r *Result) nontrivial(key string) {
	if r.nt == nil {
		r.nt = map[string]bool{}
	}
	h := sha256.Sum256([]byte(r.Check + "|" + r.Schema + "|" + r.Unit + "|" + key))
	r.nt[hex.EncodeToString(h[:8])] = true
}

func (r *Result) sample(v any) {
	if len(r.Samples) < 2 {
		r.Samples = append(r.Samples, v)
	}
}

func (r *Result) finish() {
	for k := range r.nt {
		r.Nontrivial = append(r.Nontrivial, k)
	}
	sort.Strings(r.Nontrivial)
}

// unitFn runs one property; it fills res and uses run() to execute rapid.
// infraError is panicked by a property when a helper process (Node driver, schema validator) fails.
type infraError string

type unit struct {
	check  string
	schema string
	name   string
	prop   func(res *Result) func(t *rapid.T)
	// direct, if set, runs instead of a rapid property (for digests etc.)
	direct func(res *Result)
	// casesDiv divides the configured case count (units whose cases cross a process boundary)
	casesDiv int
}

type engine struct {
	cfg   *Config
	units []*unit
}

var checkBuilders = map[string]func(e *engine, p *rt.Package){}

func (e *engine) avoid(sw string) bool { return e.cfg.Avoid != nil && e.cfg.Avoid[sw] != "" }

// Run is the single test entry point of a batch binary.
func Run(t *testing.T) {
	path := os.Getenv("VERIF_INNER_CONFIG")
	if path == "" {
		for _, p := range rt.Packages() {
			t.Logf("package %s/%s: %d services, %d messages", p.ID, p.Variant, len(p.Services), len(p.Messages))
		}
		return
	}
	b, err := os.ReadFile(path)
	if err != nil {
		t.Fatalf("config: %v", err)
	}
	cfg := &Config{}
	if err := json.Unmarshal(b, cfg); err != nil {
		t.Fatalf("config: %v", err)
	}
	if cfg.Shards == 0 {
		cfg.Shards = 1
	}
	shrink := 10 * time.Second
	if cfg.Shrink != "" {
		if d, err := time.ParseDuration(cfg.Shrink); err == nil {
			shrink = d
		}
	}
	e := &engine{cfg: cfg}
	for _, p := range rt.Packages() {
		if cfg.Only != "" && p.ID != cfg.Only {
			continue
		}
		for _, c := range cfg.Checks {
			b, ok := checkBuilders[c]
			if !ok {
				t.Fatalf("unknown inner check %q", c)
			}
			b(e, p)
		}
	}
	start := time.Now()
	rep := &Report{}
	for i, u := range e.units {
		if i%cfg.Shards != cfg.Shard {
			continue
		}
		if cfg.OnlyUnit != "" && u.name != cfg.OnlyUnit {
			continue
		}
		res := &Result{Check: u.check, Schema: u.schema, Unit: u.name}
		h := sha256.Sum256([]byte(fmt.Sprintf("%d|%s|%s|%s", cfg.Seed, u.check, u.schema, u.name)))
		seed := uint64(h[0]) | uint64(h[1])<<8 | uint64(h[2])<<16 | uint64(h[3])<<24 | uint64(h[4])<<32 | uint64(h[5])<<40 | uint64(h[6])<<48
		if seed == 0 {
			seed = 1
		}
		res.Seed = seed
		if u.direct != nil {
			u.direct(res)
		} else {
			prop := u.prop(res)
			ncases := cfg.Cases
			if u.casesDiv > 1 && ncases/u.casesDiv >= 10 {
				ncases /= u.casesDiv
			}
			rr := rapidx.Check(u.check+"/"+u.schema+"/"+u.name, ncases, seed, shrink, func(t *rapid.T) {
				res.Cases++
				defer func() {
					// a helper process that cannot be reached is an infrastructure failure (exit 2), never a verdict
					if r := recover(); r != nil {
						if ie, ok := r.(infraError); ok {
							res.infra = string(ie)
							return
						}
						panic(r)
					}
				}()
				if res.infra != "" {
					return
				}
				prop(t)
			})
			if res.infra != "" {
				res.Failed, res.Flaky, res.Message = true, false, "infrastructure: "+res.infra
			} else if rr.Failed {
				res.Failed = true
				res.Flaky = rr.Flaky
				res.Message = rr.Message
			}
		}
		res.finish()
		rep.Results = append(rep.Results, res)
	}
	rep.WallS = time.Since(start).Seconds()
	out, _ := json.Marshal(rep)
	if err := os.WriteFile(cfg.Report, out, 0o644); err != nil {
		t.Fatalf("report: %v", err)
	}
}

func short(s string, n int) string {
	s = strings.ToValidUTF8(s, "?")
	if len(s) > n {
		return s[:n] + "…"
	}
	return s
}

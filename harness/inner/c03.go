package inner

import (
	"context"
	"encoding/json"
	"fmt"
	"net/http"
	"net/url"
	"os"
	"path/filepath"
	"sort"
	"strings"

	"google.golang.org/protobuf/proto"
	"google.golang.org/protobuf/reflect/protoreflect"
	"pgregory.net/rapid"

	"verif/harness/model"
	"verif/harness/oas"
	"verif/harness/rt"
	"verif/harness/valgen"
)

func init() { checkBuilders["c03"] = buildC03 }

var c03Docs = map[string]any{}

func c03Doc(e *engine, schemaID, service string) (any, error) {
	key := schemaID + "/" + service
	if d, ok := c03Docs[key]; ok {
		return d, nil
	}
	b, err := os.ReadFile(filepath.Join(e.cfg.Extra["openapi_dir"], schemaID, service+".openapi.json"))
	if err != nil {
		return nil, err
	}
	d, err := oas.ParseJSON(b)
	if err != nil {
		return nil, err
	}
	c03Docs[key] = d
	return d, nil
}

// matchTemplate reports whether a concrete (escaped) path matches a route template.
func matchTemplate(tmpl, path string) bool {
	ts, ps := strings.Split(tmpl, "/"), strings.Split(path, "/")
	if len(ts) != len(ps) {
		return false
	}
	for i := range ts {
		if strings.HasPrefix(ts[i], "{") && strings.HasSuffix(ts[i], "}") {
			if ps[i] == "" {
				return false
			}
			continue
		}
		if ts[i] != ps[i] {
			return false
		}
	}
	return true
}

func bodyKeys(b []byte) []string {
	if len(b) == 0 {
		return nil
	}
	t, err := model.ParseJSON(b)
	if err != nil {
		return []string{"<not json>"}
	}
	m, ok := t.(map[string]any)
	if !ok {
		return []string{"<not an object>"}
	}
	ks := make([]string, 0, len(m))
	for k := range m {
		ks = append(ks, k)
	}
	sort.Strings(ks)
	return ks
}

func queryString(q url.Values) string {
	var ks []string
	for k, vs := range q {
		for _, v := range vs {
			ks = append(ks, k+"="+v)
		}
	}
	sort.Strings(ks)
	return strings.Join(ks, "&")
}

// buildC03: all five generators agree on each RPC's verb, path and parameter placement.
func buildC03(e *engine, p *rt.Package) {
	var srv *server
	for _, svc := range p.Services {
		if svc.Register == nil || svc.NewClient == nil {
			continue
		}
		for mi, m := range svc.Methods {
			svc, m, mi := svc, m, mi
			info := rpcInfo(svc, m)
			e.units = append(e.units, &unit{check: "c03", schema: p.ID, name: svc.Name + "." + m.Name, prop: func(res *Result) func(t *rapid.T) {
				drv, err := getNode(e)
				if err != nil {
					res.Failed, res.Message = true, "infrastructure: "+err.Error()
					return func(t *rapid.T) {}
				}
				clientMod, serverMod := tsModule(e, p.ID, "_client.ts"), tsModule(e, p.ID, "_server.ts")
				doc, derr := c03Doc(e, p.ID, svc.Name)
				if clientMod == "" || serverMod == "" || derr != nil {
					res.Failed, res.Message = true, fmt.Sprintf("infrastructure: artefacts of %s missing: %v", p.ID, derr)
					return func(t *rapid.T) {}
				}
				if why := headerHazard(e, info, res); why != "" {
					res.Skipped = why
					return func(t *rapid.T) {}
				}
				if srv == nil {
					srv = newServer(p, false)
				}
				// TS routes of this service
				rr, rerr := drv.Call(map[string]any{"op": "ts_routes", "module": serverMod, "service": svc.Name})
				if rerr != nil {
					res.Failed, res.Message = true, "infrastructure: "+rerr.Error()
					return func(t *rapid.T) {}
				}
				var tsRoutes [][2]string
				if rr.OK() {
					for _, r := range rr["routes"].([]any) {
						ro := r.(map[string]any)
						tsRoutes = append(tsRoutes, [2]string{fmt.Sprint(ro["method"]), fmt.Sprint(ro["path"])})
					}
				}
				tsErr := rr.Err()
				tr := &transport{s: srv}
				hc := &http.Client{Transport: tr, CheckRedirect: func(*http.Request, []*http.Request) error { return http.ErrUseLastResponse }}
				goClient := svc.NewClient("http://verif.test", rt.ClientOpts{HTTPClient: hc})
				simple := info.HasConfig && info.ExplicitPath
				res.class("verb:" + info.Verb)
				if !simple {
					res.class("config:defaulted")
				}
				eff, _ := effectiveHeaders(info.SvcHeaders, info.MethodHeaders)
				return func(t *rapid.T) {
					if srv.regErr != "" {
						t.Fatalf("%s", srv.regErr)
					}
					if tsErr != "" {
						t.Fatalf("the TypeScript server's routes cannot be built: %s", short(tsErr, 300))
					}
					o := valgen.Opts{JSONSafe: true, NoNaN: true}
					req := drawRequest(t, info, m, o, true)
					rm := req.ProtoReflect()
					// path text with characters that mean something in a URL (not "/", which C01 owns): every generator
					// must keep it inside its segment
					for _, fd := range info.PathFields {
						if fd != nil && fd.Kind() == protoreflect.StringKind && rapid.IntRange(0, 2).Draw(t, "reserved."+string(fd.Name())) == 0 {
							rm.Set(fd, protoreflect.ValueOfString(rapid.StringMatching(`[a-z][a-z0-9?#&=+ %:@,;~!$'()*-]{1,7}`).Draw(t, "reservedv."+string(fd.Name()))))
							res.class("path_value:reserved_characters")
						}
					}
					// make every URL-bound field non-default so that its placement is observable
					for _, q := range info.Query {
						if !q.Field.IsList() {
							rm.Set(q.Field, safePathValue(t, q.Field, "q."+string(q.Field.Name())))
						}
					}
					srv.reset(func(string, string, proto.Message) (proto.Message, error) { return m.NewResp(), nil })
					var hdrs [][2]string
					tsHeaders := map[string]any{}
					for _, h := range eff {
						hdrs = append(hdrs, [2]string{h.GetName(), goodHeaderValue(h)})
						tsHeaders[h.GetName()] = goodHeaderValue(h)
					}
					// 1. Go client request line and Go server routing
					_, callErr := goClient(context.Background(), m.Name, req, rt.CallOpts{Headers: hdrs})
					calls := srv.taken()
					if tr.lastReq == nil {
						t.Fatalf("Go client sent nothing: %v", callErr)
					}
					g := tr.lastReq
					gu, _ := url.ParseRequestURI(g.URI)
					desc := fmt.Sprintf("%s.%s go-client: %s %s", svc.Name, m.Name, g.Method, g.URI)
					if !simple || strings.HasSuffix(strings.TrimSuffix(info.Template, "/"), "") && false {
						res.nontrivial(desc)
					}
					if len(info.PathVars) > 0 || len(info.Query) > 0 {
						res.nontrivial(desc)
					}
					res.sample(map[string]any{"rpc": svc.Name + "." + m.Name, "go_client": g.Method + " " + g.URI, "body_keys": bodyKeys(g.Body)})
					if len(calls) != 1 || calls[0].Method != m.Name || calls[0].Service != svc.Name {
						var saw []string
						for _, c := range calls {
							saw = append(saw, c.Service+"."+c.Method)
						}
						t.Fatalf("%s — the Go server routed this request to %v (status %d), not to %s.%s", desc, saw, tr.lastRespInfo().status, svc.Name, m.Name)
					}
					// the Go server reads each URL-carried field from the place the Go client wrote it to
					if len(calls) == 1 && tr.lastRespInfo().status == 200 {
						seen := calls[0].Req.ProtoReflect()
						var bound []protoreflect.FieldDescriptor
						for _, fd := range info.PathFields {
							if fd != nil {
								bound = append(bound, fd)
							}
						}
						for _, q := range info.Query {
							if !q.Field.IsList() {
								bound = append(bound, q.Field)
							}
						}
						for _, fd := range bound {
							if !seen.Get(fd).Equal(rm.Get(fd)) {
								t.Fatalf("%s — the client placed %s=%v in the URL, the Go server's handler saw %v: the two do not agree on where the field travels", desc, fd.Name(), rm.Get(fd), seen.Get(fd))
							}
						}
					}
					// 2. TS client request line
					tree, err := model.Encode(rm)
					if err != nil {
						res.Unspecified++
						return
					}
					r, err := drv.Call(map[string]any{"op": "ts_client_call", "module": clientMod, "service": svc.Name, "method": m.Name, "baseURL": "http://verif.test",
						"request": fillTSDefaults(tree, info.In), "callOptions": map[string]any{"headers": tsHeaders}, "capture": true, "cannedBody": "{}"})
					if err != nil {
						panic(infraError(fmt.Sprint(err)))
					}
					if !r.OK() {
						t.Fatalf("%s — the TypeScript client could not be invoked: %s", desc, short(r.Err(), 300))
					}
					cap, _ := r["captured"].(map[string]any)
					if cap == nil {
						t.Fatalf("%s — the TypeScript client issued no request (%v)", desc, r["callError"])
					}
					tu, perr := url.Parse(fmt.Sprint(cap["url"]))
					if perr != nil {
						t.Fatalf("%s — ts-client URL %v does not parse", desc, cap["url"])
					}
					tsBody := ""
					if s, ok := cap["body"].(string); ok {
						tsBody = s
					}
					if fmt.Sprint(cap["method"]) != g.Method {
						t.Fatalf("%s — ts-client uses verb %v", desc, cap["method"])
					}
					gp, _ := url.PathUnescape(gu.EscapedPath())
					tp, _ := url.PathUnescape(tu.EscapedPath())
					if gp != tp {
						t.Fatalf("%s — ts-client requests path %s", desc, tu.EscapedPath())
					}
					if gq, tq := queryString(gu.Query()), queryString(tu.Query()); gq != tq {
						t.Fatalf("%s — query parameters differ: go-client %q, ts-client %q", desc, gq, tq)
					}
					if info.BodyVerb {
						gk, tk := bodyKeys(g.Body), bodyKeys([]byte(tsBody))
						// the TS client writes default values out; compare the non-default placement only
						want := map[string]bool{}
						for _, k := range gk {
							want[k] = true
						}
						for k := range want {
							found := false
							for _, x := range tk {
								if x == k {
									found = true
								}
							}
							if !found {
								t.Fatalf("%s — field %q travels in the Go client's body but not in the TS client's (%v)", desc, k, tk)
							}
						}
					} else if len(g.Body) > 0 || tsBody != "" {
						t.Fatalf("%s — a bodiless verb carries a body (go %d bytes, ts %d bytes)", desc, len(g.Body), len(tsBody))
					}
					// 3. TS server route
					if mi >= len(tsRoutes) {
						t.Fatalf("%s — the TypeScript server publishes %d routes for the service, RPC index %d missing", desc, len(tsRoutes), mi)
					}
					matches := 0
					for i, rt := range tsRoutes {
						if rt[0] == g.Method && matchTemplate(rt[1], gu.EscapedPath()) {
							matches++
							if i != mi {
								t.Fatalf("%s — matches the TypeScript route #%d (%s %s), not this RPC's route #%d (%s %s)", desc, i, rt[0], rt[1], mi, tsRoutes[mi][0], tsRoutes[mi][1])
							}
						}
					}
					if matches != 1 {
						t.Fatalf("%s — matches %d TypeScript server routes; this RPC's route is %s %s", desc, matches, tsRoutes[mi][0], tsRoutes[mi][1])
					}
					// 4. OpenAPI operation
					tmpl, verb, op := oas.Operation(doc, m.Name)
					if op == nil {
						t.Fatalf("%s — the OpenAPI document has no operation %s", desc, m.Name)
					}
					if strings.ToUpper(verb) != g.Method {
						t.Fatalf("%s — OpenAPI publishes verb %s", desc, verb)
					}
					if !matchTemplate(tmpl, gu.EscapedPath()) {
						t.Fatalf("%s — OpenAPI publishes path %s", desc, tmpl)
					}
					var oaPath, oaQuery []string
					for _, prm := range oas.Parameters(doc, op) {
						switch oas.Str(prm["in"]) {
						case "path":
							oaPath = append(oaPath, oas.Str(prm["name"]))
						case "query":
							oaQuery = append(oaQuery, oas.Str(prm["name"]))
						}
					}
					sort.Strings(oaPath)
					pv := append([]string{}, info.PathVars...)
					sort.Strings(pv)
					if strings.Join(oaPath, ",") != strings.Join(pv, ",") {
						t.Fatalf("%s — OpenAPI path parameters %v, contract %v", desc, oaPath, pv)
					}
					for k := range gu.Query() {
						found := false
						for _, q := range oaQuery {
							if q == k {
								found = true
							}
						}
						if !found {
							t.Fatalf("%s — query parameter %q is sent but not published by OpenAPI (%v)", desc, k, oaQuery)
						}
					}
					if (op["requestBody"] != nil) != info.BodyVerb {
						t.Fatalf("%s — OpenAPI requestBody present = %v for verb %s", desc, op["requestBody"] != nil, g.Method)
					}
					_ = json.Marshal
					_ = proto.Equal
					_ = protoreflect.StringKind
				}
			}})
		}
	}
}

package inner

import (
	"context"
	"crypto/sha256"
	"encoding/binary"
	"errors"
	"fmt"
	"net/http"
	"sort"
	"strings"
	"sync"

	sebufhttp "github.com/SebastienMelki/sebuf/http"
	"google.golang.org/protobuf/proto"
	"pgregory.net/rapid"

	"verif/harness/model"
	"verif/harness/rt"
	"verif/harness/valgen"
)

func init() { checkBuilders["c17"] = buildC17 }

type c17Call struct {
	svc     *rt.Service
	m       *rt.Method
	info    *RPCInfo
	req     proto.Message
	ct      string
	headers [][2]string
	desc    string
}

type c17Result struct {
	resp proto.Message
	err  string
}

func (r c17Result) equal(o c17Result) bool {
	if r.err != o.err {
		return false
	}
	if (r.resp == nil) != (o.resp == nil) {
		return false
	}
	return r.resp == nil || proto.Equal(r.resp, o.resp)
}

func (r c17Result) String() string {
	if r.err != "" {
		return "error: " + short(r.err, 200)
	}
	return "ok: " + pjsonOrNil(r.resp)
}

// pureResponder derives the response deterministically from (method, request).
func pureResponder(p *rt.Package) func(service, method string, req proto.Message) (proto.Message, error) {
	methods := map[string]*rt.Method{}
	for _, s := range p.Services {
		for _, m := range s.Methods {
			methods[s.Name+"."+m.Name] = m
		}
	}
	return func(service, method string, req proto.Message) (proto.Message, error) {
		m := methods[service+"."+method]
		b, _ := proto.MarshalOptions{Deterministic: true}.Marshal(req)
		h := sha256.Sum256(append([]byte(service+"."+method+"|"), b...))
		seed := int(binary.LittleEndian.Uint32(h[:4]))&0x7fffffff + 1
		if h[4]%7 == 0 {
			return nil, &sebufhttp.Error{Message: fmt.Sprintf("deterministic failure %x", h[5:8])}
		}
		gen := rapid.Custom(func(t *rapid.T) proto.Message {
			rapid.Bool().Draw(t, "_")
			return valgen.Message(t, m.NewResp, "r", valgen.Opts{JSONSafe: true})
		})
		return gen.Example(seed), nil
	}
}

func runCall(clients map[string]rt.Caller, c *c17Call) (res c17Result) {
	defer func() {
		if r := recover(); r != nil {
			res = c17Result{err: fmt.Sprintf("PANIC: %v", r)}
		}
	}()
	got, err := clients[c.svc.Name](context.Background(), c.m.Name, c.req, rt.CallOpts{ContentType: c.ct, Headers: c.headers})
	if err != nil {
		// violations are compared as a set: their order follows map iteration in the server
		var ve *sebufhttp.ValidationError
		if errors.As(err, &ve) {
			var vs []string
			for _, v := range ve.GetViolations() {
				vs = append(vs, v.GetField()+": "+v.GetDescription())
			}
			sort.Strings(vs)
			return c17Result{err: "validation error: " + strings.Join(vs, "; ")}
		}
		return c17Result{err: err.Error()}
	}
	if c.ct == "application/json" {
		got = model.Normalize(got)
	}
	return c17Result{resp: got}
}

func newClients(p *rt.Package, srv *server) map[string]rt.Caller {
	out := map[string]rt.Caller{}
	for _, svc := range p.Services {
		if svc.NewClient == nil {
			continue
		}
		tr := &transport{s: srv}
		hc := &http.Client{Transport: tr, CheckRedirect: func(*http.Request, []*http.Request) error { return http.ErrUseLastResponse }}
		out[svc.Name] = svc.NewClient("http://verif.test", rt.ClientOpts{HTTPClient: hc, DefaultHeaders: [][2]string{{"X-Default", "d"}}})
	}
	return out
}

// buildC17: a request's outcome does not depend on other requests, concurrent or earlier.
func buildC17(e *engine, p *rt.Package) {
	type rpc struct {
		svc  *rt.Service
		m    *rt.Method
		info *RPCInfo
	}
	var rpcs []rpc
	for _, svc := range p.Services {
		if svc.Register == nil || svc.NewClient == nil {
			continue
		}
		for _, m := range svc.Methods {
			info := rpcInfo(svc, m)
			if info.ExplicitPath {
				rpcs = append(rpcs, rpc{svc, m, info})
			}
		}
	}
	if len(rpcs) == 0 {
		return
	}
	e.units = append(e.units, &unit{check: "c17", schema: p.ID, name: "package", prop: func(res *Result) func(t *rapid.T) {
		respond := pureResponder(p)
		// registrations differ: only the first service installs an error handler (a fixed, pure one). A call
		// alone is served by a process that registered only its own service, with that service's options.
		hooked := ""
		for _, sv := range p.Services {
			if sv.Register != nil {
				hooked = sv.Name
				break
			}
		}
		hookFor := func(name string) bool { return name == hooked }
		fixedHook := func(w http.ResponseWriter, r *http.Request, err error) proto.Message {
			var ve *sebufhttp.ValidationError
			if errors.As(err, &ve) {
				return nil // validation errors keep their default rendering (violation lists are compared as sets)
			}
			w.Header().Set("X-Handled-By", hooked)
			w.WriteHeader(http.StatusTeapot)
			_, _ = w.Write([]byte("handled-by:" + hooked))
			return nil
		}
		shared := newServerSel(p, hookFor, nil)
		shared.reset(respond)
		shared.hook = fixedHook
		sharedClients := newClients(p, shared)
		routesWithHeaders := 0
		for _, r := range rpcs {
			if len(r.info.SvcHeaders)+len(r.info.MethodHeaders) > 0 {
				routesWithHeaders++
			}
		}
		res.class(fmt.Sprintf("routes:%d", len(rpcs)))
		warmed := false
		allHeaders := map[string]bool{}
		for _, r := range rpcs {
			for _, h := range r.info.SvcHeaders {
				allHeaders[strings.ToLower(h.GetName())] = true
			}
			for _, h := range r.info.MethodHeaders {
				allHeaders[strings.ToLower(h.GetName())] = true
			}
		}
		return func(t *rapid.T) {
			if shared.regErr != "" {
				t.Fatalf("%s", shared.regErr)
			}
			n := rapid.IntRange(10, 80).Draw(t, "calls")
			par := rapid.SampledFrom([]int{1, 2, 4, 8, 16, 32}).Draw(t, "parallelism")
			var calls []*c17Call
			distinctRoutes := map[string]bool{}
			for i := 0; i < n; i++ {
				r := rpcs[rapid.IntRange(0, len(rpcs)-1).Draw(t, fmt.Sprintf("c%d.rpc", i))]
				c := &c17Call{svc: r.svc, m: r.m, info: r.info}
				c.ct = rapid.SampledFrom([]string{"application/json", "application/json", "application/x-protobuf"}).Draw(t, fmt.Sprintf("c%d.ct", i))
				c.req = drawRequest(t, r.info, r.m, valgen.Opts{JSONSafe: true, MaxDepth: 2, MaxElems: 2}, true)
				if !r.info.BodyVerb {
					for _, q := range r.info.Query {
						if q.Required && !q.Field.IsList() && !c.req.ProtoReflect().Has(q.Field) {
							c.req.ProtoReflect().Set(q.Field, safePathValue(t, q.Field, fmt.Sprintf("c%d.rq", i)))
						}
					}
				}
				eff, _ := effectiveHeaders(r.info.SvcHeaders, r.info.MethodHeaders)
				seenLower := map[string]bool{}
				for k := len(eff) - 1; k >= 0; k-- {
					h := eff[k]
					// header names are case-insensitive on the wire: send one value per name
					if seenLower[strings.ToLower(h.GetName())] {
						continue
					}
					seenLower[strings.ToLower(h.GetName())] = true
					// per-call options: usually supply a good value, sometimes leave the header out
					if rapid.IntRange(0, 4).Draw(t, fmt.Sprintf("c%d.h.%s", i, h.GetName())) != 0 {
						c.headers = append(c.headers, [2]string{h.GetName(), goodHeaderValue(h)})
					}
				}
				c.desc = fmt.Sprintf("%s.%s %s headers=%v req=%s", r.svc.Name, r.m.Name, c.ct, c.headers, pjson(c.req))
				distinctRoutes[r.svc.Name+"."+r.m.Name] = true
				calls = append(calls, c)
			}
			// isolated execution: every call alone on a fresh server and fresh clients
			want := make([]c17Result, len(calls))
			isolated := func() {
				for i, c := range calls {
					fresh := newServerSel(p, hookFor, map[string]bool{c.svc.Name: true})
					fresh.reset(respond)
					fresh.hook = fixedHook
					want[i] = runCall(newClients(p, fresh), c)
				}
			}
			// concurrent execution through the shared server and clients
			got := make([]c17Result, len(calls))
			concurrent := func() {
				sem := make(chan struct{}, par)
				var wg sync.WaitGroup
				for i, c := range calls {
					wg.Add(1)
					sem <- struct{}{}
					go func(i int, c *c17Call) {
						defer wg.Done()
						defer func() { <-sem }()
						got[i] = runCall(sharedClients, c)
					}(i, c)
				}
				wg.Wait()
				shared.taken()
			}
			if !warmed {
				// cold start: the very first requests this package's generated code ever serves arrive together
				// (whatever it initialises lazily at package level is initialised under contention)
				warmed = true
				if par < 8 {
					par = 8
				}
				res.class("cold_start_burst")
				concurrent()
				isolated()
			} else {
				isolated()
				concurrent()
			}
			res.class(fmt.Sprintf("parallelism:%d", par))
			if len(distinctRoutes) >= 2 && par >= 4 {
				var b strings.Builder
				for _, c := range calls {
					b.WriteString(c.desc)
				}
				res.nontrivial(fmt.Sprintf("%d|%s", par, b.String()))
			}
			res.sample(map[string]any{"calls": n, "parallelism": par, "first_call": short(calls[0].desc, 300)})
			for i := range calls {
				// per-route configuration: a route never rejects a call over a header only other routes declare
				if strings.HasPrefix(got[i].err, "validation error: ") {
					own := map[string]bool{}
					for _, h := range calls[i].info.SvcHeaders {
						own[strings.ToLower(h.GetName())] = true
					}
					for _, h := range calls[i].info.MethodHeaders {
						own[strings.ToLower(h.GetName())] = true
					}
					for _, v := range strings.Split(strings.TrimPrefix(got[i].err, "validation error: "), "; ") {
						f := strings.ToLower(strings.SplitN(v, ": ", 2)[0])
						if allHeaders[f] && !own[f] {
							t.Fatalf("call #%d to %s.%s was rejected over header %q, which neither its service nor the method declares (another route does): per-route configuration is shared\ncall: %s\nresult: %s", i, calls[i].svc.Name, calls[i].m.Name, f, short(calls[i].desc, 400), got[i])
						}
					}
				}
				// the error handler belongs to one registration: no other service's failures go through it
				// (registrations in one process share nothing but the mux they were given)
				if calls[i].svc.Name != hooked && (strings.Contains(got[i].err, "handled-by:") || strings.Contains(want[i].err, "handled-by:")) {
					t.Fatalf("call #%d to %s.%s was answered by the error handler that only the registration of %s installed; call: %s; result: %s", i, calls[i].svc.Name, calls[i].m.Name, hooked, short(calls[i].desc, 400), got[i])
				}
				if !got[i].equal(want[i]) {
					var hist strings.Builder
					for j, c := range calls {
						if j > 30 {
							hist.WriteString("  …\n")
							break
						}
						fmt.Fprintf(&hist, "  #%d %s\n", j, short(c.desc, 200))
					}
					t.Fatalf("call #%d gave a different result among %d calls at parallelism %d than alone\ncall: %s\nalone:      %s\nconcurrent: %s\nhistory:\n%s", i, n, par, short(calls[i].desc, 400), want[i], got[i], hist.String())
				}
			}
		}
	}})
}

package inner

import (
	"context"
	"encoding/json"
	"errors"
	"fmt"
	"net/http"
	"net/url"
	"os"
	"path/filepath"
	"strconv"
	"strings"

	"buf.build/gen/go/bufbuild/protovalidate/protocolbuffers/go/buf/validate"
	"google.golang.org/protobuf/proto"
	"google.golang.org/protobuf/reflect/protoreflect"
	"google.golang.org/protobuf/types/descriptorpb"
	"pgregory.net/rapid"

	"verif/harness/model"
	"verif/harness/oas"
	"verif/harness/rt"
	"verif/harness/valgen"
)

func init() { checkBuilders["c06"] = buildC06 }

var (
	c06Validator *oas.Validator
	c06Docs      = map[string]any{} // "<schema>/<service>" -> parsed document
)

func c06Doc(e *engine, schemaID, service string) (any, string, error) {
	key := schemaID + "/" + service
	if d, ok := c06Docs[key]; ok {
		return d, key, nil
	}
	if c06Validator == nil {
		v, err := oas.StartValidator(e.cfg.Extra["validator_script"])
		if err != nil {
			return nil, "", err
		}
		c06Validator = v
	}
	b, err := os.ReadFile(filepath.Join(e.cfg.Extra["openapi_dir"], schemaID, service+".openapi.json"))
	if err != nil {
		return nil, "", err
	}
	d, err := oas.ParseJSON(b)
	if err != nil {
		return nil, "", err
	}
	if err := c06Validator.Load(key, d); err != nil {
		return nil, "", err
	}
	c06Docs[key] = d
	return d, key, nil
}

// typedParam converts the textual value of a path/query/header parameter to the JSON value an
// OpenAPI validator sees for the declared schema type (style simple/form, explode default).
func typedParam(schema map[string]any, text string) any {
	types := []string{}
	switch t := schema["type"].(type) {
	case string:
		types = append(types, t)
	case []any:
		for _, x := range t {
			types = append(types, oas.Str(x))
		}
	}
	for _, ty := range types {
		switch ty {
		case "array":
			// style simple / form without explode: comma-separated items
			var items []any
			for _, part := range strings.Split(text, ",") {
				if it := oas.Obj(schema["items"]); it != nil {
					items = append(items, typedParam(it, part))
				} else {
					items = append(items, part)
				}
			}
			return items
		case "integer":
			if _, err := strconv.ParseInt(text, 10, 64); err == nil {
				return json.Number(text)
			}
			if _, err := strconv.ParseUint(text, 10, 64); err == nil {
				return json.Number(text)
			}
		case "number":
			if f, err := strconv.ParseFloat(text, 64); err == nil && !isNaNInf(f) {
				return json.Number(strconv.FormatFloat(f, 'g', -1, 64))
			}
		case "boolean":
			if text == "true" {
				return true
			}
			if text == "false" {
				return false
			}
		}
	}
	return text
}

func isNaNInf(f float64) bool {
	return f != f || f > 1.7976931348623157e308 || f < -1.7976931348623157e308
}

// responseSchema returns the JSON schema of an operation's response for a status code.
func responseSchema(op map[string]any, status string) any {
	return oas.Get(op, "responses", status, "content", "application/json", "schema")
}

// buildC06: wire JSON and parameters validate against the generated OpenAPI document.
func buildC06(e *engine, p *rt.Package) {
	var srv *server
	for _, svc := range p.Services {
		if svc.Register == nil || svc.NewClient == nil {
			continue
		}
		for _, m := range svc.Methods {
			svc, m := svc, m
			info := rpcInfo(svc, m)
			e.units = append(e.units, &unit{check: "c06", schema: p.ID, name: svc.Name + "." + m.Name, prop: func(res *Result) func(t *rapid.T) {
				if !info.ExplicitPath {
					res.Skipped = "RPC without an explicit path"
					return func(t *rapid.T) {}
				}
				doc, docID, err := c06Doc(e, p.ID, svc.Name)
				if err != nil {
					res.Failed, res.Message = true, "infrastructure: "+err.Error()
					return func(t *rapid.T) {}
				}
				tmpl, verb, op := oas.Operation(doc, m.Name)
				if op == nil {
					return func(t *rapid.T) { t.Fatalf("the OpenAPI document of %s has no operation %s", svc.Name, m.Name) }
				}
				_ = tmpl
				if srv == nil {
					srv = newServer(p, false)
				}
				tr := &transport{s: srv}
				hc := &http.Client{Transport: tr, CheckRedirect: func(*http.Request, []*http.Request) error { return http.ErrUseLastResponse }}
				client := svc.NewClient("http://verif.test", rt.ClientOpts{HTTPClient: hc})
				params := oas.Parameters(doc, op)
				eff, _ := effectiveHeaders(info.SvcHeaders, info.MethodHeaders)
				validate := func(t *rapid.T, what string, schema any, inst any, raw string) {
					if schema == nil {
						t.Fatalf("%s: the operation publishes no schema for it", what)
					}
					v, verr := c06Validator.ValidateSchema(docID, schema, inst)
					if verr != nil {
						panic(infraError(fmt.Sprint(verr)))
					}
					if !v.Valid {
						sb, _ := json.Marshal(schema)
						t.Fatalf("%s does not validate against the published schema\ninstance: %s\nschema: %s\nerrors: %s", what, short(raw, 500), short(string(sb), 300), short(v.Errors, 500))
					}
					if und := oas.Undeclared(doc, schema, inst); len(und) > 0 {
						t.Fatalf("%s carries properties the published schema does not describe: %v\ninstance: %s", what, und, short(raw, 500))
					}
				}
				annotated := deepAnnotated(info.In, map[protoreflect.FullName]bool{}) || deepAnnotated(info.Out, map[protoreflect.FullName]bool{})
				hasRules := messageHasRules(info.In, 0)
				return func(t *rapid.T) {
					if srv.regErr != "" {
						t.Fatalf("%s", srv.regErr)
					}
					// converse: default and fully populated values satisfy the component schemas
					{
						for _, mk := range []func() proto.Message{m.NewReq, m.NewResp} {
							md := mk().ProtoReflect().Descriptor()
							ptr := "#/components/schemas/" + string(md.Name())
							if tree, err := model.Encode(mk().ProtoReflect()); err == nil {
								if v, verr := c06Validator.ValidatePtr(docID, ptr, tree); verr == nil && !v.Valid {
									t.Fatalf("the JSON form of the default %s does not satisfy its component schema: %s", md.Name(), short(v.Errors, 400))
								}
							}
						}
					}
					modes := []string{"success", "success", "success", "handler_error", "malformed_body"}
					if hasRules {
						modes = append(modes, "rule_violation", "rule_violation")
					}
					mode := rapid.SampledFrom(modes).Draw(t, "mode")
					o := valgen.Opts{JSONSafe: false, NoNaN: e.avoid("float_nonfinite_vs_number_schema")}
					if o.NoNaN {
						res.excluded(e.cfg.Avoid["float_nonfinite_vs_number_schema"] + ":float_nonfinite_vs_number_schema")
					}
					req := drawRequest(t, info, m, o, false)
					rm := req.ProtoReflect()
					if !info.BodyVerb {
						for _, q := range info.Query {
							if k := q.Field.Kind(); (k == protoreflect.FloatKind || k == protoreflect.DoubleKind) && !q.Field.IsList() && rm.Has(q.Field) && rm.Get(q.Field).Float() == 0 {
								rm.Clear(q.Field)
							}
							if q.Required && !q.Field.IsList() && !rm.Has(q.Field) {
								rm.Set(q.Field, safePathValue(t, q.Field, "rq"))
							}
						}
					}
					for _, fd := range info.PathFields {
						if fd != nil && fd.Kind() == protoreflect.StringKind {
							if s := rm.Get(fd).String(); s == "." || s == ".." || s == "/" {
								rm.Set(fd, protoreflect.ValueOfString(s+"x"))
							}
						}
					}
					if hasRules {
						if mode == "rule_violation" {
							// a request the rules refuse: the 400 the server answers is a published response too
							if len(violationPaths(req)) == 0 {
								return
							}
						} else {
							repair(rm, 0)
							if len(violationPaths(req)) > 0 {
								return
							}
						}
					}
					if hasRules {
						// rule-driven values of path variables may be unroutable text (a URI, an empty string): C01 owns those
						for _, fd := range info.PathFields {
							if fd != nil && fd.Kind() == protoreflect.StringKind {
								if s := rm.Get(fd).String(); s == "" || s == "." || s == ".." || strings.ContainsAny(s, "/\\") {
									return
								}
							}
						}
					}
					resp := valgen.Message(t, m.NewResp, "resp", o)
					// a handler answers with values of its own contract: rules on shared types hold in responses too
					repair(resp.ProtoReflect(), 0)
					if len(violationPaths(resp)) > 0 {
						return
					}
					var herr error
					if mode == "handler_error" {
						herr = errors.New("boom " + valgen.String(t, "msg"))
					}
					srv.reset(func(string, string, proto.Message) (proto.Message, error) {
						if herr != nil {
							return nil, herr
						}
						return resp, nil
					})
					res.class("mode:" + mode)
					if mode == "malformed_body" {
						if !info.BodyVerb {
							return
						}
						rec, _ := srv.serve(info.Verb, buildTarget(info, rm, false), jsonHeader(), []byte(`{"x":`))
						if rec.Code != 400 {
							return // C11 judges this
						}
						tree, perr := model.ParseJSON(rec.Body.Bytes())
						if perr != nil {
							return
						}
						res.nontrivial("400|" + rec.Body.String())
						validate(t, "400 response body", responseSchema(op, "400"), tree, rec.Body.String())
						return
					}
					var hdrs [][2]string
					for _, h := range eff {
						hdrs = append(hdrs, [2]string{h.GetName(), goodHeaderValue(h)})
					}
					_, callErr := client(context.Background(), m.Name, req, rt.CallOpts{Headers: hdrs})
					srv.taken()
					if tr.lastReq == nil {
						t.Fatalf("client sent nothing: %v", callErr)
					}
					sent := tr.lastReq
					ri := tr.lastRespInfo()
					if annotated || mode != "success" {
						res.nontrivial(sent.Method + sent.URI + string(sent.Body) + string(tr.lastResp))
					}
					res.sample(map[string]any{"request_line": sent.Method + " " + sent.URI, "request_body": short(string(sent.Body), 200), "status": ri.status, "response_body": short(string(tr.lastResp), 200)})
					if strings.ToUpper(verb) != sent.Method {
						t.Fatalf("the client used %s, the document publishes %s for %s", sent.Method, verb, m.Name)
					}
					if mode == "rule_violation" {
						if ri.status != 400 {
							return // C10 judges whether the rules are enforced
						}
						tree, perr := model.ParseJSON(tr.lastResp)
						if perr != nil {
							t.Fatalf("400 response body is not JSON: %s", short(string(tr.lastResp), 200))
						}
						validate(t, "400 response body (rule violation)", responseSchema(op, "400"), tree, string(tr.lastResp))
						return
					}
					// request body
					if len(sent.Body) > 0 {
						tree, perr := model.ParseJSON(sent.Body)
						if perr != nil {
							t.Fatalf("client request body is not JSON: %v", perr)
						}
						validate(t, "request body sent by the Go client", oas.Get(op, "requestBody", "content", "application/json", "schema"), tree, string(sent.Body))
					}
					// parameters as sent
					u, _ := url.ParseRequestURI(sent.URI)
					segs := strings.Split(u.EscapedPath(), "/")
					tsegs := strings.Split(info.Template, "/")
					for _, prm := range params {
						name, in := oas.Str(prm["name"]), oas.Str(prm["in"])
						ps := oas.Obj(prm["schema"])
						switch in {
						case "path":
							for i, ts := range tsegs {
								if ts == "{"+name+"}" && i < len(segs) {
									val, _ := url.PathUnescape(segs[i])
									validate(t, "path parameter "+name, prm["schema"], typedParam(ps, val), val)
								}
							}
						case "query":
							if vals, ok := u.Query()[name]; ok {
								for _, val := range vals {
									sch := prm["schema"]
									if oas.Str(ps["type"]) == "array" {
										sch = ps["items"]
										validate(t, "query parameter "+name, sch, typedParam(oas.Obj(sch), val), val)
									} else {
										validate(t, "query parameter "+name, sch, typedParam(ps, val), val)
									}
								}
							}
						case "header":
							if val := sent.Header.Get(name); val != "" {
								validate(t, "header parameter "+name, prm["schema"], typedParam(ps, val), val)
							}
						}
					}
					// every URL-carried field must be published as a parameter
					for q := range u.Query() {
						found := false
						for _, prm := range params {
							if oas.Str(prm["in"]) == "query" && oas.Str(prm["name"]) == q {
								found = true
							}
						}
						if !found {
							t.Fatalf("the client sent query parameter %q which the operation does not declare", q)
						}
					}
					// response body
					tree, perr := model.ParseJSON(tr.lastResp)
					if perr != nil {
						t.Fatalf("response body is not JSON (%d): %s", ri.status, short(string(tr.lastResp), 200))
					}
					switch {
					case ri.status == 200:
						validate(t, "200 response body", responseSchema(op, "200"), tree, string(tr.lastResp))
					case ri.status == 400:
						validate(t, "400 response body", responseSchema(op, "400"), tree, string(tr.lastResp))
					default:
						validate(t, fmt.Sprintf("%d response body", ri.status), responseSchema(op, "default"), tree, string(tr.lastResp))
					}
					// the same request again under a content type label the server does not know (browsers and
					// proxies send such labels): whatever it answers under application/json is still described
					// by the document
					if ct := rapid.SampledFrom([]string{"", "", "text/plain;charset=UTF-8", "application/vnd.api+json", "-"}).Draw(t, "second_content_type"); ct != "" {
						hdr := sent.Header.Clone()
						if ct == "-" {
							hdr.Del("Content-Type")
						} else {
							hdr.Set("Content-Type", ct)
						}
						rec, panicked := srv.serve(sent.Method, sent.URI, hdr, sent.Body)
						srv.taken()
						if panicked != "" {
							t.Fatalf("server panicked on %s %s under Content-Type %q: %s", sent.Method, sent.URI, ct, panicked)
						}
						if !strings.HasPrefix(strings.ToLower(rec.Header().Get("Content-Type")), "application/json") {
							return
						}
						res.class("second_content_type:answered_json")
						tree2, perr := model.ParseJSON(rec.Body.Bytes())
						if perr != nil {
							t.Fatalf("response under request Content-Type %q is labelled JSON but is not JSON (%d): %s", ct, rec.Code, short(rec.Body.String(), 200))
						}
						key := "default"
						if rec.Code == 200 || rec.Code == 400 {
							key = fmt.Sprint(rec.Code)
						}
						validate(t, fmt.Sprintf("%d response body under request Content-Type %q", rec.Code, ct), responseSchema(op, key), tree2, rec.Body.String())
					}
				}
			}})
		}
	}
}

// messageHasRules reports whether md or a message it contains carries buf.validate rules.
func messageHasRules(md protoreflect.MessageDescriptor, depth int) bool {
	if depth > 6 {
		return false
	}
	if mo, ok := md.Options().(*descriptorpb.MessageOptions); ok && mo != nil && proto.HasExtension(mo, validate.E_Message) {
		return true
	}
	fs := md.Fields()
	for i := 0; i < fs.Len(); i++ {
		fd := fs.Get(i)
		if fieldRules(fd) != nil {
			return true
		}
		if fd.Kind() == protoreflect.MessageKind && !fd.IsMap() && fd.Message().FullName() != md.FullName() && messageHasRules(fd.Message(), depth+1) {
			return true
		}
	}
	return false
}

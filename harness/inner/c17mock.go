package inner

import (
	"fmt"
	"net/http"
	"sync"

	"pgregory.net/rapid"

	"verif/harness/model"
	"verif/harness/rt"
	"verif/harness/valgen"
)

func init() { checkBuilders["c17mock"] = buildC17Mock }

type mockCall struct {
	verb, target, desc string
	hdr                http.Header
	body               []byte
}

// buildC17Mock: the generated server backed by the generated mock implementation, called on several routes of
// several services at once. Mock answers are random, so the oracle is what does not depend on the choice: no
// panic, the status a call gets alone (200), and no report from the race detector the binary is built with.
func buildC17Mock(e *engine, p *rt.Package) {
	type rpc struct {
		svc  *rt.Service
		m    *rt.Method
		info *RPCInfo
	}
	var rpcs []rpc
	for _, svc := range p.Services {
		if svc.Register == nil || svc.NewMock == nil {
			continue
		}
		for _, m := range svc.Methods {
			info := rpcInfo(svc, m)
			if info.ExplicitPath {
				rpcs = append(rpcs, rpc{svc, m, info})
			}
		}
	}
	if len(rpcs) == 0 {
		return
	}
	e.units = append(e.units, &unit{check: "c17mock", schema: p.ID, name: "package", prop: func(res *Result) func(t *rapid.T) {
		var usable []rpc
		for _, r := range rpcs {
			if headerHazard(e, r.info, res) == "" {
				usable = append(usable, r)
			}
		}
		if len(usable) == 0 {
			res.Skipped = "no route without a header hazard"
			return func(t *rapid.T) {}
		}
		srv := newServer(p, false)
		mocks := map[string]rt.Handler{}
		for _, s := range p.Services {
			if s.NewMock != nil {
				mocks[s.Name] = s.NewMock()
			}
		}
		srv.reset(nil)
		srv.mockHandlers = mocks
		return func(t *rapid.T) {
			if srv.regErr != "" {
				t.Fatalf("%s", srv.regErr)
			}
			n := rapid.IntRange(8, 40).Draw(t, "calls")
			par := rapid.SampledFrom([]int{2, 4, 8, 16}).Draw(t, "parallelism")
			var calls []mockCall
			routes := map[string]bool{}
			for i := 0; i < n; i++ {
				r := usable[rapid.IntRange(0, len(usable)-1).Draw(t, fmt.Sprintf("call%d.route", i))]
				req := drawRequest(t, r.info, r.m, valgen.Opts{JSONSafe: true}, true)
				repair(req.ProtoReflect(), 0)
				if len(violationPaths(req)) > 0 {
					continue
				}
				hdr := jsonHeader()
				var body []byte
				if r.info.BodyVerb {
					b, err := model.EncodeBytes(req.ProtoReflect())
					if err != nil {
						continue
					}
					body = b
				}
				eff, _ := effectiveHeaders(r.info.SvcHeaders, r.info.MethodHeaders)
				for _, h := range eff {
					hdr.Set(h.GetName(), goodHeaderValue(h))
				}
				target := buildTarget(r.info, req.ProtoReflect(), !r.info.BodyVerb)
				calls = append(calls, mockCall{verb: r.info.Verb, target: target, hdr: hdr, body: body, desc: fmt.Sprintf("%s %s body=%s", r.info.Verb, target, short(string(body), 120))})
				routes[r.svc.Name+"."+r.m.Name] = true
			}
			if len(calls) < 2 {
				return
			}
			// alone first: calls the mock does not answer with 200 on their own are not part of the comparison
			var keep []mockCall
			for _, c := range calls {
				rec, panicked := srv.serve(c.verb, c.target, c.hdr.Clone(), c.body)
				if panicked != "" {
					t.Fatalf("mock-backed server panicked on a single call: %s (%s)", panicked, c.desc)
				}
				if rec.Code == 200 {
					keep = append(keep, c)
				}
			}
			srv.taken()
			if len(keep) < 2 {
				return
			}
			if len(routes) >= 2 && par >= 4 {
				res.nontrivial(fmt.Sprint(par, len(keep), keep[0].desc, keep[len(keep)-1].desc))
			}
			res.class(fmt.Sprintf("parallelism:%d", par))
			res.sample(map[string]any{"calls": len(keep), "routes": len(routes), "parallelism": par, "first": keep[0].desc})
			var wg sync.WaitGroup
			var mu sync.Mutex
			bad := ""
			work := make(chan mockCall)
			for g := 0; g < par; g++ {
				wg.Add(1)
				go func() {
					defer wg.Done()
					for c := range work {
						r2, p2 := srv.serve(c.verb, c.target, c.hdr.Clone(), c.body)
						if p2 != "" || r2.Code != 200 {
							mu.Lock()
							if bad == "" {
								bad = fmt.Sprintf("panic=%q status=%d body=%s (%s)", p2, codeOf(r2), bodyOf(r2), c.desc)
							}
							mu.Unlock()
						}
					}
				}()
			}
			for rep := 0; rep < 4; rep++ {
				for _, c := range keep {
					work <- c
				}
			}
			close(work)
			wg.Wait()
			srv.taken()
			if bad != "" {
				t.Fatalf("at parallelism %d the mock-backed server no longer answers a call the way it answers it alone: %s", par, bad)
			}
		}
	}})
}

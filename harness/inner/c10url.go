package inner

import (
	"fmt"
	"net/http"
	"net/url"
	"strings"

	"google.golang.org/protobuf/proto"
	"google.golang.org/protobuf/reflect/protoreflect"
	"pgregory.net/rapid"

	"verif/harness/rt"
)

func init() { checkBuilders["c10url"] = buildC10URL }

// buildC10URL: a request that fails URL binding is a request validation failure: HTTP 400 with a
// ValidationError, encoded in the request's content type, whose violation's field is the proto field name
// (C10: "field names are the dotted proto field paths"), also when the query parameter is named differently.
func buildC10URL(e *engine, p *rt.Package) {
	var srv *server
	for _, svc := range p.Services {
		if svc.Register == nil {
			continue
		}
		for _, m := range svc.Methods {
			svc, m := svc, m
			info := rpcInfo(svc, m)
			e.units = append(e.units, &unit{check: "c10url", schema: p.ID, name: svc.Name + "." + m.Name, prop: func(res *Result) func(t *rapid.T) {
				type cand struct {
					fd    protoreflect.FieldDescriptor
					name  string
					query bool
				}
				var cands []cand
				for i, n := range info.PathVars {
					if fd := info.PathFields[i]; fd != nil && fd.Kind() != protoreflect.StringKind {
						cands = append(cands, cand{fd, n, false})
					}
				}
				for _, q := range info.Query {
					if q.Field.Kind() != protoreflect.StringKind || q.Required {
						cands = append(cands, cand{q.Field, q.Name, true})
					}
				}
				if !info.ExplicitPath || len(cands) == 0 {
					res.Skipped = "no URL-bound field that can fail to bind"
					return func(t *rapid.T) {}
				}
				if srv == nil {
					srv = newServer(p, false)
				}
				return func(t *rapid.T) {
					if srv.regErr != "" {
						t.Fatalf("%s", srv.regErr)
					}
					victim := cands[rapid.IntRange(0, len(cands)-1).Draw(t, "victim")]
					binary := info.BodyVerb && rapid.IntRange(0, 2).Draw(t, "binary") == 0
					target := info.Template
					for i, n := range info.PathVars {
						fd := info.PathFields[i]
						text := "1"
						if fd != nil && fd.Kind() == protoreflect.StringKind {
							text = "x"
						} else if fd != nil && fd.Kind() == protoreflect.BoolKind {
							text = "true"
						}
						if !victim.query && victim.name == n {
							text = rapid.SampledFrom([]string{"abc", "1x", "--1", "9e99999", "0x"}).Draw(t, "bad")
						}
						target = strings.Replace(target, "{"+n+"}", url.PathEscape(text), 1)
					}
					var qs []string
					missing := false
					for _, q := range info.Query {
						isVictim := victim.query && victim.name == q.Name
						if isVictim && q.Required && (q.Field.Kind() == protoreflect.StringKind || rapid.Bool().Draw(t, "omit")) {
							missing = true
							continue
						}
						if !isVictim && !q.Required {
							continue
						}
						text := "1"
						switch q.Field.Kind() {
						case protoreflect.StringKind:
							text = "x"
						case protoreflect.BoolKind:
							text = "true"
						}
						if isVictim {
							if q.Field.IsList() {
								qs = append(qs, url.QueryEscape(q.Name)+"="+text) // a good element first
							}
							text = rapid.SampledFrom([]string{"abc", "1x", "--1", "9e99999", "0x"}).Draw(t, "badq")
						}
						qs = append(qs, url.QueryEscape(q.Name)+"="+url.QueryEscape(text))
					}
					if len(qs) > 0 {
						target += "?" + strings.Join(qs, "&")
					}
					hdr := http.Header{}
					var body []byte
					if binary {
						hdr.Set("Content-Type", "application/x-protobuf")
					} else {
						hdr.Set("Content-Type", "application/json")
						if info.BodyVerb {
							body = []byte("{}")
						}
					}
					srv.reset(func(string, string, proto.Message) (proto.Message, error) { return m.NewResp(), nil })
					rec, panicked := srv.serve(info.Verb, target, hdr, body)
					calls := srv.taken()
					desc := fmt.Sprintf("%s %s (offending %s %q, field %s, missing=%v, binary=%v)", info.Verb, target, map[bool]string{true: "query parameter", false: "path variable"}[victim.query], victim.name, victim.fd.Name(), missing, binary)
					if panicked != "" {
						t.Fatalf("server panicked: %s (%s)", panicked, desc)
					}
					if victim.query && victim.name != string(victim.fd.Name()) || binary {
						res.nontrivial(desc)
					}
					if victim.query && victim.fd.IsList() {
						res.class("victim:repeated_query")
					}
					if victim.query && victim.name != string(victim.fd.Name()) {
						res.class("victim:renamed_query")
					}
					res.sample(map[string]any{"request": desc, "status": rec.Code})
					if rec.Code != 400 || len(calls) != 0 {
						t.Fatalf("%s: expected 400 without dispatch, got %d with %d handler calls: %s", desc, rec.Code, len(calls), short(rec.Body.String(), 300))
					}
					vs, err := parseViolations(rec.Body.Bytes(), binary)
					if err != nil || len(vs) == 0 {
						t.Fatalf("%s: the 400 body is not a ValidationError in the request's content type: %v: %s", desc, err, short(rec.Body.String(), 300))
					}
					for _, v := range vs {
						if v.GetField() == string(victim.fd.Name()) {
							return
						}
					}
					var got []string
					for _, v := range vs {
						got = append(got, v.GetField())
					}
					t.Fatalf("%s: the violation must name the proto field %q, got %v", desc, victim.fd.Name(), got)
				}
			}})
		}
	}
}

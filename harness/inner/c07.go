package inner

import (
	"context"
	"encoding/json"
	"fmt"
	"net/http"
	"os"
	"sort"
	"strings"
	"time"

	"google.golang.org/protobuf/proto"
	"google.golang.org/protobuf/reflect/protoreflect"
	"pgregory.net/rapid"

	"verif/harness/model"
	"verif/harness/rt"
	"verif/harness/tstype"
	"verif/harness/valgen"
)

func init() { checkBuilders["c07"] = buildC07 }

var tsModules = map[string]*tstype.Module{}

func tsParsed(path string) (*tstype.Module, error) {
	if m, ok := tsModules[path]; ok {
		return m, nil
	}
	b, err := os.ReadFile(path)
	if err != nil {
		return nil, err
	}
	m, err := tstype.ParseModule(string(b))
	if err != nil {
		return nil, err
	}
	tsModules[path] = m
	return m, nil
}

// buildC07: wire JSON and handler inputs inhabit the generated TypeScript types.
func buildC07(e *engine, p *rt.Package) {
	var srv *server
	tsPort := 0
	declChecked := false
	for _, svc := range p.Services {
		if svc.Register == nil {
			continue
		}
		for _, m := range svc.Methods {
			svc, m := svc, m
			info := rpcInfo(svc, m)
			e.units = append(e.units, &unit{check: "c07", schema: p.ID, name: svc.Name + "." + m.Name, prop: func(res *Result) func(t *rapid.T) {
				if !info.ExplicitPath {
					res.Skipped = "RPC without an explicit path"
					return func(t *rapid.T) {}
				}
				clientPath, serverPath := tsModule(e, p.ID, "_client.ts"), tsModule(e, p.ID, "_server.ts")
				cm, err1 := tsParsed(clientPath)
				sm, err2 := tsParsed(serverPath)
				if err1 != nil || err2 != nil {
					// a declaration outside the supported subset is a harness gap, never a violation
					res.Failed, res.Message = true, fmt.Sprintf("infrastructure: TypeScript declarations of %s cannot be read: %v %v", p.ID, err1, err2)
					return func(t *rapid.T) {}
				}
				if srv == nil {
					srv = newServer(p, false)
				}
				lenient := e.avoid("ts_required_but_omitted_when_zero")
				if lenient {
					res.excluded(e.cfg.Avoid["ts_required_but_omitted_when_zero"] + ":ts_required_but_omitted_when_zero")
				}
				opt := tstype.Options{AllowMissingRequired: lenient}
				key := svc.Name + "Client." + lowerFirstASCII(m.Name)
				retType := cm.Returns[key]
				params := cm.Params[key]
				// TS server (for handler arguments)
				drv, derr := getNode(e)
				if derr != nil {
					res.Failed, res.Message = true, "infrastructure: "+derr.Error()
					return func(t *rapid.T) {}
				}
				if tsPort == 0 {
					var names []string
					for _, s := range p.Services {
						names = append(names, s.Name)
					}
					r, err := drv.Call(map[string]any{"op": "ts_server_start", "sid": "c07-" + p.ID, "module": serverPath, "services": names})
					if err != nil || !r.OK() {
						tsPort = -1
					} else {
						pn, _ := r["port"].(json.Number).Int64()
						tsPort = int(pn)
					}
				}
				var goClientToTS rt.Caller
				if tsPort > 0 && svc.NewClient != nil { // a server-only package has no Go client to call the TS server with
					goClientToTS = svc.NewClient(fmt.Sprintf("http://127.0.0.1:%d", tsPort), rt.ClientOpts{HTTPClient: &http.Client{Timeout: 30 * time.Second}})
				}
				eff, ambiguous := effectiveHeaders(info.SvcHeaders, info.MethodHeaders)
				nonStringPath := false
				for _, fd := range info.PathFields {
					if fd != nil && fd.Kind() != protoreflect.StringKind {
						nonStringPath = true
					}
				}
				return func(t *rapid.T) {
					if srv.regErr != "" {
						t.Fatalf("%s", srv.regErr)
					}
					// the two TypeScript plugins must emit the same declarations for the same messages
					if !declChecked {
						declChecked = true
						var names []string
						for n := range cm.Types {
							names = append(names, n)
						}
						sort.Strings(names)
						for _, n := range names {
							if st, ok := sm.Types[n]; ok && !tstype.Equal(cm.Types[n], st) {
								t.Fatalf("ts-client and ts-server declare type %s differently", n)
							}
						}
					}
					if retType == nil || len(params) == 0 {
						t.Fatalf("the TypeScript client class %sClient has no method %s with a typed request and result", svc.Name, lowerFirstASCII(m.Name))
					}
					o := valgen.Opts{JSONSafe: true, NoNaN: true, UnknownEnums: false}
					req := drawRequest(t, info, m, o, true)
					rm := req.ProtoReflect()
					if !info.BodyVerb {
						for _, q := range info.Query {
							if q.Required && !q.Field.IsList() && !rm.Has(q.Field) {
								rm.Set(q.Field, safePathValue(t, q.Field, "rq"))
							}
						}
					}
					resp := valgen.Message(t, m.NewResp, "resp", o)
					mode := rapid.SampledFrom([]string{"go_response", "go_response", "request_form", "ts_handler_argument"}).Draw(t, "mode")
					res.class("mode:" + mode)
					switch mode {
					case "go_response":
						var body []byte
						if info.BodyVerb {
							body, _ = model.EncodeBytes(rm)
						}
						srv.reset(func(string, string, proto.Message) (proto.Message, error) { return resp, nil })
						hdr := jsonHeader()
						// the declared result type describes every response labelled application/json, whatever
						// content type the request carried
						if ct := rapid.SampledFrom([]string{"application/json", "application/json", "application/json; charset=utf-8", "text/plain;charset=UTF-8", "Application/JSON", "application/x-www-form-urlencoded"}).Draw(t, "request_content_type"); ct != "application/json" {
							hdr.Set("Content-Type", ct)
							res.class("request_content_type:other")
						}
						for _, h := range eff {
							hdr.Set(h.GetName(), goodHeaderValue(h))
						}
						rec, panicked := srv.serve(info.Verb, buildTarget(info, rm, !info.BodyVerb), hdr, body)
						srv.taken()
						if panicked != "" || rec.Code != 200 || !strings.HasPrefix(strings.ToLower(rec.Header().Get("Content-Type")), "application/json") {
							return // transport problems are C01/C05's subject
						}
						tree, err := model.ParseJSON(rec.Body.Bytes())
						if err != nil {
							return
						}
						res.nontrivial("resp|" + rec.Body.String())
						res.sample(map[string]any{"rpc": m.Name, "go_server_response": json.RawMessage(rec.Body.Bytes())})
						if d := cm.Inhabits(tree, retType, opt); d != "" {
							t.Fatalf("the Go server's response for %s is not a value of the result type the TypeScript client declares: %s\nwire: %s", m.Name, d, short(rec.Body.String(), 500))
						}
					case "request_form":
						tree, err := model.Encode(rm)
						if err != nil {
							res.Unspecified++
							return
						}
						res.nontrivial("req|" + string(mustJSON(tree)))
						if d := cm.Inhabits(tree, params[0], opt); d != "" {
							t.Fatalf("the contract-form request of %s (accepted by the Go server) is not a value of the declared request interface: %s\nrequest: %s", m.Name, d, short(string(mustJSON(tree)), 500))
						}
					case "ts_handler_argument":
						if goClientToTS == nil || ambiguous {
							return
						}
						if nonStringPath && e.avoid("ts_handler_path_params_typed_as_strings") {
							res.excluded(e.cfg.Avoid["ts_handler_path_params_typed_as_strings"] + ":ts_handler_path_params_typed_as_strings")
							return
						}
						if !info.BodyVerb && absentInt64Query(info, rm) && e.avoid("ts_server_absent_int64_query_empty_string") {
							res.excluded(e.cfg.Avoid["ts_server_absent_int64_query_empty_string"] + ":ts_server_absent_int64_query_empty_string")
							return
						}
						respTree, err := model.Encode(resp.ProtoReflect())
						if err != nil {
							return
						}
						_, _ = drv.Call(map[string]any{"op": "ts_server_respond", "sid": "c07-" + p.ID, "service": svc.Name, "method": m.Name, "response": respTree})
						_, _ = drv.Call(map[string]any{"op": "ts_server_calls", "sid": "c07-" + p.ID})
						var hdrs [][2]string
						for _, h := range eff {
							hdrs = append(hdrs, [2]string{h.GetName(), goodHeaderValue(h)})
						}
						if _, err := goClientToTS(context.Background(), m.Name, req, rt.CallOpts{Headers: hdrs}); err != nil {
							return // C08 judges delivery
						}
						r, err := drv.Call(map[string]any{"op": "ts_server_calls", "sid": "c07-" + p.ID})
						if err != nil || !r.OK() {
							return
						}
						calls, _ := r["calls"].([]any)
						if len(calls) != 1 {
							return
						}
						arg := treeOf(calls[0].(map[string]any)["request"])
						reqTypeName := ""
						if params[0].Kind == "ref" {
							reqTypeName = params[0].Name
						}
						st := sm.Types[reqTypeName]
						if st == nil {
							t.Fatalf("the TypeScript server module does not declare the request type %s", reqTypeName)
						}
						res.nontrivial("arg|" + string(mustJSON(arg)))
						res.sample(map[string]any{"rpc": m.Name, "ts_handler_argument": arg})
						if d := sm.Inhabits(arg, st, opt); d != "" {
							t.Fatalf("the object the TypeScript server passes to handler %s is not a value of the declared request interface %s: %s\nargument: %s", lowerFirstASCII(m.Name), reqTypeName, d, short(string(mustJSON(arg)), 500))
						}
					}
				}
			}})
		}
	}
}

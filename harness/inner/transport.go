package inner

import (
	"regexp"
	"strings"

	sebufhttp "github.com/SebastienMelki/sebuf/http"
	"google.golang.org/protobuf/proto"
	"google.golang.org/protobuf/reflect/protoreflect"
	"google.golang.org/protobuf/reflect/protoregistry"
	"google.golang.org/protobuf/types/descriptorpb"

	"verif/harness/model"
	"verif/harness/rt"
)

// RPCInfo is the published contract of one RPC, derived from its annotations by the
// documented rules only (verb default POST; path = base_path joined with the method path).
type RPCInfo struct {
	Service, Method string
	Verb            string
	BodyVerb        bool
	HasConfig       bool   // method has a sebuf.http.config annotation
	ExplicitPath    bool   // config.path non-empty
	Template        string // full documented template (base + path); "" when the path is defaulted
	PathVars        []string
	PathFields      []protoreflect.FieldDescriptor
	Query           []QueryInfo
	SvcHeaders      []*sebufhttp.Header
	MethodHeaders   []*sebufhttp.Header
	In, Out         protoreflect.MessageDescriptor
}

// QueryInfo is one query-bound field.
type QueryInfo struct {
	Field    protoreflect.FieldDescriptor
	Name     string
	Required bool
}

var pathVarRe = regexp.MustCompile(`\{([^}]+)\}`)

func rpcInfo(svc *rt.Service, m *rt.Method) *RPCInfo {
	in := m.NewReq().ProtoReflect().Descriptor()
	out := m.NewResp().ProtoReflect().Descriptor()
	info := &RPCInfo{Service: svc.Name, Method: m.Name, Verb: "POST", In: in, Out: out}
	// find the service descriptor in the request type's file (or any file of its package)
	var md protoreflect.MethodDescriptor
	var sd protoreflect.ServiceDescriptor
	fd := in.ParentFile()
	find := func(f protoreflect.FileDescriptor) {
		for i := 0; i < f.Services().Len(); i++ {
			s := f.Services().Get(i)
			if goCamel(string(s.Name())) != svc.Name && string(s.Name()) != svc.Name {
				continue
			}
			for j := 0; j < s.Methods().Len(); j++ {
				mm := s.Methods().Get(j)
				if (goCamel(string(mm.Name())) == m.Name || string(mm.Name()) == m.Name) && mm.Input().FullName() == in.FullName() {
					sd, md = s, mm
				}
			}
		}
	}
	find(fd)
	if md == nil {
		// the service may live in another file than its request type (models/ + services/ layouts, shared types)
		protoregistry.GlobalFiles.RangeFiles(func(f protoreflect.FileDescriptor) bool {
			if md == nil && f.Path() != fd.Path() && strings.HasPrefix(f.Path(), strings.SplitN(fd.Path(), "/", 2)[0]+"/") {
				find(f)
			}
			return md == nil
		})
	}
	if md == nil {
		return info
	}
	base := ""
	if so, ok := sd.Options().(*descriptorpb.ServiceOptions); ok && so != nil {
		if proto.HasExtension(so, sebufhttp.E_ServiceConfig) {
			base = proto.GetExtension(so, sebufhttp.E_ServiceConfig).(*sebufhttp.ServiceConfig).GetBasePath()
		}
		if proto.HasExtension(so, sebufhttp.E_ServiceHeaders) {
			info.SvcHeaders = proto.GetExtension(so, sebufhttp.E_ServiceHeaders).(*sebufhttp.ServiceHeaders).GetRequiredHeaders()
		}
	}
	path := ""
	if mo, ok := md.Options().(*descriptorpb.MethodOptions); ok && mo != nil {
		if proto.HasExtension(mo, sebufhttp.E_Config) {
			cfg := proto.GetExtension(mo, sebufhttp.E_Config).(*sebufhttp.HttpConfig)
			info.HasConfig = true
			path = cfg.GetPath()
			switch cfg.GetMethod() {
			case sebufhttp.HttpMethod_HTTP_METHOD_GET:
				info.Verb = "GET"
			case sebufhttp.HttpMethod_HTTP_METHOD_PUT:
				info.Verb = "PUT"
			case sebufhttp.HttpMethod_HTTP_METHOD_DELETE:
				info.Verb = "DELETE"
			case sebufhttp.HttpMethod_HTTP_METHOD_PATCH:
				info.Verb = "PATCH"
			}
		}
		if proto.HasExtension(mo, sebufhttp.E_MethodHeaders) {
			info.MethodHeaders = proto.GetExtension(mo, sebufhttp.E_MethodHeaders).(*sebufhttp.MethodHeaders).GetRequiredHeaders()
		}
	}
	info.BodyVerb = info.Verb == "POST" || info.Verb == "PUT" || info.Verb == "PATCH"
	if path != "" {
		info.ExplicitPath = true
		if !strings.HasPrefix(path, "/") {
			path = "/" + path
		}
		b := strings.TrimSuffix(base, "/")
		if b != "" && !strings.HasPrefix(b, "/") {
			b = "/" + b
		}
		info.Template = b + path
		for _, mt := range pathVarRe.FindAllStringSubmatch(path, -1) {
			info.PathVars = append(info.PathVars, mt[1])
			info.PathFields = append(info.PathFields, in.Fields().ByName(protoreflect.Name(mt[1])))
		}
	}
	for i := 0; i < in.Fields().Len(); i++ {
		f := in.Fields().Get(i)
		if q := model.Query(f); q != nil {
			name := q.GetName()
			if name == "" {
				name = string(f.Name())
			}
			info.Query = append(info.Query, QueryInfo{Field: f, Name: name, Required: q.GetRequired()})
		}
	}
	return info
}

// goCamel is protoc-gen-go's GoCamelCase (used only to match descriptor names to Go names).
func goCamel(s string) string {
	var b []byte
	for i := 0; i < len(s); i++ {
		c := s[i]
		switch {
		case c == '.' && i+1 < len(s) && isLower(s[i+1]):
		case c == '.':
			b = append(b, '_')
		case c == '_' && (i == 0 || s[i-1] == '.'):
			b = append(b, 'X')
		case c == '_' && i+1 < len(s) && isLower(s[i+1]):
		case isDigit(c):
			b = append(b, c)
		default:
			if isLower(c) {
				c -= 'a' - 'A'
			}
			b = append(b, c)
			for ; i+1 < len(s) && isLower(s[i+1]); i++ {
				b = append(b, s[i+1])
			}
		}
	}
	return string(b)
}

func isLower(c byte) bool { return 'a' <= c && c <= 'z' }
func isDigit(c byte) bool { return '0' <= c && c <= '9' }

// isURLBound reports whether fd is carried by the URL for this RPC on the wire the client uses.
func (i *RPCInfo) pathBound(fd protoreflect.FieldDescriptor) bool {
	for _, p := range i.PathFields {
		if p != nil && p.FullName() == fd.FullName() {
			return true
		}
	}
	return false
}

func (i *RPCInfo) queryBound(fd protoreflect.FieldDescriptor) bool {
	for _, q := range i.Query {
		if q.Field.FullName() == fd.FullName() {
			return true
		}
	}
	return false
}

package inner

import (
	"bytes"
	"encoding/json"
	"fmt"
	"io"
	"net/http"
	"sort"
	"strings"
	"time"

	"pgregory.net/rapid"

	"verif/harness/rt"
	"verif/harness/valgen"
)

func init() { checkBuilders["c10tssrv"] = buildC10TSServer }

type tsViolation struct {
	Field       string `json:"field"`
	Description string `json:"description"`
}

// buildC10TSServer: the error surface of the emitted TypeScript server (the TS-server half of C10). A handler
// error gives 500 with a body carrying its message, a ValidationError thrown by the handler or a header failure
// gives 400 with the list of violations, and a configured onError hook replaces the answer for everything that is
// not a validation failure.
func buildC10TSServer(e *engine, p *rt.Package) {
	ports := map[bool]int{}
	for _, svc := range p.Services {
		if svc.Register == nil && svc.NewClient == nil {
			continue
		}
		for _, m := range svc.Methods {
			svc, m := svc, m
			info := rpcInfo(svc, m)
			e.units = append(e.units, &unit{check: "c10tssrv", schema: p.ID, name: svc.Name + "." + m.Name, casesDiv: 5, prop: func(res *Result) func(t *rapid.T) {
				if !info.ExplicitPath {
					res.Skipped = "RPC without an explicit path"
					return func(t *rapid.T) {}
				}
				for _, fd := range info.PathFields {
					if fd == nil {
						res.Skipped = "path variable without a field"
						return func(t *rapid.T) {}
					}
				}
				eff, ambiguous := effectiveHeaders(info.SvcHeaders, info.MethodHeaders)
				headerCases := !ambiguous
				for _, mh := range info.MethodHeaders {
					for _, sh := range info.SvcHeaders {
						if strings.EqualFold(mh.GetName(), sh.GetName()) && e.avoid("ts_header_override_not_merged") {
							// the TS server checks both declarations: no value set satisfies it when they differ
							res.Skipped = "method-level override of a service header"
							res.excluded(e.cfg.Avoid["ts_header_override_not_merged"] + ":ts_header_override_not_merged")
							return func(t *rapid.T) {}
						}
					}
				}
				var required []string
				for _, h := range eff {
					if h.GetRequired() {
						required = append(required, h.GetName())
					}
				}
				serverPath := tsModule(e, p.ID, "_server.ts")
				drv, derr := getNode(e)
				if derr != nil || serverPath == "" {
					res.Failed, res.Message = true, fmt.Sprintf("infrastructure: node driver / TypeScript server module unavailable: %v", derr)
					return func(t *rapid.T) {}
				}
				sid := func(hook bool) string { return fmt.Sprintf("c10tssrv-%s-%v", p.ID, hook) }
				for _, hook := range []bool{false, true} {
					if ports[hook] != 0 {
						continue
					}
					var names []string
					for _, s := range p.Services {
						names = append(names, s.Name)
					}
					r, err := drv.Call(map[string]any{"op": "ts_server_start", "sid": sid(hook), "module": serverPath, "services": names, "onError": hook})
					if err != nil || !r.OK() {
						ports[hook] = -1
					} else {
						pn, _ := r["port"].(json.Number).Int64()
						ports[hook] = int(pn)
					}
				}
				if ports[false] <= 0 || ports[true] <= 0 {
					res.Skipped = "the TypeScript server of this schema does not start (C13 / C08 judge that)"
					return func(t *rapid.T) {}
				}
				hc := &http.Client{Timeout: 30 * time.Second, CheckRedirect: func(*http.Request, []*http.Request) error { return http.ErrUseLastResponse }}
				return func(t *rapid.T) {
					hook := rapid.Bool().Draw(t, "on_error_hook")
					sources := []string{"handler_error", "handler_validation_error"}
					if headerCases && len(required) > 0 {
						sources = append(sources, "header_violation", "header_violation")
					}
					source := rapid.SampledFrom(sources).Draw(t, "source")
					res.class("source:" + source)
					if hook {
						res.class("hook:onError")
					}
					req := drawRequest(t, info, m, valgen.Opts{JSONSafe: true, NoNaN: true}, true)
					target := buildTarget(info, req.ProtoReflect(), !info.BodyVerb)
					hdr := http.Header{"Content-Type": []string{"application/json"}}
					for _, h := range eff {
						hdr[http.CanonicalHeaderKey(h.GetName())] = []string{goodHeaderValue(h)}
					}
					var omitted []string
					var respond map[string]any
					msg := "boom " + rapid.StringMatching(`[a-zA-Z0-9 _\-]{0,12}`).Draw(t, "msg")
					var wantViolations []tsViolation
					switch source {
					case "handler_error":
						respond = map[string]any{"message": msg}
					case "handler_validation_error":
						n := rapid.IntRange(1, 3).Draw(t, "nviol")
						var vs []any
						for i := 0; i < n; i++ {
							v := tsViolation{Field: rapid.SampledFrom([]string{"name", "user.email", "items[2].sku", "tags", ""}).Draw(t, fmt.Sprintf("vfield%d", i)), Description: fmt.Sprintf("bad %d", i)}
							wantViolations = append(wantViolations, v)
							vs = append(vs, map[string]any{"field": v.Field, "description": v.Description})
						}
						respond = map[string]any{"kind": "validation", "violations": vs}
					case "header_violation":
						// leave out a non-empty subset of the required headers
						for _, name := range required {
							if rapid.Bool().Draw(t, "omit."+name) {
								omitted = append(omitted, strings.ToLower(name))
								hdr.Del(name)
							}
						}
						if len(omitted) == 0 {
							omitted = append(omitted, strings.ToLower(required[0]))
							hdr.Del(required[0])
						}
						sort.Strings(omitted)
					}
					cfg := map[string]any{"op": "ts_server_respond", "sid": sid(hook), "service": svc.Name, "method": m.Name, "response": map[string]any{}}
					if respond != nil {
						cfg["error"] = respond
					}
					if r, err := drv.Call(cfg); err != nil || !r.OK() {
						panic(infraError(fmt.Sprint("node driver: ", err, r)))
					}
					_, _ = drv.Call(map[string]any{"op": "ts_server_calls", "sid": sid(hook)})
					var body io.Reader
					if info.BodyVerb {
						body = bytes.NewReader([]byte("{}"))
					}
					hreq, err := http.NewRequest(info.Verb, fmt.Sprintf("http://127.0.0.1:%d%s", ports[hook], target), body)
					if err != nil {
						return
					}
					hreq.Header = hdr
					resp, err := hc.Do(hreq)
					if err != nil {
						res.Unspecified++
						return
					}
					rb, _ := io.ReadAll(resp.Body)
					_ = resp.Body.Close()
					cr, cerr := drv.Call(map[string]any{"op": "ts_server_calls", "sid": sid(hook)})
					if cerr != nil || !cr.OK() {
						panic(infraError(fmt.Sprint("node driver: ", cerr, cr)))
					}
					calls, _ := cr["calls"].([]any)
					desc := fmt.Sprintf("ts-server %s %s source=%s hook=%v headers=%v", info.Verb, target, source, hook, printableHeaders(hdr))
					if resp.StatusCode == 597 {
						res.Unspecified++
						return
					}
					res.nontrivial(desc + "|" + msg)
					res.sample(map[string]any{"request": desc, "status": resp.StatusCode, "body": short(string(rb), 200)})
					readViolations := func() []tsViolation {
						var ve struct {
							Violations []tsViolation `json:"violations"`
						}
						if err := json.Unmarshal(rb, &ve); err != nil {
							t.Fatalf("%s: 400 body is not a ValidationError document: %v: %s", desc, err, short(string(rb), 300))
						}
						return ve.Violations
					}
					switch source {
					case "handler_error":
						if len(calls) != 1 {
							t.Fatalf("%s: a valid request reached the handler %d times", desc, len(calls))
						}
						if hook {
							var got struct {
								Hooked  bool   `json:"hooked"`
								Message string `json:"message"`
							}
							if resp.StatusCode != 599 || json.Unmarshal(rb, &got) != nil || !got.Hooked || got.Message != msg {
								t.Fatalf("%s: the configured onError hook answers 599 {hooked, message=%q}; the client received %d %s", desc, msg, resp.StatusCode, short(string(rb), 300))
							}
							return
						}
						var got struct {
							Message string `json:"message"`
						}
						if resp.StatusCode != 500 || json.Unmarshal(rb, &got) != nil || got.Message != msg {
							t.Fatalf("%s: a handler error %q must give 500 with a body carrying its message; got %d %s", desc, msg, resp.StatusCode, short(string(rb), 300))
						}
					case "handler_validation_error":
						if resp.StatusCode != 400 {
							t.Fatalf("%s: a ValidationError thrown by the handler must give 400; got %d %s", desc, resp.StatusCode, short(string(rb), 300))
						}
						got := readViolations()
						if fmt.Sprint(got) != fmt.Sprint(wantViolations) {
							t.Fatalf("%s: the handler's violations %v came back as %v", desc, wantViolations, got)
						}
					case "header_violation":
						if resp.StatusCode != 400 || len(calls) != 0 {
							t.Fatalf("%s: missing required headers %v must give 400 without dispatch; got %d with %d handler calls: %s", desc, omitted, resp.StatusCode, len(calls), short(string(rb), 300))
						}
						var got []string
						for _, v := range readViolations() {
							got = append(got, strings.ToLower(v.Field))
						}
						sort.Strings(got)
						if strings.Join(got, "|") != strings.Join(omitted, "|") {
							t.Fatalf("%s: the 400 must list one violation per missing header %v, it lists %v", desc, omitted, got)
						}
					}
				}
			}})
		}
	}
}

package inner

import (
	"context"
	"encoding/json"
	"errors"
	"fmt"
	"net/http"
	"strings"

	"google.golang.org/protobuf/proto"
	"google.golang.org/protobuf/reflect/protoreflect"
	"pgregory.net/rapid"

	"verif/harness/model"
	"verif/harness/rt"
	"verif/harness/valgen"
)

func init() {
	checkBuilders["c05"] = buildC05
	checkBuilders["c01"] = buildC01
}

func jsonHeader() http.Header { return http.Header{"Content-Type": []string{"application/json"}} }

// contextOf classifies where annotated messages occur below md (C05 contexts).
func annotationContexts(md protoreflect.MessageDescriptor) []string {
	var out []string
	add := func(s string) {
		for _, o := range out {
			if o == s {
				return
			}
		}
		out = append(out, s)
	}
	if model.HasAnnotations(md) {
		add("ctx:top_level")
	}
	fs := md.Fields()
	for i := 0; i < fs.Len(); i++ {
		fd := fs.Get(i)
		var child protoreflect.MessageDescriptor
		ctx := ""
		switch {
		case fd.IsMap():
			if fd.MapValue().Kind() == protoreflect.MessageKind {
				child, ctx = fd.MapValue().Message(), "ctx:map_value"
			}
		case fd.Kind() == protoreflect.MessageKind && fd.IsList():
			child, ctx = fd.Message(), "ctx:repeated_element"
		case fd.Kind() == protoreflect.MessageKind:
			child, ctx = fd.Message(), "ctx:singular_child"
			if od := fd.ContainingOneof(); od != nil && !od.IsSynthetic() {
				ctx = "ctx:oneof_variant"
				if model.OneofConfig(od) != nil {
					ctx = "ctx:discriminated_variant"
				}
			}
			if fl, _ := model.Flatten(fd); fl {
				ctx = "ctx:flatten_child"
			}
		}
		if child != nil && deepAnnotated(child, map[protoreflect.FullName]bool{}) {
			add(ctx)
		}
	}
	return out
}

// buildC05: the JSON the server sends and accepts follows the documented mapping.
func buildC05(e *engine, p *rt.Package) {
	var srv *server
	for _, svc := range p.Services {
		if svc.Register == nil {
			continue
		}
		for _, m := range svc.Methods {
			svc, m := svc, m
			info := rpcInfo(svc, m)
			e.units = append(e.units, &unit{check: "c05", schema: p.ID, name: svc.Name + "." + m.Name, prop: func(res *Result) func(t *rapid.T) {
				if !info.ExplicitPath {
					res.Skipped = "RPC without an explicit path (route defaulting is C03's subject)"
					return func(t *rapid.T) {}
				}
				if srv == nil {
					srv = newServer(p, false)
				}
				reqFeats, respFeats := msgFeatures(info.In), msgFeatures(info.Out)
				for _, f := range reqFeats {
					res.class("request:" + f)
				}
				for _, f := range respFeats {
					res.class("response:" + f)
				}
				for _, c := range annotationContexts(info.Out) {
					res.class("response:" + c)
				}
				for _, c := range annotationContexts(info.In) {
					res.class("request:" + c)
				}
				res.class("verb:" + info.Verb)
				annotated := deepAnnotated(info.In, map[protoreflect.FullName]bool{}) || deepAnnotated(info.Out, map[protoreflect.FullName]bool{})
				return func(t *rapid.T) {
					if srv.regErr != "" {
						t.Fatalf("%s", srv.regErr)
					}
					o := valgen.Opts{UnknownEnums: true}
					req := drawRequest(t, info, m, o, true)
					resp := valgen.Message(t, m.NewResp, "resp", o)
					var body []byte
					if info.BodyVerb {
						tree, err := model.Encode(req.ProtoReflect())
						if err != nil {
							var un *model.ErrUnspecified
							if errors.As(err, &un) {
								res.Unspecified++
								return
							}
							t.Fatalf("model: %v", err)
						}
						body, _ = json.Marshal(tree)
					}
					wantTree, err := model.Encode(resp.ProtoReflect())
					if err != nil {
						var un *model.ErrUnspecified
						if errors.As(err, &un) {
							res.Unspecified++
							return
						}
						t.Fatalf("model: %v", err)
					}
					srv.reset(func(string, string, proto.Message) (proto.Message, error) { return resp, nil })
					target := buildTarget(info, req.ProtoReflect(), !info.BodyVerb)
					// the request's content type: JSON in its usual spellings, and labels the server does not know
					// (it treats them as JSON). Whatever the request said, a response labelled application/json
					// must be the documented mapping.
					ct := rapid.SampledFrom([]string{"application/json", "application/json", "application/json", "application/json", "application/json; charset=utf-8",
						"", "text/plain;charset=UTF-8", "Application/JSON", "application/x-www-form-urlencoded", "application/vnd.api+json"}).Draw(t, "request_content_type")
					hdr := http.Header{}
					if ct != "" {
						hdr.Set("Content-Type", ct)
					}
					plainJSON := strings.HasPrefix(ct, "application/json")
					if !plainJSON {
						res.class("request_content_type:other")
					}
					if len(body) > 0 && rapid.IntRange(0, 5).Draw(t, "unknown_length") == 0 {
						hdr[unknownLengthMarker] = []string{"1"} // streamed body: no Content-Length
						res.class("transfer:chunked")
					}
					rec, panicked := srv.serve(info.Verb, target, hdr, body)
					if panicked != "" {
						t.Fatalf("server panicked on %s %s: %s\nbody: %s", info.Verb, target, panicked, short(string(body), 500))
					}
					calls := srv.taken()
					if !plainJSON && (rec.Code != 200 || !strings.HasPrefix(strings.ToLower(rec.Header().Get("Content-Type")), "application/json")) {
						res.Unspecified++ // how an unknown request content type is bound is not documented
						return
					}
					if rec.Code != 200 {
						t.Fatalf("%s %s with the model-encoded body was answered %d: %s\nbody: %s\nrequest value: %s", info.Verb, target, rec.Code, short(rec.Body.String(), 400), short(string(body), 600), pjson(req))
					}
					if len(calls) != 1 || calls[0].Method != m.Name || calls[0].Service != svc.Name {
						t.Fatalf("%s %s: expected exactly one call of %s.%s, handler log: %d calls", info.Verb, target, svc.Name, m.Name, len(calls))
					}
					if annotated || presenceSensitive(req.ProtoReflect()) || presenceSensitive(resp.ProtoReflect()) {
						res.nontrivial(valueKey(req) + valueKey(resp))
					}
					res.sample(map[string]any{"request_line": info.Verb + " " + target, "request_body": json.RawMessage(orNull(body)), "response_value": json.RawMessage(safeJSON(resp))})
					// accepted form: handler-visible request equals the encoded value
					if info.BodyVerb && plainJSON {
						want := model.Normalize(req)
						if got := model.Normalize(calls[0].Req); !proto.Equal(got, want) {
							t.Fatalf("request direction: the server decoded the documented JSON form into a different message\nbody: %s\nwant: %s\ngot:  %s", short(string(body), 600), pjson(want), pjson(got))
						}
					}
					// sent form: response body is the documented mapping
					gotTree, err := model.ParseJSON(rec.Body.Bytes())
					if err != nil {
						t.Fatalf("response body is not JSON: %v: %s", err, short(rec.Body.String(), 300))
					}
					if d := model.Diff(wantTree, gotTree); d != "" {
						t.Fatalf("response direction: server JSON differs from the documented mapping at %s\nmessage: %s\nserver:   %s\nexpected: %s", d, pjson(resp), short(rec.Body.String(), 700), short(string(mustJSON(wantTree)), 700))
					}
				}
			}})
		}
	}
}

func orNull(b []byte) []byte {
	if len(b) == 0 {
		return []byte("null")
	}
	return b
}

func mustJSON(v any) []byte {
	b, _ := json.Marshal(v)
	return b
}

// interesting reports a URL-bound field with a non-default value containing reserved or
// non-ASCII characters or a numeric extreme.
func interestingURLValue(info *RPCInfo, m protoreflect.Message) bool {
	check := func(fd protoreflect.FieldDescriptor) bool {
		if fd == nil || fd.IsList() || !m.Has(fd) {
			return false
		}
		s := formatScalar(fd, m.Get(fd))
		if fd.Kind() == protoreflect.StringKind {
			return strings.ContainsAny(s, "/?#%&=+; ") || !isASCII(s)
		}
		return len(s) >= 9
	}
	for _, fd := range info.PathFields {
		if check(fd) {
			return true
		}
	}
	for _, q := range info.Query {
		if check(q.Field) {
			return true
		}
	}
	return false
}

func isASCII(s string) bool {
	for i := 0; i < len(s); i++ {
		if s[i] >= 0x80 {
			return false
		}
	}
	return true
}

var contentTypes = []string{"application/json", "application/x-protobuf", "application/octet-stream"}

// buildC01: generated Go client -> generated Go server delivers exact request and response.
func buildC01(e *engine, p *rt.Package) {
	var srv *server
	for _, svc := range p.Services {
		if svc.Register == nil || svc.NewClient == nil {
			continue
		}
		for _, m := range svc.Methods {
			svc, m := svc, m
			info := rpcInfo(svc, m)
			e.units = append(e.units, &unit{check: "c01", schema: p.ID, name: svc.Name + "." + m.Name, prop: func(res *Result) func(t *rapid.T) {
				if !info.ExplicitPath && e.avoid("default_path_disagreement") {
					res.Skipped = "RPC without an explicit path"
					res.excluded(e.cfg.Avoid["default_path_disagreement"] + ":default_path_disagreement")
					return func(t *rapid.T) {}
				}
				if srv == nil {
					srv = newServer(p, false)
				}
				tr := &transport{s: srv}
				hc := &http.Client{Transport: tr, CheckRedirect: func(*http.Request, []*http.Request) error { return http.ErrUseLastResponse }}
				res.class("verb:" + info.Verb)
				res.class(fmt.Sprintf("path_vars:%d", len(info.PathVars)))
				for _, fd := range info.PathFields {
					if fd != nil {
						res.class("path_kind:" + fd.Kind().String())
					}
				}
				for _, q := range info.Query {
					if !info.BodyVerb {
						res.class("query_kind:" + q.Field.Kind().String())
					}
				}
				return func(t *rapid.T) {
					if srv.regErr != "" {
						t.Fatalf("%s", srv.regErr)
					}
					ct := contentTypes[rapid.IntRange(0, len(contentTypes)-1).Draw(t, "content_type")]
					if ct == "application/octet-stream" && e.avoid("client_octet_stream") {
						res.excluded(e.cfg.Avoid["client_octet_stream"] + ":client_octet_stream")
						ct = "application/x-protobuf"
					}
					perCall := rapid.Bool().Draw(t, "per_call_content_type")
					trailing := rapid.Bool().Draw(t, "base_url_trailing_slash")
					o := valgen.Opts{UnknownEnums: ct != "application/json"}
					req := drawRequest(t, info, m, o, false)
					rm := req.ProtoReflect()
					// required query parameters: the client elides zero values, so a required parameter
					// is only deliverable when non-zero (documented zero-value elision)
					if !info.BodyVerb {
						for _, q := range info.Query {
							// zero-value elision covers negative zero: a query-bound float of -0 is not sent
							if k := q.Field.Kind(); (k == protoreflect.FloatKind || k == protoreflect.DoubleKind) && !q.Field.IsList() && rm.Has(q.Field) && rm.Get(q.Field).Float() == 0 {
								rm.Clear(q.Field)
							}
							if q.Required && !q.Field.IsList() && !rm.Has(q.Field) {
								rm.Set(q.Field, safePathValue(t, q.Field, "reqquery."+string(q.Field.Name())))
							}
						}
					}
					if forced := e.cfg.Extra["force_path_value"]; forced != "" {
						for _, fd := range info.PathFields {
							if fd != nil && fd.Kind() == protoreflect.StringKind {
								rm.Set(fd, protoreflect.ValueOfString(forced))
							}
						}
					}
					for _, fd := range info.PathFields {
						if fd != nil && fd.Kind() == protoreflect.StringKind && (e.avoid("path_dot_segments") || e.avoid("path_value_single_slash")) {
							if s := rm.Get(fd).String(); s == "/" && e.avoid("path_value_single_slash") {
								res.excluded(e.cfg.Avoid["path_value_single_slash"] + ":path_value_single_slash")
								rm.Set(fd, protoreflect.ValueOfString("/x"))
							}
							if s := rm.Get(fd).String(); (s == "." || s == "..") && e.avoid("path_dot_segments") {
								res.excluded(e.cfg.Avoid["path_dot_segments"] + ":path_dot_segments")
								rm.Set(fd, protoreflect.ValueOfString(s+"x"))
							}
						}
					}
					resp := valgen.Message(t, m.NewResp, "resp", o)
					srv.reset(func(string, string, proto.Message) (proto.Message, error) { return resp, nil })
					base := "http://verif.test"
					if trailing {
						base += "/"
					}
					copts := rt.ClientOpts{HTTPClient: hc}
					var call rt.CallOpts
					if perCall {
						call.ContentType = ct
					} else {
						copts.ContentType = ct
					}
					client := svc.NewClient(base, copts)
					var got proto.Message
					var err error
					panicked := ""
					func() {
						defer func() {
							if r := recover(); r != nil {
								panicked = fmt.Sprint(r)
							}
						}()
						got, err = client(context.Background(), m.Name, req, call)
					}()
					calls := srv.taken()
					line := ""
					if tr.lastReq != nil {
						line = tr.lastReq.Method + " " + tr.lastReq.URI
					}
					if panicked != "" {
						t.Fatalf("client panicked: %s (request %s)", panicked, pjson(req))
					}
					res.class("content_type:" + ct)
					if interestingURLValue(info, rm) || ct != "application/json" || deepAnnotated(info.In, map[protoreflect.FullName]bool{}) || deepAnnotated(info.Out, map[protoreflect.FullName]bool{}) {
						res.nontrivial(ct + valueKey(req) + valueKey(resp))
					}
					res.sample(map[string]any{"rpc": m.Name, "content_type": ct, "request_line": line, "request": json.RawMessage(safeJSON(req)), "response": json.RawMessage(safeJSON(resp))})
					if err != nil {
						t.Fatalf("call failed: %v\nrequest line: %s\ncontent type: %s\nrequest: %s", err, line, ct, pjson(req))
					}
					if len(calls) != 1 || calls[0].Method != m.Name || calls[0].Service != svc.Name {
						names := []string{}
						for _, c := range calls {
							names = append(names, c.Service+"."+c.Method)
						}
						t.Fatalf("expected exactly one call of %s.%s, handler saw %v (request line %s)", svc.Name, m.Name, names, line)
					}
					wantReq, wantResp := proto.Message(req), proto.Message(resp)
					gotReq, gotResp := calls[0].Req, got
					if ct == "application/json" {
						wantReq, wantResp = model.Normalize(req), model.Normalize(resp)
						gotReq, gotResp = model.Normalize(gotReq), model.Normalize(gotResp)
					}
					if !proto.Equal(gotReq, wantReq) {
						t.Fatalf("handler saw a different request (%s, %s)\nsent: %s\nseen: %s\nbody: %s", ct, line, pjson(wantReq), pjson(gotReq), short(string(tr.lastReq.Body), 400))
					}
					if gotResp == nil || !proto.Equal(gotResp, wantResp) {
						t.Fatalf("caller got a different response (%s, %s)\nreturned by handler: %s\nreceived by caller:  %s\nwire: %s", ct, line, pjson(wantResp), pjsonOrNil(gotResp), short(string(tr.lastResp), 400))
					}
				}
			}})
		}
	}
}

func pjsonOrNil(m proto.Message) string {
	if m == nil {
		return "<nil>"
	}
	return pjson(m)
}

package inner

import (
	"context"
	"encoding/json"
	"errors"
	"fmt"
	"net/http"
	"regexp"
	"sort"
	"strconv"
	"strings"

	"buf.build/gen/go/bufbuild/protovalidate/protocolbuffers/go/buf/validate"
	"buf.build/go/protovalidate"
	sebufhttp "github.com/SebastienMelki/sebuf/http"
	"google.golang.org/protobuf/encoding/protojson"
	"google.golang.org/protobuf/proto"
	"google.golang.org/protobuf/reflect/protoreflect"
	"google.golang.org/protobuf/types/descriptorpb"
	"pgregory.net/rapid"

	"verif/harness/model"
	"verif/harness/rt"
	"verif/harness/valgen"
)

func init() { checkBuilders["c10"] = buildC10 }

func fieldRules(fd protoreflect.FieldDescriptor) *validate.FieldRules {
	o, _ := fd.Options().(*descriptorpb.FieldOptions)
	if o == nil || !proto.HasExtension(o, validate.E_Field) {
		return nil
	}
	r, _ := proto.GetExtension(o, validate.E_Field).(*validate.FieldRules)
	return r
}

// repair nudges m towards satisfying the (simple) rules the schema generator emits.
func repair(m protoreflect.Message, depth int) {
	if depth > 8 {
		return
	}
	fs := m.Descriptor().Fields()
	for i := 0; i < fs.Len(); i++ {
		fd := fs.Get(i)
		r := fieldRules(fd)
		switch {
		case fd.IsMap():
			if r != nil && r.GetMap() != nil {
				mp := m.Mutable(fd).Map()
				for j := 0; uint64(mp.Len()) < r.GetMap().GetMinPairs() && j < 50; j++ {
					var k protoreflect.MapKey
					switch fd.MapKey().Kind() {
					case protoreflect.StringKind:
						k = protoreflect.ValueOfString(fmt.Sprintf("k%d", j)).MapKey()
					case protoreflect.BoolKind:
						k = protoreflect.ValueOfBool(j%2 == 0).MapKey()
					case protoreflect.Int32Kind, protoreflect.Sint32Kind, protoreflect.Sfixed32Kind:
						k = protoreflect.ValueOfInt32(int32(j + 1)).MapKey()
					case protoreflect.Int64Kind, protoreflect.Sint64Kind, protoreflect.Sfixed64Kind:
						k = protoreflect.ValueOfInt64(int64(j + 1)).MapKey()
					case protoreflect.Uint32Kind, protoreflect.Fixed32Kind:
						k = protoreflect.ValueOfUint32(uint32(j + 1)).MapKey()
					default:
						k = protoreflect.ValueOfUint64(uint64(j + 1)).MapKey()
					}
					mp.Set(k, mp.NewValue())
				}
			}
			if fd.MapValue().Kind() == protoreflect.MessageKind && m.Has(fd) {
				m.Get(fd).Map().Range(func(_ protoreflect.MapKey, v protoreflect.Value) bool {
					repair(v.Message(), depth+1)
					return true
				})
			}
		case fd.IsList():
			l := m.Mutable(fd).List()
			if r != nil && r.GetRepeated() != nil {
				rr := r.GetRepeated()
				for uint64(l.Len()) < rr.GetMinItems() {
					l.Append(l.NewElement())
				}
				if rr.MaxItems != nil && uint64(l.Len()) > rr.GetMaxItems() {
					l.Truncate(int(rr.GetMaxItems()))
				}
			}
			if fd.Kind() == protoreflect.MessageKind {
				for j := 0; j < l.Len(); j++ {
					repair(l.Get(j).Message(), depth+1)
				}
			}
			if l.Len() == 0 {
				m.Clear(fd)
			}
		case fd.Kind() == protoreflect.MessageKind:
			if m.Has(fd) {
				repair(m.Mutable(fd).Message(), depth+1)
			}
		default:
			if r == nil || (fd.HasPresence() && !m.Has(fd)) {
				continue
			}
			switch fd.Kind() {
			case protoreflect.StringKind:
				sr := r.GetString()
				if sr == nil {
					continue
				}
				s := []rune(m.Get(fd).String())
				for uint64(len(s)) < sr.GetMinLen() {
					s = append(s, 'a')
				}
				if sr.MaxLen != nil && uint64(len(s)) > sr.GetMaxLen() {
					s = s[:sr.GetMaxLen()]
				}
				m.Set(fd, protoreflect.ValueOfString(string(s)))
			case protoreflect.Int32Kind:
				clampI(m, fd, int64(r.GetInt32().GetGte()), r.GetInt32().LessThan != nil, int64(r.GetInt32().GetLte()), r.GetInt32().GreaterThan != nil)
			case protoreflect.Sint32Kind:
				clampI(m, fd, int64(r.GetSint32().GetGte()), r.GetSint32().LessThan != nil, int64(r.GetSint32().GetLte()), r.GetSint32().GreaterThan != nil)
			case protoreflect.Sfixed32Kind:
				clampI(m, fd, int64(r.GetSfixed32().GetGte()), r.GetSfixed32().LessThan != nil, int64(r.GetSfixed32().GetLte()), r.GetSfixed32().GreaterThan != nil)
			case protoreflect.Int64Kind:
				clampI(m, fd, r.GetInt64().GetGte(), r.GetInt64().LessThan != nil, r.GetInt64().GetLte(), r.GetInt64().GreaterThan != nil)
			case protoreflect.Sint64Kind:
				clampI(m, fd, r.GetSint64().GetGte(), r.GetSint64().LessThan != nil, r.GetSint64().GetLte(), r.GetSint64().GreaterThan != nil)
			case protoreflect.Sfixed64Kind:
				clampI(m, fd, r.GetSfixed64().GetGte(), r.GetSfixed64().LessThan != nil, r.GetSfixed64().GetLte(), r.GetSfixed64().GreaterThan != nil)
			case protoreflect.Uint32Kind:
				clampU(m, fd, uint64(r.GetUint32().GetGte()), r.GetUint32().LessThan != nil, uint64(r.GetUint32().GetLte()))
			case protoreflect.Fixed32Kind:
				clampU(m, fd, uint64(r.GetFixed32().GetGte()), r.GetFixed32().LessThan != nil, uint64(r.GetFixed32().GetLte()))
			case protoreflect.Uint64Kind:
				clampU(m, fd, r.GetUint64().GetGte(), r.GetUint64().LessThan != nil, r.GetUint64().GetLte())
			case protoreflect.Fixed64Kind:
				clampU(m, fd, r.GetFixed64().GetGte(), r.GetFixed64().LessThan != nil, r.GetFixed64().GetLte())
			case protoreflect.FloatKind:
				switch fr := r.GetFloat(); {
				case fr.Const != nil:
					m.Set(fd, protoreflect.ValueOfFloat32(fr.GetConst()))
				case len(fr.GetIn()) > 0:
					m.Set(fd, protoreflect.ValueOfFloat32(fr.GetIn()[0]))
				default:
					clampF(m, fd, float64(fr.GetGte()), fr.LessThan != nil, float64(fr.GetLte()), true)
				}
			case protoreflect.DoubleKind:
				switch dr := r.GetDouble(); {
				case dr.Const != nil:
					m.Set(fd, protoreflect.ValueOfFloat64(dr.GetConst()))
				case len(dr.GetIn()) > 0:
					m.Set(fd, protoreflect.ValueOfFloat64(dr.GetIn()[0]))
				default:
					clampF(m, fd, dr.GetGte(), dr.LessThan != nil, dr.GetLte(), false)
				}
			}
		}
	}
	// message-level rules of the generator's one form (this.a <= this.b / this.a >= this.b): equal values satisfy both
	if mo, ok := m.Descriptor().Options().(*descriptorpb.MessageOptions); ok && mo != nil && proto.HasExtension(mo, validate.E_Message) {
		for _, r := range proto.GetExtension(mo, validate.E_Message).(*validate.MessageRules).GetCel() {
			parts := strings.Fields(r.GetExpression())
			if len(parts) != 3 {
				continue
			}
			fa := fs.ByName(protoreflect.Name(strings.TrimPrefix(parts[0], "this.")))
			fb := fs.ByName(protoreflect.Name(strings.TrimPrefix(parts[2], "this.")))
			if fa != nil && fb != nil && fa.Kind() == fb.Kind() {
				m.Set(fa, m.Get(fb))
			}
		}
	}
}

func clampI(m protoreflect.Message, fd protoreflect.FieldDescriptor, gte int64, hasHi bool, lte int64, hasLo bool) {
	v := m.Get(fd).Int()
	if hasLo && v < gte {
		v = gte
	}
	if hasHi && v > lte {
		v = lte
	}
	if fd.Kind() == protoreflect.Int64Kind || fd.Kind() == protoreflect.Sint64Kind || fd.Kind() == protoreflect.Sfixed64Kind {
		m.Set(fd, protoreflect.ValueOfInt64(v))
	} else {
		m.Set(fd, protoreflect.ValueOfInt32(int32(v)))
	}
}

func clampU(m protoreflect.Message, fd protoreflect.FieldDescriptor, gte uint64, hasHi bool, lte uint64) {
	v := m.Get(fd).Uint()
	if v < gte {
		v = gte
	}
	if hasHi && v > lte {
		v = lte
	}
	if fd.Kind() == protoreflect.Uint64Kind || fd.Kind() == protoreflect.Fixed64Kind {
		m.Set(fd, protoreflect.ValueOfUint64(v))
	} else {
		m.Set(fd, protoreflect.ValueOfUint32(uint32(v)))
	}
}

func clampF(m protoreflect.Message, fd protoreflect.FieldDescriptor, gte float64, hasHi bool, lte float64, f32 bool) {
	v := m.Get(fd).Float()
	if v != v || v < gte {
		v = gte
	}
	if hasHi && v > lte {
		v = lte
	}
	if f32 {
		m.Set(fd, protoreflect.ValueOfFloat32(float32(v)))
	} else {
		m.Set(fd, protoreflect.ValueOfFloat64(v))
	}
}

func countEmpty(xs []string) int {
	n := 0
	for _, x := range xs {
		if x == "" {
			n++
		}
	}
	return n
}

// dropUnmatched removes the empty entries of want and as many entries of got that match no named entry of want.
func dropUnmatched(got, want []string) ([]string, []string) {
	named := map[string]int{}
	var w []string
	for _, x := range want {
		if x != "" {
			named[x]++
			w = append(w, x)
		}
	}
	spare := len(want) - len(w)
	var g []string
	for _, x := range got {
		if named[x] > 0 {
			named[x]--
			g = append(g, x)
		} else if spare > 0 {
			spare--
		} else {
			g = append(g, x)
		}
	}
	return g, w
}

var subscriptRe = regexp.MustCompile(`\[[^\]]*\]`)

// violationPaths runs the reference validator and returns the expected dotted proto field paths.
func violationPaths(m proto.Message) []string {
	err := protovalidate.Validate(m)
	if err == nil {
		return nil
	}
	var ve *protovalidate.ValidationError
	if !errors.As(err, &ve) {
		return nil
	}
	var out []string
	for _, v := range ve.Violations {
		var parts []string
		for _, e := range v.Proto.GetField().GetElements() {
			parts = append(parts, e.GetFieldName())
		}
		out = append(out, strings.Join(parts, "."))
	}
	sort.Strings(out)
	return out
}

type hookSpec struct {
	Present   bool
	ReturnMsg bool
	Status    int
	Header    bool
	WriteBody bool
}

func (h hookSpec) String() string {
	if !h.Present {
		return "none"
	}
	var p []string
	if h.ReturnMsg {
		p = append(p, "returns-message")
	} else {
		p = append(p, "returns-nil")
	}
	if h.Status != 0 {
		p = append(p, "sets-status-"+strconv.Itoa(h.Status))
	}
	if h.Header {
		p = append(p, "sets-header")
	}
	if h.WriteBody {
		p = append(p, "writes-body")
	}
	return strings.Join(p, "+")
}

// customErrors returns constructors of messages whose Go type implements error (named *Error).
func customErrors(p *rt.Package) []func() proto.Message {
	var out []func() proto.Message
	for _, nm := range p.Messages {
		m := nm()
		if _, ok := m.(error); ok && strings.HasSuffix(string(m.ProtoReflect().Descriptor().Name()), "Error") {
			out = append(out, nm)
		}
	}
	return out
}

// buildC10: errors surface with the documented status, body, format and client-side type.
func buildC10(e *engine, p *rt.Package) {
	var srv *server
	customs := customErrors(p)
	for _, svc := range p.Services {
		if svc.Register == nil || svc.NewClient == nil {
			continue
		}
		for _, m := range svc.Methods {
			svc, m := svc, m
			info := rpcInfo(svc, m)
			e.units = append(e.units, &unit{check: "c10", schema: p.ID, name: svc.Name + "." + m.Name, prop: func(res *Result) func(t *rapid.T) {
				if !info.ExplicitPath {
					res.Skipped = "RPC without an explicit path"
					return func(t *rapid.T) {}
				}
				if srv == nil {
					srv = newServer(p, true)
				}
				tr := &transport{s: srv}
				hc := &http.Client{Transport: tr, CheckRedirect: func(*http.Request, []*http.Request) error { return http.ErrUseLastResponse }}
				eff, ambiguous := effectiveHeaders(info.SvcHeaders, info.MethodHeaders)
				var required []*sebufhttp.Header
				for _, h := range eff {
					if h.GetRequired() {
						required = append(required, h)
					}
				}
				for _, mh := range info.MethodHeaders {
					for _, sh := range info.SvcHeaders {
						if mh.GetName() == sh.GetName() && sh.GetRequired() && !mh.GetRequired() && e.avoid("header_override_drops_required") {
							res.Skipped = "method-level optional override of a required service header"
							res.excluded(e.cfg.Avoid["header_override_drops_required"] + ":header_override_drops_required")
							return func(t *rapid.T) {}
						}
					}
				}
				// service-level required headers stay required even when a method overrides them as optional
				// (open finding of C09): always send every declared header with a good value
				return func(t *rapid.T) {
					if srv.regErr != "" {
						t.Fatalf("%s", srv.regErr)
					}
					if ambiguous {
						return
					}
					binary := rapid.IntRange(0, 2).Draw(t, "binary") == 0
					ct := "application/json"
					if binary {
						ct = "application/x-protobuf"
					}
					sources := []string{"plain_error", "sebuf_error", "handler_validation_error", "wrapped_sebuf_error", "wrapped_validation_error"}
					if len(customs) > 0 {
						sources = append(sources, "custom_error")
						if !e.avoid("wrapped_custom_error") {
							sources = append(sources, "wrapped_custom_error")
						}
					}
					if len(required) > 0 {
						sources = append(sources, "header_violation")
					}
					hasRules := hasAnyRules(info.In, map[protoreflect.FullName]bool{})
					if hasRules && info.BodyVerb {
						sources = append(sources, "rule_violation", "rule_violation")
					}
					source := sources[rapid.IntRange(0, len(sources)-1).Draw(t, "source")]
					hook := hookSpec{}
					if rapid.IntRange(0, 2).Draw(t, "hook") != 0 {
						hook.Present = true
						hook.ReturnMsg = rapid.Bool().Draw(t, "hook_returns_message")
						if rapid.Bool().Draw(t, "hook_sets_status") {
							hook.Status = []int{404, 409, 418, 422, 503}[rapid.IntRange(0, 4).Draw(t, "hook_status")]
						}
						hook.Header = rapid.Bool().Draw(t, "hook_sets_header")
						hook.WriteBody = rapid.IntRange(0, 3).Draw(t, "hook_writes_body") == 0
					}
					res.class("source:" + source)
					res.class("hook:" + hook.String())
					res.class("content_type:" + ct)

					req := drawRequest(t, info, m, valgen.Opts{JSONSafe: false}, true)
					if !info.BodyVerb {
						for _, q := range info.Query {
							if k := q.Field.Kind(); (k == protoreflect.FloatKind || k == protoreflect.DoubleKind) && !q.Field.IsList() && req.ProtoReflect().Has(q.Field) && req.ProtoReflect().Get(q.Field).Float() == 0 {
								req.ProtoReflect().Clear(q.Field) // negative zero is elided like zero
							}
							if q.Required && !q.Field.IsList() && !req.ProtoReflect().Has(q.Field) {
								req.ProtoReflect().Set(q.Field, safePathValue(t, q.Field, "reqquery."+string(q.Field.Name())))
							}
						}
					}
					repair(req.ProtoReflect(), 0)
					if vp := violationPaths(req); len(vp) > 0 && source != "rule_violation" {
						return // could not build a valid request for this shape; skip (counted by Cases only)
					}
					// rules may force URL-bound fields to values that cannot travel in the URL (empty path
					// segment, required query parameter elided as zero): such shapes are skipped
					for _, fd := range info.PathFields {
						if fd != nil && fd.Kind() == protoreflect.StringKind && req.ProtoReflect().Get(fd).String() == "" {
							return
						}
					}
					if !info.BodyVerb {
						for _, q := range info.Query {
							if q.Required && !q.Field.IsList() && !req.ProtoReflect().Has(q.Field) {
								return
							}
						}
					}
					headers := [][2]string{}
					for _, h := range eff {
						headers = append(headers, [2]string{h.GetName(), goodHeaderValue(h)})
					}
					var wantViolations []string // expected violation field names (sorted), for 400s produced by the server itself
					var handlerErr error
					wantStatus := 500
					var wantBody proto.Message
					wrappedVE := false
					switch source {
					case "plain_error":
						msg := "boom: " + valgen.String(t, "errmsg")
						handlerErr = errors.New(msg)
						wantBody = &sebufhttp.Error{Message: msg}
					case "sebuf_error":
						se := &sebufhttp.Error{Message: "domain failure " + valgen.String(t, "errmsg")}
						handlerErr, wantBody = se, se
					case "wrapped_sebuf_error":
						// a wrapped error is not itself a protobuf message: the body carries its message
						se := &sebufhttp.Error{Message: "inner failure"}
						handlerErr = fmt.Errorf("while handling: %w", se)
						wantBody = &sebufhttp.Error{Message: handlerErr.Error()}
					case "handler_validation_error":
						ve := &sebufhttp.ValidationError{Violations: []*sebufhttp.FieldViolation{{Field: "user.email", Description: "taken"}, {Field: "age", Description: "too young"}}}
						handlerErr, wantBody, wantStatus = ve, ve, 400
					case "wrapped_validation_error":
						// a ValidationError inside a wrapping error: status and body must tell the same story, either the
						// validation failure (400 + violations) or a plain handler error (500 + message); judged after the call
						ve := &sebufhttp.ValidationError{Violations: []*sebufhttp.FieldViolation{{Field: "user.email", Description: "taken"}}}
						handlerErr = fmt.Errorf("while saving: %w", ve)
						wantBody, wantStatus = ve, 400
						wrappedVE = true
					case "custom_error", "wrapped_custom_error":
						ce := valgen.Message(t, customs[rapid.IntRange(0, len(customs)-1).Draw(t, "custom")], "custom", valgen.Opts{UnknownEnums: false})
						wantBody = ce
						handlerErr = ce.(error)
						if source == "wrapped_custom_error" {
							handlerErr = fmt.Errorf("wrapped: %w", ce.(error))
							wantBody = &sebufhttp.Error{Message: handlerErr.Error()}
						}
					case "header_violation":
						// drop or corrupt one required header
						k := rapid.IntRange(0, len(required)-1).Draw(t, "which_header")
						name := required[k].GetName()
						var kept [][2]string
						for _, h := range headers {
							if h[0] != name {
								kept = append(kept, h)
							}
						}
						headers = kept
						wantStatus = 400
						wantViolations = []string{name}
					case "rule_violation":
						bad := valgen.Message(t, m.NewReq, "badreq", valgen.Opts{})
						bm := bad.ProtoReflect()
						for _, fd := range info.PathFields {
							if fd != nil {
								bm.Set(fd, req.ProtoReflect().Get(fd))
							}
						}
						wantViolations = violationPaths(bad)
						if len(wantViolations) == 0 {
							return
						}
						req = bad
						wantStatus = 400
					}
					srv.reset(func(string, string, proto.Message) (proto.Message, error) {
						if handlerErr != nil {
							return nil, handlerErr
						}
						return m.NewResp(), nil
					})
					hookMsg := &sebufhttp.Error{Message: "from hook"}
					var hookSaw error
					if hook.Present {
						srv.mu.Lock()
						srv.hook = func(w http.ResponseWriter, r *http.Request, err error) proto.Message {
							hookSaw = err
							if hook.Header {
								w.Header().Set("X-Hook", "1")
							}
							if hook.Status != 0 {
								w.WriteHeader(hook.Status)
							}
							if hook.WriteBody {
								_, _ = w.Write([]byte("hook-body"))
								return nil
							}
							if hook.ReturnMsg {
								return hookMsg
							}
							return nil
						}
						srv.mu.Unlock()
					}
					// the effective content type is set client-wide, per call, or per call against a different
					// client-wide default: the error must be decoded in the content type of this call
					copts, callOpts := rt.ClientOpts{HTTPClient: hc}, rt.CallOpts{Headers: headers}
					switch how := rapid.SampledFrom([]string{"client", "call", "call_overrides_client"}).Draw(t, "ct_set_by"); how {
					case "client":
						copts.ContentType = ct
					case "call":
						callOpts.ContentType = ct
					default:
						callOpts.ContentType = ct
						copts.ContentType = "application/json"
						if ct == "application/json" {
							copts.ContentType = "application/x-protobuf"
						}
						res.class("content_type:call_overrides_client")
					}
					client := svc.NewClient("http://verif.test", copts)
					_, callErr := client(context.Background(), m.Name, req, callOpts)
					calls := srv.taken()
					if tr.lastReq == nil {
						t.Fatalf("client did not send a request: %v", callErr)
					}
					resp := tr.lastRespInfo()
					desc := fmt.Sprintf("%s %s (%s) source=%s hook=%s", tr.lastReq.Method, tr.lastReq.URI, ct, source, hook)
					if hook.Present || binary || len(wantViolations) > 0 && strings.Contains(strings.Join(wantViolations, ","), ".") {
						res.nontrivial(desc + string(tr.lastResp))
					}
					res.sample(map[string]any{"case": desc, "status": resp.status, "body": short(string(tr.lastResp), 200)})
					if tr.panicked != "" {
						t.Fatalf("%s: server panicked: %s", desc, tr.panicked)
					}
					if (source == "header_violation" || source == "rule_violation") && len(calls) != 0 {
						t.Fatalf("%s: the handler was invoked although the request is invalid", desc)
					}
					if hook.Present && hookSaw == nil {
						t.Fatalf("%s: the configured error hook was not called", desc)
					}
					// ---- server side: status, headers, body ----
					if wrappedVE && hook.Present {
						return // how a hook and a wrapped validation error combine is not documented
					}
					if wrappedVE && resp.status == 500 {
						wantStatus, wantBody = 500, &sebufhttp.Error{Message: handlerErr.Error()}
					}
					expStatus := wantStatus
					if hook.Present && hook.Status != 0 {
						expStatus = hook.Status
					} else if hook.Present && hook.WriteBody {
						expStatus = 200
					}
					if resp.status != expStatus {
						t.Fatalf("%s: status %d, documented %d; body %s", desc, resp.status, expStatus, short(string(tr.lastResp), 300))
					}
					if hook.Present && hook.Header && resp.header.Get("X-Hook") != "1" {
						t.Fatalf("%s: header set by the error hook is missing from the response", desc)
					}
					if hook.Present && hook.WriteBody {
						if string(tr.lastResp) != "hook-body" {
							t.Fatalf("%s: hook wrote the body directly but the response body is %q", desc, short(string(tr.lastResp), 200))
						}
						return
					}
					if !(hook.Present && hook.Status != 0) {
						wantCT := "application/json"
						if binary {
							wantCT = "application/x-protobuf"
						}
						if got := resp.header.Get("Content-Type"); !strings.HasPrefix(got, wantCT) {
							t.Fatalf("%s: error response Content-Type %q, want %q", desc, got, wantCT)
						}
					}
					expBody := wantBody
					if hook.Present && hook.ReturnMsg {
						expBody = hookMsg
					}
					if expBody != nil {
						got := expBody.ProtoReflect().New().Interface()
						var derr error
						if binary {
							derr = proto.Unmarshal(tr.lastResp, got)
						} else {
							derr = protojson.Unmarshal(tr.lastResp, got)
						}
						if derr != nil {
							t.Fatalf("%s: error body does not decode as %s in the request's content type: %v: %s", desc, expBody.ProtoReflect().Descriptor().FullName(), derr, short(string(tr.lastResp), 300))
						}
						if !proto.Equal(model.Normalize(got), model.Normalize(expBody)) {
							t.Fatalf("%s: error body differs\nwant: %s\ngot:  %s\nwire: %s", desc, pjson(expBody), pjson(got), short(string(tr.lastResp), 300))
						}
					} else {
						// server-produced validation error: compare field names
						vs, derr := parseViolations(tr.lastResp, binary)
						if derr != nil {
							t.Fatalf("%s: 400 body is not a ValidationError: %v: %s", desc, derr, short(string(tr.lastResp), 300))
						}
						var got []string
						for _, v := range vs {
							got = append(got, subscriptRe.ReplaceAllString(v.GetField(), ""))
							if v.GetDescription() == "" {
								t.Fatalf("%s: violation for %q has no description", desc, v.GetField())
							}
						}
						sort.Strings(got)
						// a violated rule of the message as a whole has no field to name (the reference path is empty):
						// what the server puts there is not specified, only that the violation is listed
						if n := countEmpty(wantViolations); n > 0 {
							if len(got) != len(wantViolations) {
								t.Fatalf("%s: %d violations listed, %d expected (%d of them of the message as a whole): %v vs %v", desc, len(got), len(wantViolations), n, got, wantViolations)
							}
							got, wantViolations = dropUnmatched(got, wantViolations)
						}
						if strings.Join(got, "|") != strings.Join(wantViolations, "|") {
							t.Fatalf("%s: violations name %v, expected the dotted proto field paths / header names %v\nrequest: %s", desc, got, wantViolations, pjson(req))
						}
					}
					// ---- client side ----
					if callErr == nil {
						t.Fatalf("%s: the client returned no error for status %d", desc, resp.status)
					}
					bodyIsVE := false
					var serverVE *sebufhttp.ValidationError
					if resp.status == 400 {
						ve := &sebufhttp.ValidationError{}
						var derr error
						if binary {
							derr = proto.Unmarshal(tr.lastResp, ve)
						} else {
							derr = protojson.Unmarshal(tr.lastResp, ve)
						}
						if derr == nil && (expBody == nil || expBody.ProtoReflect().Descriptor().FullName() == ve.ProtoReflect().Descriptor().FullName()) {
							bodyIsVE, serverVE = true, ve
						}
					}
					var cve *sebufhttp.ValidationError
					var cerr *sebufhttp.Error
					switch {
					case bodyIsVE:
						if !errors.As(callErr, &cve) {
							t.Fatalf("%s: the client did not turn the 400 into *ValidationError: %T %v", desc, callErr, callErr)
						}
						if !proto.Equal(cve, serverVE) {
							t.Fatalf("%s: client-side violations differ from the server's\nserver: %s\nclient: %s", desc, pjson(serverVE), pjson(cve))
						}
					case expBody != nil && expBody.ProtoReflect().Descriptor().FullName() == "sebuf.http.Error":
						if !errors.As(callErr, &cerr) || cerr.GetMessage() != expBody.(*sebufhttp.Error).GetMessage() {
							t.Fatalf("%s: the client error does not carry the server's message: %T %v", desc, callErr, callErr)
						}
					case !binary && protojson.Unmarshal(tr.lastResp, &sebufhttp.Error{}) == nil:
						// a body that happens to be a valid (possibly empty) Error document: the client reports it as such
						if !errors.As(callErr, &cerr) {
							t.Fatalf("%s: the body is a valid Error document but the client returned %T %v", desc, callErr, callErr)
						}
					default:
						// any other failure: the error must carry the status and the message or body
						s := callErr.Error()
						if !binary && !strings.Contains(s, strconv.Itoa(resp.status)) && !bodyTextIn(s, tr.lastResp) {
							t.Fatalf("%s: the client error carries neither the status nor the body: %q (status %d, body %s)", desc, short(s, 300), resp.status, short(string(tr.lastResp), 200))
						}
					}
				}
			}})
		}
	}
}

func bodyTextIn(s string, body []byte) bool {
	var v map[string]any
	if json.Unmarshal(body, &v) != nil {
		return strings.Contains(s, string(body))
	}
	for _, x := range v {
		if str, ok := x.(string); ok && str != "" && strings.Contains(s, str) {
			return true
		}
	}
	return strings.Contains(s, string(body))
}

func goodHeaderValue(h *sebufhttp.Header) string {
	switch h.GetType() {
	case "integer":
		return "42"
	case "number":
		return "1.5"
	case "boolean":
		return "true"
	case "array":
		return "a,b"
	}
	switch h.GetFormat() {
	case "uuid":
		return hvUUIDGood[0]
	case "email":
		return hvEmailGood[0]
	case "date-time":
		return hvDTGood[0]
	case "date":
		return hvDateGood[0]
	case "time":
		return hvTimeGood[0]
	}
	return "value"
}

func hasAnyRules(md protoreflect.MessageDescriptor, seen map[protoreflect.FullName]bool) bool {
	if seen[md.FullName()] {
		return false
	}
	seen[md.FullName()] = true
	fs := md.Fields()
	for i := 0; i < fs.Len(); i++ {
		fd := fs.Get(i)
		if fieldRules(fd) != nil {
			return true
		}
		if fd.Kind() == protoreflect.MessageKind && !fd.IsMap() && hasAnyRules(fd.Message(), seen) {
			return true
		}
		if fd.IsMap() && fd.MapValue().Kind() == protoreflect.MessageKind && hasAnyRules(fd.MapValue().Message(), seen) {
			return true
		}
	}
	return false
}

type respInfo struct {
	status int
	header http.Header
}

package inner

import (
	"crypto/sha256"
	"encoding/hex"
	"encoding/json"
	"errors"
	"fmt"
	"strings"

	"google.golang.org/protobuf/encoding/protojson"
	"google.golang.org/protobuf/proto"
	"google.golang.org/protobuf/reflect/protoreflect"
	"pgregory.net/rapid"

	"verif/harness/model"
	"verif/harness/rt"
	"verif/harness/valgen"
)

// marshalLikeGenerated applies exactly the dispatch the generated server and client use for
// JSON bodies: json.Marshaler when the message implements it, protojson otherwise.
func marshalLikeGenerated(m proto.Message) ([]byte, error) {
	if mm, ok := m.(json.Marshaler); ok {
		return mm.MarshalJSON()
	}
	return protojson.Marshal(m)
}

func unmarshalLikeGenerated(b []byte, m proto.Message) error {
	if um, ok := m.(json.Unmarshaler); ok {
		return um.UnmarshalJSON(b)
	}
	return protojson.Unmarshal(b, m)
}

// msgFeatures lists annotation-derived classes present in md (non-recursive) for accounting.
func msgFeatures(md protoreflect.MessageDescriptor) []string {
	var out []string
	add := func(s string) {
		for _, o := range out {
			if o == s {
				return
			}
		}
		out = append(out, s)
	}
	fs := md.Fields()
	for i := 0; i < fs.Len(); i++ {
		fd := fs.Get(i)
		card := "singular"
		switch {
		case fd.IsMap():
			card = "map"
		case fd.IsList():
			card = "repeated"
		case fd.HasOptionalKeyword():
			card = "optional"
		case fd.ContainingOneof() != nil:
			card = "oneof"
		}
		if model.Int64Number(fd) {
			add("int64_number:" + card)
		}
		if model.EnumNumber(fd) {
			add("enum_number:" + card)
		}
		if model.Nullable(fd) {
			add("nullable")
		}
		if e := model.EmptyBehavior(fd); e > 0 {
			add(fmt.Sprintf("empty_behavior:%d", e))
		}
		if f := model.TimestampFormat(fd); f > 0 {
			add(fmt.Sprintf("timestamp_format:%d:%s", f, card))
		}
		if b := model.BytesEncoding(fd); b > 0 {
			add(fmt.Sprintf("bytes_encoding:%d:%s", b, card))
		}
		if fl, p := model.Flatten(fd); fl {
			if p != "" {
				add("flatten:prefix")
			} else {
				add("flatten")
			}
		}
		if model.Unwrap(fd) {
			if md.Fields().Len() == 1 {
				add("unwrap_root:" + card)
			} else {
				add("unwrap_field")
			}
		}
		if fd.IsMap() && fd.MapValue().Kind() == protoreflect.MessageKind && model.UnwrapField(fd.MapValue().Message()) != nil {
			add("unwrap_map_value")
			if fd.MapValue().Message().ParentFile().Path() != md.ParentFile().Path() {
				add("unwrap_map_value:wrapper_in_other_file")
			}
		}
		if fd.Kind() == protoreflect.MessageKind && fd.Message().ParentFile().Package() != md.ParentFile().Package() && !strings.HasPrefix(string(fd.Message().FullName()), "google.protobuf.") {
			add("field_type_from_other_package")
		}
		if fd.Kind() == protoreflect.EnumKind {
			vs := fd.Enum().Values()
			for j := 0; j < vs.Len(); j++ {
				if model.EnumCustom(vs.Get(j)) != "" {
					add("enum_value:" + card)
					break
				}
			}
		}
		if strings.Contains(string(fd.Name()), "_") {
			add("name:multi_word")
		}
	}
	os := md.Oneofs()
	for i := 0; i < os.Len(); i++ {
		if c := model.OneofConfig(os.Get(i)); c != nil && !os.Get(i).IsSynthetic() {
			if c.GetFlatten() {
				add("oneof_flatten")
			} else {
				add("oneof_discriminator")
			}
		}
	}
	return out
}

// deepAnnotated reports whether md or anything reachable from it carries annotations.
func deepAnnotated(md protoreflect.MessageDescriptor, seen map[protoreflect.FullName]bool) bool {
	if seen[md.FullName()] {
		return false
	}
	seen[md.FullName()] = true
	if model.HasAnnotations(md) {
		return true
	}
	fs := md.Fields()
	for i := 0; i < fs.Len(); i++ {
		fd := fs.Get(i)
		var child protoreflect.MessageDescriptor
		switch {
		case fd.IsMap():
			if fd.MapValue().Kind() == protoreflect.MessageKind {
				child = fd.MapValue().Message()
			}
		case fd.Kind() == protoreflect.MessageKind:
			child = fd.Message()
		}
		if child != nil && deepAnnotated(child, seen) {
			return true
		}
	}
	return false
}

// valueKey is a canonical key of a message value for distinctness.
func valueKey(m proto.Message) string {
	b, _ := proto.MarshalOptions{Deterministic: true}.Marshal(m)
	h := sha256.Sum256(b)
	return hex.EncodeToString(h[:8])
}

// presenceSensitive reports whether the value has an optional set to zero, an empty
// non-nil message or similar states a codec can lose.
func presenceSensitive(m protoreflect.Message) bool {
	found := false
	fs := m.Descriptor().Fields()
	for i := 0; i < fs.Len() && !found; i++ {
		fd := fs.Get(i)
		if fd.IsList() || fd.IsMap() || !fd.HasPresence() || !m.Has(fd) {
			continue
		}
		if fd.Kind() == protoreflect.MessageKind {
			if proto.Size(m.Get(fd).Message().Interface()) == 0 {
				found = true
			}
		} else if m.Get(fd).Equal(fd.Default()) || (fd.Kind() == protoreflect.BytesKind && len(m.Get(fd).Bytes()) == 0) {
			found = true
		}
	}
	return found
}

func pjson(m proto.Message) string {
	b, err := protojson.MarshalOptions{}.Marshal(m)
	if err != nil {
		return "<" + err.Error() + ">"
	}
	return short(string(b), 700)
}

func init() {
	checkBuilders["c04"] = buildC04
	checkBuilders["digest"] = buildDigest
}

// buildC04: generated codecs round-trip every message value (relations a and b).
func buildC04(e *engine, p *rt.Package) {
	for _, newMsg := range p.Messages {
		newMsg := newMsg
		md := newMsg().ProtoReflect().Descriptor()
		feats := msgFeatures(md)
		e.units = append(e.units, &unit{check: "c04", schema: p.ID, name: string(md.Name()), prop: func(res *Result) func(t *rapid.T) {
			for _, f := range feats {
				res.class("feature:" + f)
			}
			_, custom := newMsg().(json.Marshaler)
			if custom {
				res.class("codec:custom")
			} else {
				res.class("codec:protojson")
			}
			return func(t *rapid.T) {
				v := valgen.Message(t, newMsg, "v", valgen.Opts{UnknownEnums: true})
				want := model.Normalize(v)
				if len(feats) > 0 || presenceSensitive(v.ProtoReflect()) {
					res.nontrivial(valueKey(v))
				}
				res.sample(map[string]any{"message": string(md.FullName()), "value": json.RawMessage(safeJSON(v))})
				// (a) own encoding decodes back
				data, err := marshalLikeGenerated(v)
				if err != nil {
					if isNaNProblem(v, err) {
						res.Unspecified++
					} else {
						t.Fatalf("(a) encoding failed: %v\nvalue: %s", err, pjson(v))
					}
				} else {
					back := newMsg()
					if err := unmarshalLikeGenerated(data, back); err != nil {
						t.Fatalf("(a) generated code cannot decode its own output: %v\nJSON: %s\nvalue: %s", err, short(string(data), 600), pjson(v))
					}
					if !proto.Equal(model.Normalize(back), want) {
						t.Fatalf("(a) round trip changed the value\nJSON: %s\nsent: %s\ngot:  %s", short(string(data), 600), pjson(want), pjson(back))
					}
				}
				// (b) contract-form JSON produced by another party decodes to the value
				tree, err := model.Encode(v.ProtoReflect())
				if err != nil {
					var un *model.ErrUnspecified
					if errors.As(err, &un) {
						res.Unspecified++
						return
					}
					t.Fatalf("model: %v", err)
				}
				cdata, _ := json.Marshal(tree)
				back := newMsg()
				if err := unmarshalLikeGenerated(cdata, back); err != nil {
					t.Fatalf("(b) generated code rejects the contract form: %v\nJSON: %s\nvalue: %s", err, short(string(cdata), 600), pjson(v))
				}
				if !proto.Equal(model.Normalize(back), want) {
					t.Fatalf("(b) contract-form JSON decodes to a different value\nJSON: %s\nwant: %s\ngot:  %s", short(string(cdata), 600), pjson(want), pjson(back))
				}
			}
		}})
	}
}

func safeJSON(m proto.Message) []byte {
	b, err := protojson.Marshal(m)
	if err != nil {
		return []byte(`"<unmarshalable>"`)
	}
	return b
}

// isNaNProblem: encoding/json-based re-marshalling cannot fail on NaN because NaN is a string in
// proto3 JSON; kept as a hook for documented encoder limits (none today).
func isNaNProblem(_ proto.Message, _ error) bool { return false }

// buildDigest records, per message, a digest of how a deterministic value stream is encoded and
// decoded; two builds of the same schema (server-only / client-only) must agree (C14b, C04c).
func buildDigest(e *engine, p *rt.Package) {
	for _, newMsg := range p.Messages {
		newMsg := newMsg
		md := newMsg().ProtoReflect().Descriptor()
		e.units = append(e.units, &unit{check: "digest", schema: p.ID, name: string(md.Name()), direct: func(res *Result) {
			h := sha256.New()
			var lines []string
			gen := rapid.Custom(func(t *rapid.T) proto.Message {
				rapid.Bool().Draw(t, "_") // Custom generators must consume data even for empty messages
				return valgen.Message(t, newMsg, "v", valgen.Opts{})
			})
			n := e.cfg.Cases
			for i := 0; i < n; i++ {
				v := gen.Example(int(e.cfg.Seed%1000003) + i + 1)
				res.Cases++
				line := valueKey(v) + " "
				data, err := marshalLikeGenerated(v)
				if err != nil {
					line += "encerr"
				} else {
					tree, perr := model.ParseJSON(data)
					canon, _ := json.Marshal(tree)
					if perr != nil {
						canon = data
					}
					line += string(canon)
					back := newMsg()
					if err := unmarshalLikeGenerated(data, back); err != nil {
						line += " decerr"
					} else {
						line += " " + valueKey(back)
					}
				}
				// contract form
				if tree, err := model.Encode(v.ProtoReflect()); err == nil {
					cdata, _ := json.Marshal(tree)
					back := newMsg()
					if err := unmarshalLikeGenerated(cdata, back); err != nil {
						line += " cdecerr"
					} else {
						line += " c" + valueKey(back)
					}
				}
				if len(msgFeatures(md)) > 0 {
					res.nontrivial(valueKey(v))
				}
				lines = append(lines, line)
				h.Write([]byte(line + "\n"))
			}
			res.Digest = hex.EncodeToString(h.Sum(nil)[:16])
			if len(lines) > 0 {
				res.Samples = []any{short(lines[0], 400)}
			}
			// keep the lines so the outer level can show the first difference
			res.Message = strings.Join(lines, "\n")
		}})
	}
}

package inner

import (
	"bytes"
	"encoding/json"
	"fmt"
	"io"
	"net/http"
	"sort"
	"strings"
	"time"
	"unicode/utf8"

	"pgregory.net/rapid"

	"verif/harness/rt"
)

func init() { checkBuilders["c09ts"] = buildC09TS }

// buildC09TS: the TypeScript server dispatches only when every required header is present and valid
// (the TS half of C09, same reference validator H and value classes as the Go half).
func buildC09TS(e *engine, p *rt.Package) {
	tsPort := 0
	for _, svc := range p.Services {
		if svc.Register == nil {
			continue
		}
		for _, m := range svc.Methods {
			svc, m := svc, m
			info := rpcInfo(svc, m)
			e.units = append(e.units, &unit{check: "c09ts", schema: p.ID, name: svc.Name + "." + m.Name, casesDiv: 5, prop: func(res *Result) func(t *rapid.T) {
				if !info.ExplicitPath {
					res.Skipped = "RPC without an explicit path"
					return func(t *rapid.T) {}
				}
				eff, ambiguous := effectiveHeaders(info.SvcHeaders, info.MethodHeaders)
				if len(eff) == 0 {
					res.Skipped = "RPC without declared headers"
					return func(t *rapid.T) {}
				}
				if ambiguous {
					res.Skipped = "case-variant header names (left to the Go half)"
					return func(t *rapid.T) {}
				}
				for _, mh := range info.MethodHeaders {
					for _, sh := range info.SvcHeaders {
						if strings.EqualFold(mh.GetName(), sh.GetName()) && e.avoid("ts_header_override_not_merged") {
							res.Skipped = "method-level override of a service header"
							res.excluded(e.cfg.Avoid["ts_header_override_not_merged"] + ":ts_header_override_not_merged")
							return func(t *rapid.T) {}
						}
					}
				}
				for _, fd := range info.PathFields {
					if fd == nil {
						res.Skipped = "path variable without a field"
						return func(t *rapid.T) {}
					}
				}
				serverPath := tsModule(e, p.ID, "_server.ts")
				drv, derr := getNode(e)
				if derr != nil || serverPath == "" {
					res.Failed, res.Message = true, fmt.Sprintf("infrastructure: node driver / TypeScript server module unavailable: %v", derr)
					return func(t *rapid.T) {}
				}
				sid := "c09ts-" + p.ID
				if tsPort == 0 {
					var names []string
					for _, s := range p.Services {
						names = append(names, s.Name)
					}
					r, err := drv.Call(map[string]any{"op": "ts_server_start", "sid": sid, "module": serverPath, "services": names})
					if err != nil || !r.OK() {
						tsPort = -1
					} else {
						pn, _ := r["port"].(json.Number).Int64()
						tsPort = int(pn)
					}
				}
				if tsPort <= 0 {
					res.Skipped = "the TypeScript server of this schema does not start (C13 / C08 judge that)"
					return func(t *rapid.T) {}
				}
				hc := &http.Client{Timeout: 30 * time.Second, CheckRedirect: func(*http.Request, []*http.Request) error { return http.ErrUseLastResponse }}
				for _, h := range eff {
					req := "optional"
					if h.GetRequired() {
						req = "required"
					}
					res.class(fmt.Sprintf("header:%s:%s:%s", orDash(h.GetType()), orDash(h.GetFormat()), req))
				}
				uuidLenient = false
				return func(t *rapid.T) {
					req := drawRequest(t, info, m, valgenDefault, true)
					target := buildTarget(info, req.ProtoReflect(), !info.BodyVerb)
					var offending []string
					grey, formatted := false, false
					hdr := http.Header{"Content-Type": []string{"application/json"}}
					for _, h := range eff {
						hv := drawHeaderValue(t, h, "hdr."+h.GetName())
						if hv.Present {
							if strings.ContainsAny(hv.Text, "\r\n\x00") {
								grey = true
								continue
							}
							hdr[http.CanonicalHeaderKey(h.GetName())] = []string{hv.Text}
						}
						if !h.GetRequired() {
							// a malformed optional header is neither required to pass nor to fail
							if hv.Present && hv.Class != "accept" {
								grey = true
							}
							continue
						}
						if h.GetFormat() != "" || (h.GetType() != "" && h.GetType() != "string") {
							formatted = true
						}
						// two verdicts of H rest on Go specifics and are not demanded of the TypeScript server: bytes
						// that are not UTF-8 (Node hands them over as Latin-1 text, a valid string), and an empty value
						// of an untyped, unformatted string header (present, and a well-formed string)
						if hv.Present && (!utf8.ValidString(hv.Text) || (hv.Text == "" && h.GetFormat() == "" && (h.GetType() == "" || h.GetType() == "string" || h.GetType() == "array"))) {
							grey = true
							continue
						}
						switch hv.Class {
						case "reject":
							offending = append(offending, strings.ToLower(h.GetName()))
						case "grey":
							grey = true
						}
					}
					sort.Strings(offending)
					var body io.Reader
					badBody := false
					if info.BodyVerb {
						// headers are judged before the body is read: an undecodable body must not change the verdict
						// on offending headers
						badBody = rapid.IntRange(0, 2).Draw(t, "undecodable_body") == 0
						if badBody {
							body = bytes.NewReader([]byte(rapid.SampledFrom([]string{`{"x":`, `not json`, `[1,`, "\xff{"}).Draw(t, "bad_body")))
							res.class("body:undecodable")
						} else {
							body = bytes.NewReader([]byte("{}"))
						}
					}
					_, _ = drv.Call(map[string]any{"op": "ts_server_respond", "sid": sid, "service": svc.Name, "method": m.Name, "response": map[string]any{}})
					_, _ = drv.Call(map[string]any{"op": "ts_server_calls", "sid": sid})
					hreq, err := http.NewRequest(info.Verb, fmt.Sprintf("http://127.0.0.1:%d%s", tsPort, target), body)
					if err != nil {
						return
					}
					hreq.Header = hdr
					resp, err := hc.Do(hreq)
					if err != nil {
						// header values net/http refuses to send are outside the domain
						res.Unspecified++
						return
					}
					rb, _ := io.ReadAll(resp.Body)
					_ = resp.Body.Close()
					cr, cerr := drv.Call(map[string]any{"op": "ts_server_calls", "sid": sid})
					if cerr != nil || !cr.OK() {
						panic(infraError(fmt.Sprint(fmt.Sprint("node driver: ", cerr, cr))))
					}
					calls, _ := cr["calls"].([]any)
					var decl []string
					for _, h := range eff {
						if h.GetRequired() {
							decl = append(decl, fmt.Sprintf("%s:%s/%s", h.GetName(), orDash(h.GetType()), orDash(h.GetFormat())))
						}
					}
					desc := fmt.Sprintf("ts-server %s %s headers=%v required=%v", info.Verb, target, printableHeaders(hdr), decl)
					if badBody {
						desc += " (undecodable body)"
					}
					if resp.StatusCode == 597 {
						res.Unspecified++
						return
					}
					if formatted || len(offending) >= 2 {
						res.nontrivial(desc)
					}
					res.sample(map[string]any{"request": desc, "offending": offending, "status": resp.StatusCode})
					if badBody && len(offending) == 0 {
						// how the TypeScript server answers an undecodable body under acceptable headers is no part of
						// this property (it answers 500 today); only that nothing was dispatched on a 4xx
						if resp.StatusCode >= 400 && resp.StatusCode < 500 && len(calls) != 0 {
							t.Fatalf("%s: answered %d for an undecodable body but the handler was invoked", desc, resp.StatusCode)
						}
						return
					}
					if resp.StatusCode >= 500 {
						t.Fatalf("%s answered %d: %s", desc, resp.StatusCode, short(string(rb), 300))
					}
					if grey {
						res.class("expect:grey")
						if resp.StatusCode == 400 && len(calls) != 0 {
							t.Fatalf("%s: answered 400 but the handler was invoked", desc)
						}
						return
					}
					if len(offending) > 0 {
						res.class("expect:400")
						if resp.StatusCode != 400 || len(calls) != 0 {
							t.Fatalf("%s: offending required headers %v must give 400 without dispatch; the TypeScript server answered %d with %d handler calls: %s", desc, offending, resp.StatusCode, len(calls), short(string(rb), 300))
						}
						var ve struct {
							Violations []struct {
								Field string `json:"field"`
							} `json:"violations"`
						}
						if err := json.Unmarshal(rb, &ve); err != nil {
							t.Fatalf("%s: 400 body is not a ValidationError document: %v: %s", desc, err, short(string(rb), 300))
						}
						var got []string
						for _, v := range ve.Violations {
							got = append(got, strings.ToLower(v.Field))
						}
						sort.Strings(got)
						if strings.Join(got, "|") != strings.Join(offending, "|") {
							t.Fatalf("%s: expected one violation per offending header %v, the TypeScript server reported %v", desc, offending, got)
						}
						return
					}
					res.class("expect:200")
					if resp.StatusCode != 200 || len(calls) != 1 {
						t.Fatalf("%s: every required header is present and well-formed, yet the TypeScript server answered %d (%d handler calls): %s", desc, resp.StatusCode, len(calls), short(string(rb), 300))
					}
				}
			}})
		}
	}
}

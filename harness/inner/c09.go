package inner

import (
	"fmt"
	"net/http"
	"sort"
	"strings"

	sebufhttp "github.com/SebastienMelki/sebuf/http"
	"google.golang.org/protobuf/proto"
	"pgregory.net/rapid"

	"verif/harness/oas"
	"verif/harness/rt"
	"verif/harness/valgen"
)

func init() { checkBuilders["c09"] = buildC09 }

// headerValue is a header value with the reference validator H's verdict.
type headerValue struct {
	Present bool
	Text    string
	Class   string // accept | reject | grey
}

var (
	hvUUIDGood  = []string{"123e4567-e89b-12d3-a456-426614174000", "00000000-0000-0000-0000-000000000000", "FFFFFFFF-FFFF-4FFF-BFFF-FFFFFFFFFFFF", "a1b2c3d4-e5f6-4a7b-8c9d-0e1f2a3b4c5d"}
	hvUUIDBad   = []string{"123e4567-e89b-12d3-a456-42661417400", "123e4567e89b12d3a456426614174000", "zzzzzzzz-zzzz-zzzz-zzzz-zzzzzzzzzzzz", "123e4567-e89b-12d3-a456-42661417400g", "not-a-uuid", "123e4567_e89b_12d3_a456_426614174000", "{123e4567-e89b-12d3-a456-426614174000}"}
	hvEmailGood = []string{"a@b.co", "first.last@example.com", "user+tag@sub.example.org"}
	hvEmailBad  = []string{"no-at-sign", "@example.com", "user@", "a@@b.co", "a@b@c.d"}
	hvDTGood    = []string{"2024-01-15T09:30:00Z", "2024-01-15T09:30:00+02:00", "1999-12-31T23:59:59.123Z", "2024-02-29T00:00:00-07:00"}
	hvDTBad     = []string{"2024-01-15", "not-a-date", "2024-01-15 09:30:00", "09:30:00", "2024-01-15T09:30Z", "20240115T093000Z"}
	hvDateGood  = []string{"2024-01-15", "1999-12-31", "2024-02-29"}
	hvDateBad   = []string{"2024-1-5", "15/01/2024", "2024-01-15T00:00:00Z", "20240115", "yesterday"}
	hvTimeGood  = []string{"09:30:00", "23:59:59", "00:00:00"}
	hvTimeBad   = []string{"9:30", "093000", "half past nine", "09-30-00", "24:61:00"}
	hvIntGood   = []string{"0", "-5", "42", "2147483648", "9007199254740993"}
	hvIntBad    = []string{"abc", "1.5", "12a", "--1", "1e3", "0x1F", "0b101", "0o17", "1_000"}
	hvNumGood   = []string{"1.5", "-2", "0", "1e3", "3.14159"}
	hvNumBad    = []string{"abc", "1.5.2", "--1", "1,5"}
	hvBoolGood  = []string{"true", "false"}
	hvBoolBad   = []string{"yes", "no", "2", "maybe"}
	hvStrGood   = []string{"x", "some value", "héllo", "a,b;c=d", "123"}
	hvArrGood   = []string{"a,b", "one", "1, 2, 3"}
)

func drawHeaderValue(t *rapid.T, h *sebufhttp.Header, label string) headerValue {
	cls := rapid.IntRange(0, 9).Draw(t, label+"#class")
	pick := func(xs []string) string { return xs[rapid.IntRange(0, len(xs)-1).Draw(t, label+"#pick")] }
	if cls == 0 {
		return headerValue{Present: false, Class: "reject"}
	}
	if cls == 1 && rapid.Bool().Draw(t, label+"#empty") {
		return headerValue{Present: true, Text: "", Class: "reject"}
	}
	bad := cls == 1
	grey := cls == 2
	var good, badv, greyv []string
	switch h.GetType() {
	case "integer":
		good, badv, greyv = hvIntGood, hvIntBad, []string{"+5", "007", "9223372036854775808", " 7"}
	case "number":
		good, badv, greyv = hvNumGood, hvNumBad, []string{"NaN", "Infinity", "0x10", "+1.5"}
	case "boolean":
		good, badv, greyv = hvBoolGood, hvBoolBad, []string{"1", "0", "TRUE", "t", "False"}
	case "array":
		good, badv, greyv = hvArrGood, nil, []string{",", " , "}
	default:
		switch h.GetFormat() {
		case "uuid":
			good, badv = hvUUIDGood, hvUUIDBad
			if uuidLenient {
				// open finding: 36-character strings with dashes in the right places are accepted
				badv = []string{"123e4567-e89b-12d3-a456-42661417400", "123e4567e89b12d3a456426614174000", "not-a-uuid", "123e4567_e89b_12d3_a456_426614174000", "{123e4567-e89b-12d3-a456-426614174000}"}
				greyv = []string{"zzzzzzzz-zzzz-zzzz-zzzz-zzzzzzzzzzzz", "123e4567-e89b-12d3-a456-42661417400g"}
			}
		case "email":
			good, badv, greyv = hvEmailGood, hvEmailBad, []string{"a b@c.d", "a@b", "\"quoted\"@x.org"}
		case "date-time":
			good, badv, greyv = hvDTGood, hvDTBad, []string{"2024-01-15t09:30:00z", "2024-13-01T00:00:00Z", "2024-01-15T24:00:00Z"}
		case "date":
			good, badv, greyv = hvDateGood, hvDateBad, []string{"2024-02-30", "0000-00-00"}
		case "time":
			good, badv, greyv = hvTimeGood, hvTimeBad, []string{"09:30:00Z", "09:30:00.5", "25:00:00"}
		default:
			good = hvStrGood
			badv = []string{"\xff\xfe", "caf\xe9"}
		}
	}
	switch {
	case bad && len(badv) > 0:
		return headerValue{Present: true, Text: pick(badv), Class: "reject"}
	case grey && len(greyv) > 0:
		return headerValue{Present: true, Text: pick(greyv), Class: "grey"}
	}
	return headerValue{Present: true, Text: pick(good), Class: "accept"}
}

// effectiveHeaders merges service and method declarations: a method-level declaration replaces
// a service-level one of the same name. Names differing only in case are reported as ambiguous.
func effectiveHeaders(svc, method []*sebufhttp.Header) (eff []*sebufhttp.Header, ambiguous bool) {
	// HTTP header names are case-insensitive: declarations are merged by lower-cased name, later
	// declarations (method level after service level) replace earlier ones. ambiguous reports that two
	// declarations of one header are spelled differently.
	byName := map[string]*sebufhttp.Header{}
	var order []string
	add := func(h *sebufhttp.Header) {
		if h.GetName() == "" {
			return
		}
		k := strings.ToLower(h.GetName())
		if prev, ok := byName[k]; ok {
			if prev.GetName() != h.GetName() {
				ambiguous = true
			}
		} else {
			order = append(order, k)
		}
		byName[k] = h
	}
	for _, h := range svc {
		add(h)
	}
	for _, h := range method {
		add(h)
	}
	sort.Strings(order)
	for _, n := range order {
		eff = append(eff, byName[n])
	}
	return eff, ambiguous
}

// headerHazard reports why an RPC's header declarations cannot be served with "good" values: names that
// differ only in case (override semantics undocumented) or an override pattern covered by an open finding.
func headerHazard(e *engine, info *RPCInfo, res *Result) string {
	if _, ambiguous := effectiveHeaders(info.SvcHeaders, info.MethodHeaders); ambiguous {
		return "service and method headers differ only in case (override semantics undocumented)"
	}
	for _, mh := range info.MethodHeaders {
		for _, sh := range info.SvcHeaders {
			if strings.EqualFold(mh.GetName(), sh.GetName()) && sh.GetRequired() && !mh.GetRequired() && e.avoid("header_override_drops_required") {
				res.excluded(e.cfg.Avoid["header_override_drops_required"] + ":header_override_drops_required")
				return "method-level optional override of a required service header"
			}
		}
	}
	return ""
}

// buildC09: requests are dispatched only when every required header is present and valid.
func buildC09(e *engine, p *rt.Package) {
	var srv *server
	for _, svc := range p.Services {
		if svc.Register == nil {
			continue
		}
		for _, m := range svc.Methods {
			svc, m := svc, m
			info := rpcInfo(svc, m)
			e.units = append(e.units, &unit{check: "c09", schema: p.ID, name: svc.Name + "." + m.Name, prop: func(res *Result) func(t *rapid.T) {
				if !info.ExplicitPath {
					res.Skipped = "RPC without an explicit path"
					return func(t *rapid.T) {}
				}
				eff, ambiguous := effectiveHeaders(info.SvcHeaders, info.MethodHeaders)
				if len(eff) == 0 {
					res.Skipped = "RPC without declared headers"
					return func(t *rapid.T) {}
				}
				overridden := false
				for _, mh := range info.MethodHeaders {
					for _, sh := range info.SvcHeaders {
						if strings.EqualFold(mh.GetName(), sh.GetName()) {
							overridden = true
							if sh.GetRequired() && !mh.GetRequired() && e.avoid("header_override_drops_required") {
								res.Skipped = "method-level optional override of a required service header"
								res.excluded(e.cfg.Avoid["header_override_drops_required"] + ":header_override_drops_required")
								return func(t *rapid.T) {}
							}
						}
					}
				}
				if ambiguous {
					res.class("override:case_variant")
				}
				if srv == nil {
					srv = newServer(p, false)
				}
				uuidLenient = e.avoid("uuid_header_nonhex")
				if uuidLenient {
					res.excluded(e.cfg.Avoid["uuid_header_nonhex"] + ":uuid_header_nonhex")
				}
				for _, h := range eff {
					req := "optional"
					if h.GetRequired() {
						req = "required"
					}
					res.class(fmt.Sprintf("header:%s:%s:%s", orDash(h.GetType()), orDash(h.GetFormat()), req))
				}
				if overridden {
					res.class("override")
				}
				// the header parameters as published for this operation (name -> required), when the document is at hand
				var published map[string]bool
				if e.cfg.Extra["openapi_dir"] != "" && !ambiguous {
					if doc, derr := c03Doc(e, p.ID, svc.Name); derr == nil {
						if _, _, op := oas.Operation(doc, m.Name); op != nil {
							published = map[string]bool{}
							for _, prm := range oas.Parameters(doc, op) {
								if oas.Str(prm["in"]) == "header" {
									req, _ := prm["required"].(bool)
									published[strings.ToLower(oas.Str(prm["name"]))] = req
								}
							}
						}
					}
				}
				return func(t *rapid.T) {
					if srv.regErr != "" {
						t.Fatalf("%s", srv.regErr)
					}
					req := drawRequest(t, info, m, valgenDefault, true)
					target := buildTarget(info, req.ProtoReflect(), !info.BodyVerb)
					hdr := http.Header{"Content-Type": []string{"application/json"}}
					if published != nil && rapid.IntRange(0, 4).Draw(t, "as_published") == 0 {
						// a request written from the published parameter list alone: every header it marks required, with a
						// well-formed value, and none of the others. It is never rejected for its headers.
						res.class("request_from_published_parameters")
						for _, h := range eff {
							if published[strings.ToLower(h.GetName())] {
								hdr[http.CanonicalHeaderKey(h.GetName())] = []string{goodHeaderValue(h)}
							}
						}
						var body []byte
						if info.BodyVerb {
							body = []byte("{}")
						}
						srv.reset(func(string, string, proto.Message) (proto.Message, error) { return m.NewResp(), nil })
						rec, panicked := srv.serve(info.Verb, target, hdr, body)
						calls := srv.taken()
						desc := fmt.Sprintf("%s %s headers=%v", info.Verb, target, printableHeaders(hdr))
						if panicked != "" {
							t.Fatalf("server panicked: %s (%s)", panicked, desc)
						}
						res.nontrivial("published|" + desc)
						if rec.Code != 200 || len(calls) != 1 {
							t.Fatalf("%s: the request carries every header the OpenAPI document marks required (%v) and was answered %d (%d handler calls): %s", desc, published, rec.Code, len(calls), short(rec.Body.String(), 300))
						}
						return
					}
					var offending []string
					grey := false
					formatted := false
					for _, h := range eff {
						hv := drawHeaderValue(t, h, "hdr."+h.GetName())
						if hv.Present {
							hdr[http.CanonicalHeaderKey(h.GetName())] = []string{hv.Text}
						}
						if !h.GetRequired() {
							continue
						}
						if h.GetFormat() != "" || (h.GetType() != "" && h.GetType() != "string") {
							formatted = true
						}
						switch hv.Class {
						case "reject":
							offending = append(offending, strings.ToLower(h.GetName()))
						case "grey":
							grey = true
						}
					}
					sort.Strings(offending)
					// a body the server cannot decode: header failures must be reported without reading it
					badBody := info.BodyVerb && rapid.Bool().Draw(t, "undecodable_body")
					var body []byte
					if info.BodyVerb {
						body = []byte("{}")
						if badBody {
							body = []byte("{not json")
						}
					}
					srv.reset(func(string, string, proto.Message) (proto.Message, error) { return m.NewResp(), nil })
					rec, panicked := srv.serve(info.Verb, target, hdr, body)
					calls := srv.taken()
					desc := fmt.Sprintf("%s %s headers=%v", info.Verb, target, printableHeaders(hdr))
					if panicked != "" {
						t.Fatalf("server panicked: %s (%s)", panicked, desc)
					}
					if formatted || overridden || len(offending) >= 2 {
						res.nontrivial(desc)
					}
					res.sample(map[string]any{"request": desc, "offending": offending, "undecodable_body": badBody})
					if rec.Code >= 500 {
						t.Fatalf("%s answered %d: %s", desc, rec.Code, short(rec.Body.String(), 300))
					}
					if grey {
						res.class("expect:grey")
						return
					}
					if len(offending) > 0 {
						res.class("expect:400")
						if rec.Code != 400 || len(calls) != 0 {
							t.Fatalf("%s: offending required headers %v must give 400 without dispatch; got %d with %d handler calls: %s", desc, offending, rec.Code, len(calls), short(rec.Body.String(), 300))
						}
						vs, err := parseViolations(rec.Body.Bytes(), false)
						if err != nil {
							t.Fatalf("%s: 400 body is not a ValidationError: %v: %s", desc, err, short(rec.Body.String(), 300))
						}
						var got []string
						for _, v := range vs {
							got = append(got, strings.ToLower(v.GetField()))
						}
						sort.Strings(got)
						if strings.Join(got, "|") != strings.Join(offending, "|") {
							t.Fatalf("%s: expected one violation per offending header %v (names compared case-insensitively; decided before the body is read), got %v", desc, offending, got)
						}
						return
					}
					if badBody {
						res.class("expect:400-body")
						if rec.Code != 400 || len(calls) != 0 {
							t.Fatalf("%s with an undecodable body: expected 400 without dispatch, got %d", desc, rec.Code)
						}
						return
					}
					res.class("expect:200")
					if rec.Code != 200 || len(calls) != 1 {
						t.Fatalf("%s: every required header is present and well-formed, yet the request was answered %d (%d handler calls): %s", desc, rec.Code, len(calls), short(rec.Body.String(), 300))
					}
				}
			}})
		}
	}
}

func orDash(s string) string {
	if s == "" {
		return "-"
	}
	return s
}

func printableHeaders(h http.Header) string {
	var ks []string
	for k := range h {
		if k != "Content-Type" {
			ks = append(ks, k)
		}
	}
	sort.Strings(ks)
	var b strings.Builder
	for _, k := range ks {
		fmt.Fprintf(&b, "%s=%q ", k, h[k][0])
	}
	return b.String()
}

var valgenDefault = valgen.Opts{}

// uuidLenient is set while the open finding about the uuid header validator is recorded.
var uuidLenient bool

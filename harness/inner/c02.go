package inner

import (
	"encoding/json"
	"fmt"
	"math"
	"net/http"
	"net/url"
	"strconv"
	"strings"

	sebufhttp "github.com/SebastienMelki/sebuf/http"
	"google.golang.org/protobuf/encoding/protojson"
	"google.golang.org/protobuf/proto"
	"google.golang.org/protobuf/reflect/protoreflect"
	"pgregory.net/rapid"

	"verif/harness/model"
	"verif/harness/rt"
	"verif/harness/valgen"
)

func init() { checkBuilders["c02"] = buildC02 }

// urlValue is one textual URL value with its verdict under the reference binder B.
type urlValue struct {
	Text  string
	Class string // "valid" | "invalid" | "grey"
	Val   protoreflect.Value
}

// drawURLValue draws a textual value for a field kind together with B's verdict.
func drawURLValue(t *rapid.T, fd protoreflect.FieldDescriptor, label string, allowInvalid, allowEmpty bool) urlValue {
	k := fd.Kind()
	cls := rapid.IntRange(0, 9).Draw(t, label+"#class")
	bad := allowInvalid && cls <= 1
	grey := allowInvalid && cls == 2
	pick := func(xs []string) string { return xs[rapid.IntRange(0, len(xs)-1).Draw(t, label+"#pick")] }
	switch k {
	case protoreflect.StringKind:
		s := valgen.String(t, label)
		if s == "" && !allowEmpty {
			s = "x"
		}
		return urlValue{Text: s, Class: "valid", Val: protoreflect.ValueOfString(s)}
	case protoreflect.BoolKind:
		if bad {
			xs := []string{"yes", "no", "2", "tru", "maybe"}
			if allowEmpty {
				xs = append(xs, "")
			}
			return urlValue{Text: pick(xs), Class: "invalid"}
		}
		if grey {
			return urlValue{Text: pick([]string{"T", "1", "0", "TRUE", "f", " true"}), Class: "grey"}
		}
		b := rapid.Bool().Draw(t, label)
		return urlValue{Text: strconv.FormatBool(b), Class: "valid", Val: protoreflect.ValueOfBool(b)}
	case protoreflect.Int32Kind, protoreflect.Sint32Kind, protoreflect.Sfixed32Kind:
		if bad {
			xs := []string{"abc", "1.5", "2147483648", "-2147483649", "9223372036854775807", "1e3", "12a", "--1"}
			if allowEmpty {
				xs = append(xs, "")
			}
			return urlValue{Text: pick(xs), Class: "invalid"}
		}
		if grey {
			return urlValue{Text: pick([]string{"+5", "0x10", "1_000", " 7", "007", "-0"}), Class: "grey"}
		}
		v := rapid.OneOf(rapid.SampledFrom([]int32{0, 1, -1, 42, math.MaxInt32, math.MinInt32, 2147483646}), rapid.Int32()).Draw(t, label)
		return urlValue{Text: strconv.FormatInt(int64(v), 10), Class: "valid", Val: protoreflect.ValueOfInt32(v)}
	case protoreflect.Int64Kind, protoreflect.Sint64Kind, protoreflect.Sfixed64Kind:
		if bad {
			xs := []string{"abc", "1.5", "9223372036854775808", "-9223372036854775809", "1e3", "12a"}
			if allowEmpty {
				xs = append(xs, "")
			}
			return urlValue{Text: pick(xs), Class: "invalid"}
		}
		if grey {
			return urlValue{Text: pick([]string{"+5", "0x10", "1_000", " 7", "007"}), Class: "grey"}
		}
		v := rapid.OneOf(rapid.SampledFrom([]int64{0, 1, -1, 42, math.MaxInt64, math.MinInt64, 1 << 53, 1<<53 + 1, 4294967296}), rapid.Int64()).Draw(t, label)
		return urlValue{Text: strconv.FormatInt(v, 10), Class: "valid", Val: protoreflect.ValueOfInt64(v)}
	case protoreflect.Uint32Kind, protoreflect.Fixed32Kind:
		if bad {
			xs := []string{"abc", "1.5", "4294967296", "-1", "1e3"}
			if allowEmpty {
				xs = append(xs, "")
			}
			return urlValue{Text: pick(xs), Class: "invalid"}
		}
		if grey {
			return urlValue{Text: pick([]string{"+5", "0x10", "007"}), Class: "grey"}
		}
		v := rapid.OneOf(rapid.SampledFrom([]uint32{0, 1, 42, math.MaxUint32, 2147483648}), rapid.Uint32()).Draw(t, label)
		return urlValue{Text: strconv.FormatUint(uint64(v), 10), Class: "valid", Val: protoreflect.ValueOfUint32(v)}
	case protoreflect.Uint64Kind, protoreflect.Fixed64Kind:
		if bad {
			xs := []string{"abc", "1.5", "18446744073709551616", "-1", "1e3"}
			if allowEmpty {
				xs = append(xs, "")
			}
			return urlValue{Text: pick(xs), Class: "invalid"}
		}
		if grey {
			return urlValue{Text: pick([]string{"+5", "0x10", "007"}), Class: "grey"}
		}
		v := rapid.OneOf(rapid.SampledFrom([]uint64{0, 1, 42, math.MaxUint64, 1 << 63, 9223372036854775807}), rapid.Uint64()).Draw(t, label)
		return urlValue{Text: strconv.FormatUint(v, 10), Class: "valid", Val: protoreflect.ValueOfUint64(v)}
	case protoreflect.FloatKind:
		if bad {
			xs := []string{"abc", "1.5.2", "--1", "1e", "0x"}
			if allowEmpty {
				xs = append(xs, "")
			}
			return urlValue{Text: pick(xs), Class: "invalid"}
		}
		if grey {
			return urlValue{Text: pick([]string{"inf", "NaN", "1e39", "+1.5", "0x1p-2", "1_0.5"}), Class: "grey"}
		}
		v := rapid.SampledFrom([]float32{0, 1, -1, 0.5, 1.5, -2.25, 3.4028235e38, 1e-10, 16777216, 0.1}).Draw(t, label)
		return urlValue{Text: strconv.FormatFloat(float64(v), 'g', -1, 32), Class: "valid", Val: protoreflect.ValueOfFloat32(v)}
	case protoreflect.DoubleKind:
		if bad {
			xs := []string{"abc", "1.5.2", "--1", "1e", "0x"}
			if allowEmpty {
				xs = append(xs, "")
			}
			return urlValue{Text: pick(xs), Class: "invalid"}
		}
		if grey {
			return urlValue{Text: pick([]string{"inf", "NaN", "1e400", "+1.5", "0x1p-2"}), Class: "grey"}
		}
		v := rapid.SampledFrom([]float64{0, 1, -1, 0.5, 1.5, -2.25, 1.7976931348623157e308, 1e-300, 9007199254740993, 0.1, 3.141592653589793}).Draw(t, label)
		return urlValue{Text: strconv.FormatFloat(v, 'g', -1, 64), Class: "valid", Val: protoreflect.ValueOfFloat64(v)}
	}
	return urlValue{Text: "x", Class: "grey"}
}

// escapeVariant renders a path segment either canonically or over-encoded (every byte as %XX).
func escapeSegment(t *rapid.T, s string, label string) string {
	if rapid.IntRange(0, 5).Draw(t, label+"#overenc") == 0 && s != "" {
		var b strings.Builder
		for i := 0; i < len(s); i++ {
			fmt.Fprintf(&b, "%%%02X", s[i])
		}
		return b.String()
	}
	return url.PathEscape(s)
}

// parseViolations decodes a 400 body (JSON or binary per content type) into field names.
func parseViolations(body []byte, binary bool) ([]*sebufhttp.FieldViolation, error) {
	ve := &sebufhttp.ValidationError{}
	if binary {
		if err := proto.Unmarshal(body, ve); err != nil {
			return nil, err
		}
		return ve.Violations, nil
	}
	if err := protojson.Unmarshal(body, ve); err != nil {
		return nil, err
	}
	return ve.Violations, nil
}

func namesField(vs []*sebufhttp.FieldViolation, fd protoreflect.FieldDescriptor, param string) bool {
	for _, v := range vs {
		f := v.GetField()
		if f == string(fd.Name()) || f == fd.JSONName() || f == param {
			return true
		}
	}
	return false
}

// buildC02: URL-carried fields reach the handler with the URL's value, for every verb; bad URL
// values and missing required parameters give 400 naming the field without dispatch.
func buildC02(e *engine, p *rt.Package) {
	var srv *server
	for _, svc := range p.Services {
		if svc.Register == nil {
			continue
		}
		for _, m := range svc.Methods {
			svc, m := svc, m
			info := rpcInfo(svc, m)
			e.units = append(e.units, &unit{check: "c02", schema: p.ID, name: svc.Name + "." + m.Name, prop: func(res *Result) func(t *rapid.T) {
				if !info.ExplicitPath {
					res.Skipped = "RPC without an explicit path"
					return func(t *rapid.T) {}
				}
				if len(info.PathVars) == 0 && len(info.Query) == 0 {
					res.Skipped = "RPC without URL-bound fields"
					return func(t *rapid.T) {}
				}
				if srv == nil {
					srv = newServer(p, false)
				}
				res.class("verb:" + info.Verb)
				return func(t *rapid.T) {
					if srv.regErr != "" {
						t.Fatalf("%s", srv.regErr)
					}
					binary := info.BodyVerb && rapid.IntRange(0, 3).Draw(t, "binary") == 0
					// base message: other (body) fields
					base := valgen.Message(t, m.NewReq, "body", valgen.Opts{UnknownEnums: binary})
					bm := base.ProtoReflect()
					for _, fd := range info.PathFields {
						if fd != nil {
							bm.Clear(fd)
						}
					}
					for _, q := range info.Query {
						bm.Clear(q.Field)
					}
					if !info.BodyVerb {
						base = m.NewReq()
						bm = base.ProtoReflect()
					}
					expected := model.Copy(base)
					em := expected.ProtoReflect()
					// URL values
					target := info.Template
					var offenders []struct {
						fd    protoreflect.FieldDescriptor
						param string
						why   string
					}
					greyCase := false
					var greyFields []struct {
						fd    protoreflect.FieldDescriptor
						param string
						why   string
					}
					for i, name := range info.PathVars {
						fd := info.PathFields[i]
						if fd == nil {
							t.Fatalf("path variable {%s} has no field", name)
						}
						uv := drawURLValue(t, fd, "path."+name, true, false)
						switch uv.Class {
						case "valid":
							em.Set(fd, uv.Val)
							if fd.Kind() == protoreflect.StringKind && (uv.Text == "." || uv.Text == ".." || uv.Text == "/") {
								// the mux cleans dot segments / refuses a lone %2F: recorded findings of C01
								if e.avoid("path_dot_segments") || e.avoid("path_value_single_slash") {
									uv.Text += "x"
									em.Set(fd, protoreflect.ValueOfString(uv.Text))
								}
							}
						case "invalid":
							offenders = append(offenders, struct {
								fd    protoreflect.FieldDescriptor
								param string
								why   string
							}{fd, name, "path value " + strconv.Quote(uv.Text)})
						default:
							greyCase = true
							greyFields = append(greyFields, struct {
								fd    protoreflect.FieldDescriptor
								param string
								why   string
							}{fd, name, "grey"})
						}
						target = strings.Replace(target, "{"+name+"}", escapeSegment(t, uv.Text, "path."+name), 1)
					}
					q := url.Values{}
					var rawQuery []string
					for _, qi := range info.Query {
						presence := rapid.IntRange(0, 3).Draw(t, "query."+qi.Name+"#presence")
						if presence == 0 {
							if qi.Required {
								offenders = append(offenders, struct {
									fd    protoreflect.FieldDescriptor
									param string
									why   string
								}{qi.Field, qi.Name, "missing required query parameter"})
							}
							continue
						}
						n := 1
						if qi.Field.IsList() {
							n = rapid.IntRange(1, 3).Draw(t, "query."+qi.Name+"#n")
						}
						for j := 0; j < n; j++ {
							uv := drawURLValue(t, qi.Field, fmt.Sprintf("query.%s.%d", qi.Name, j), true, true)
							switch uv.Class {
							case "valid":
								if qi.Field.IsList() {
									em.Mutable(qi.Field).List().Append(uv.Val)
								} else {
									if qi.Field.HasPresence() || !isZero(qi.Field, uv.Val) {
										em.Set(qi.Field, uv.Val)
									}
								}
							case "invalid":
								offenders = append(offenders, struct {
									fd    protoreflect.FieldDescriptor
									param string
									why   string
								}{qi.Field, qi.Name, "query value " + strconv.Quote(uv.Text)})
							default:
								greyCase = true
								greyFields = append(greyFields, struct {
									fd    protoreflect.FieldDescriptor
									param string
									why   string
								}{qi.Field, qi.Name, "grey"})
							}
							q.Add(qi.Name, uv.Text)
							rawQuery = append(rawQuery, url.QueryEscape(qi.Name)+"="+url.QueryEscape(uv.Text))
						}
					}
					if len(rawQuery) > 0 {
						target += "?" + strings.Join(rawQuery, "&")
					}
					// body
					var body []byte
					bodyKind := "absent"
					hdr := http.Header{}
					if binary {
						hdr.Set("Content-Type", "application/x-protobuf")
					} else {
						hdr.Set("Content-Type", "application/json")
					}
					if info.BodyVerb {
						switch rapid.IntRange(0, 4).Draw(t, "bodykind") {
						case 0:
							bodyKind = "absent"
							expected = resetToURLOnly(expected, base)
						case 1:
							bodyKind, body = "zero-length", []byte{}
							expected = resetToURLOnly(expected, base)
						case 2:
							if binary {
								bodyKind, body = "zero-length", []byte{}
							} else {
								bodyKind, body = "empty-object", []byte("{}")
							}
							expected = resetToURLOnly(expected, base)
						default:
							bodyKind = "other-fields"
							if binary {
								body, _ = proto.Marshal(base)
							} else {
								tree, err := model.Encode(bm)
								if err != nil {
									res.Unspecified++
									return
								}
								body, _ = json.Marshal(tree)
							}
						}
					}
					res.class("body:" + bodyKind)
					if binary {
						res.class("content:binary")
					}
					srv.reset(func(string, string, proto.Message) (proto.Message, error) { return m.NewResp(), nil })
					rec, panicked := srv.serve(info.Verb, target, hdr, body)
					calls := srv.taken()
					if panicked != "" {
						t.Fatalf("server panicked on %s %s: %s", info.Verb, target, panicked)
					}
					desc := fmt.Sprintf("%s %s body(%s)=%s", info.Verb, target, bodyKind, short(string(body), 300))
					if (info.BodyVerb && bodyKind == "other-fields") || len(offenders) > 0 {
						res.nontrivial(desc)
					}
					res.sample(map[string]any{"request": desc, "expected_violations": len(offenders)})
					if rec.Code >= 500 {
						t.Fatalf("%s answered %d: %s", desc, rec.Code, short(rec.Body.String(), 300))
					}
					if len(offenders) > 0 {
						res.class("expect:400")
						if rec.Code != 400 || len(calls) != 0 {
							t.Fatalf("%s: %s must give 400 without dispatch, got %d with %d handler calls; body %s", desc, offenders[0].why, rec.Code, len(calls), short(rec.Body.String(), 300))
						}
						vs, err := parseViolations(rec.Body.Bytes(), binary)
						if err != nil || len(vs) == 0 {
							t.Fatalf("%s: 400 body is not a ValidationError with violations: %v %s", desc, err, short(rec.Body.String(), 300))
						}
						named := false
						// binding is fail-fast: the reported field may be any URL-bound field whose value is
						// invalid, or a grey one the server chose to reject
						for _, o := range append(offenders, greyFields...) {
							if namesField(vs, o.fd, o.param) {
								named = true
							}
						}
						if !named {
							t.Fatalf("%s: 400 violations %v name none of the offending fields (%s)", desc, vs, offenders[0].why)
						}
						return
					}
					if greyCase {
						res.class("expect:grey")
						return // only "no 5xx, no panic" is judged
					}
					res.class("expect:200")
					if rec.Code != 200 || len(calls) != 1 {
						t.Fatalf("%s: expected dispatch, got status %d with %d handler calls: %s", desc, rec.Code, len(calls), short(rec.Body.String(), 300))
					}
					got := calls[0].Req
					want := expected
					if !binary {
						got, want = model.Normalize(got), model.Normalize(want)
					}
					if !proto.Equal(got, want) {
						t.Fatalf("%s\nhandler-visible request differs from the URL + body\nwant: %s\ngot:  %s", desc, pjson(want), pjson(got))
					}
				}
			}})
		}
	}
}

// resetToURLOnly keeps only the URL-bound fields of expected (the body was absent or empty).
func resetToURLOnly(expected, base proto.Message) proto.Message {
	out := expected.ProtoReflect().New()
	em, bm := expected.ProtoReflect(), base.ProtoReflect()
	fs := em.Descriptor().Fields()
	for i := 0; i < fs.Len(); i++ {
		fd := fs.Get(i)
		if em.Has(fd) && !bm.Has(fd) {
			out.Set(fd, em.Get(fd))
		}
	}
	return out.Interface()
}

func isZero(fd protoreflect.FieldDescriptor, v protoreflect.Value) bool {
	switch fd.Kind() {
	case protoreflect.StringKind:
		return v.String() == ""
	case protoreflect.BoolKind:
		return !v.Bool()
	case protoreflect.FloatKind, protoreflect.DoubleKind:
		return v.Float() == 0 && !math.Signbit(v.Float())
	case protoreflect.Uint32Kind, protoreflect.Fixed32Kind, protoreflect.Uint64Kind, protoreflect.Fixed64Kind:
		return v.Uint() == 0
	default:
		return v.Int() == 0
	}
}

package inner

import (
	"context"
	"encoding/json"
	"fmt"
	"net/http"
	"net/http/httptest"
	"os"
	"path/filepath"
	"strconv"
	"strings"
	"time"

	sebufhttp "github.com/SebastienMelki/sebuf/http"
	"google.golang.org/protobuf/proto"
	"google.golang.org/protobuf/reflect/protoreflect"
	"pgregory.net/rapid"

	"verif/harness/model"
	"verif/harness/nodedrv"
	"verif/harness/rt"
	"verif/harness/valgen"
)

func init() { checkBuilders["c08"] = buildC08 }

var nodeDriver *nodedrv.Driver

func getNode(e *engine) (*nodedrv.Driver, error) {
	if nodeDriver != nil {
		return nodeDriver, nil
	}
	d, err := nodedrv.Start(e.cfg.Extra["driver_script"])
	if err != nil {
		return nil, err
	}
	nodeDriver = d
	return d, nil
}

// tsModule finds the emitted TypeScript module of a schema by suffix.
func tsModule(e *engine, schemaID, suffix string) string {
	var found string
	_ = filepath.Walk(filepath.Join(e.cfg.Extra["ts_dir"], schemaID), func(p string, info os.FileInfo, err error) error {
		if err == nil && !info.IsDir() && strings.HasSuffix(p, suffix) && found == "" {
			found = p
		}
		return nil
	})
	return found
}

// headerProp is the documented TypeScript property name of a header (X-API-Key -> apiKey).
func headerProp(name string) string {
	name = strings.TrimPrefix(name, "X-")
	parts := strings.Split(name, "-")
	var b strings.Builder
	for i, p := range parts {
		if p == "" {
			continue
		}
		// documented examples: X-API-Key -> apiKey, X-Request-ID -> requestId
		if i == 0 {
			b.WriteString(strings.ToLower(p))
		} else {
			b.WriteString(strings.ToUpper(p[:1]) + strings.ToLower(p[1:]))
		}
	}
	return b.String()
}

// toTree renders a message as the contract JSON tree with plain JSON types.
func toTree(m proto.Message) (any, error) {
	t, err := model.Encode(m.ProtoReflect())
	if err != nil {
		return nil, err
	}
	return t, nil
}

func treeOf(v any) any {
	b, _ := json.Marshal(v)
	t, _ := model.ParseJSON(b)
	return t
}

func isPlainNumber(s string) bool {
	if s == "" || strings.ContainsAny(s, "xXnNiI_ ") {
		return false
	}
	_, err := strconv.ParseFloat(s, 64)
	return err == nil
}

// fromTree decodes a contract JSON tree into a message with the generated codec.
func fromTree(tree any, m proto.Message) error {
	b, err := json.Marshal(tree)
	if err != nil {
		return err
	}
	return unmarshalLikeGenerated(b, m)
}

// buildC08: generated TypeScript clients and servers interoperate with the Go ones.
func buildC08(e *engine, p *rt.Package) {
	var srv *server
	var goTS *httptest.Server
	serverStarted := map[string]int{} // schema -> port
	for _, svc := range p.Services {
		if svc.Register == nil || svc.NewClient == nil {
			continue
		}
		for _, m := range svc.Methods {
			svc, m := svc, m
			info := rpcInfo(svc, m)
			e.units = append(e.units, &unit{check: "c08", schema: p.ID, name: svc.Name + "." + m.Name, prop: func(res *Result) func(t *rapid.T) {
				if !info.ExplicitPath {
					res.Skipped = "RPC without an explicit path"
					return func(t *rapid.T) {}
				}
				drv, err := getNode(e)
				if err != nil {
					res.Failed, res.Message = true, "infrastructure: "+err.Error()
					return func(t *rapid.T) {}
				}
				clientMod, serverMod := tsModule(e, p.ID, "_client.ts"), tsModule(e, p.ID, "_server.ts")
				if clientMod == "" || serverMod == "" {
					res.Failed, res.Message = true, "infrastructure: emitted TypeScript modules not found for "+p.ID
					return func(t *rapid.T) {}
				}
				// module load is part of the property
				for _, mod := range []string{clientMod, serverMod} {
					r, err := drv.Call(map[string]any{"op": "load", "path": mod})
					if err != nil {
						res.Failed, res.Message = true, "infrastructure: "+err.Error()
						return func(t *rapid.T) {}
					}
					if !r.OK() {
						msg := r.Err()
						return func(t *rapid.T) { t.Fatalf("emitted module %s does not load: %s", filepath.Base(mod), short(msg, 400)) }
					}
				}
				if srv == nil {
					srv = newServer(p, false)
					goTS = httptest.NewServer(srv.mux)
				}
				if _, ok := serverStarted[p.ID]; !ok {
					var names []string
					for _, s := range p.Services {
						names = append(names, s.Name)
					}
					r, err := drv.Call(map[string]any{"op": "ts_server_start", "sid": p.ID, "module": serverMod, "services": names})
					if err != nil || !r.OK() {
						msg := fmt.Sprint(err)
						if r != nil {
							msg = r.Err()
						}
						serverStarted[p.ID] = -1
						return func(t *rapid.T) { t.Fatalf("the emitted TypeScript server could not be started: %s", short(msg, 400)) }
					}
					port, _ := r["port"].(json.Number)
					pn, _ := port.Int64()
					serverStarted[p.ID] = int(pn)
				}
				tsPort := serverStarted[p.ID]
				if tsPort <= 0 {
					return func(t *rapid.T) { t.Fatalf("the emitted TypeScript server could not be started") }
				}
				tsBase := fmt.Sprintf("http://127.0.0.1:%d", tsPort)
				goClientToTS := svc.NewClient(tsBase, rt.ClientOpts{HTTPClient: &http.Client{Timeout: 30 * time.Second}})
				eff, ambiguous := effectiveHeaders(info.SvcHeaders, info.MethodHeaders)
				numericPath := false
				for _, fd := range info.PathFields {
					// numeric strings still decode to the right number; a boolean "true" does not
					if fd != nil && fd.Kind() == protoreflect.BoolKind {
						numericPath = true
					}
				}
				res.class("verb:" + info.Verb)
				res.class(fmt.Sprintf("path_vars:%d/query:%d", len(info.PathVars), len(info.Query)))
				return func(t *rapid.T) {
					if srv.regErr != "" {
						t.Fatalf("%s", srv.regErr)
					}
					if ambiguous {
						return
					}
					pair := rapid.SampledFrom([]string{"ts->go", "ts->go", "go->ts", "ts->ts"}).Draw(t, "pair")
					if pair != "ts->go" && numericPath && e.avoid("ts_server_path_params_are_strings") {
						res.excluded(e.cfg.Avoid["ts_server_path_params_are_strings"] + ":ts_server_path_params_are_strings")
						pair = "ts->go"
					}
					o := valgen.Opts{JSONSafe: true, NoNaN: true}
					req := drawRequest(t, info, m, o, false)
					rm := req.ProtoReflect()
					for _, fd := range info.PathFields {
						if fd != nil && fd.Kind() == protoreflect.StringKind {
							if s := rm.Get(fd).String(); s == "." || s == ".." || s == "/" || strings.ContainsAny(s, "\x00") {
								rm.Set(fd, protoreflect.ValueOfString("seg"+s))
							}
						}
					}
					if !info.BodyVerb {
						for _, q := range info.Query {
							if k := q.Field.Kind(); (k == protoreflect.FloatKind || k == protoreflect.DoubleKind) && !q.Field.IsList() && rm.Has(q.Field) && rm.Get(q.Field).Float() == 0 {
								rm.Clear(q.Field)
							}
							if q.Required && !q.Field.IsList() && !rm.Has(q.Field) {
								rm.Set(q.Field, safePathValue(t, q.Field, "rq"))
							}
						}
					}
					// KF-C08-2 covers exactly the string-typed 64-bit query fields that are absent from the URL
					if pair != "ts->go" && !info.BodyVerb && absentInt64Query(info, rm) && e.avoid("ts_server_absent_int64_query_empty_string") {
						res.excluded(e.cfg.Avoid["ts_server_absent_int64_query_empty_string"] + ":ts_server_absent_int64_query_empty_string")
						pair = "ts->go"
					}
					resp := valgen.Message(t, m.NewResp, "resp", o)
					reqTree, err1 := toTree(req)
					respTree, err2 := toTree(resp)
					if err1 != nil || err2 != nil {
						res.Unspecified++
						return
					}
					// a TypeScript caller must supply every non-optional property its request interface
					// declares: zero values of implicit-presence fields are written out
					tsReq := fillTSDefaults(reqTree, info.In)
					wantReq, wantResp := model.Normalize(req), model.Normalize(resp)
					// header options: typed helpers for declared headers
					clientOpts, callOpts := map[string]any{}, map[string]any{}
					goHeaders := [][2]string{}
					helper := false
					for _, h := range eff {
						val := goodHeaderValue(h)
						goHeaders = append(goHeaders, [2]string{h.GetName(), val})
						isSvc := false
						for _, sh := range info.SvcHeaders {
							if sh.GetName() == h.GetName() {
								isSvc = true
							}
						}
						switch rapid.IntRange(0, 2).Draw(t, "hdr."+h.GetName()) {
						case 0:
							callOpts["headers"] = mergeHeader(callOpts["headers"], h.GetName(), val)
						case 1:
							if isSvc {
								clientOpts[headerProp(h.GetName())] = val
							} else {
								callOpts[headerProp(h.GetName())] = val
							}
							helper = true
						default:
							callOpts[headerProp(h.GetName())] = val
							helper = true
						}
					}
					if rapid.Bool().Draw(t, "default_headers") {
						// a caller-owned header map next to the typed options
						clientOpts["defaultHeaders"] = map[string]any{"X-Verif-Extra": "1"}
					}
					res.class("pair:" + pair)
					if helper {
						res.class("header_helper")
					}
					if (len(info.PathVars) > 0 && len(info.Query) > 0 && !info.BodyVerb) || helper {
						res.nontrivial(pair + valueKey(req) + valueKey(resp))
					}
					res.sample(map[string]any{"pair": pair, "rpc": m.Name, "request": reqTree, "response": respTree, "client_options": clientOpts, "call_options": callOpts})
					desc := fmt.Sprintf("%s %s.%s request=%s", pair, svc.Name, m.Name, short(string(mustJSON(reqTree)), 400))
					tsCall := func(base string) nodedrv.Reply {
						r, err := drv.Call(map[string]any{"op": "ts_client_call", "module": clientMod, "service": svc.Name, "method": m.Name, "baseURL": base,
							"request": tsReq, "clientOptions": clientOpts, "callOptions": callOpts})
						if err != nil {
							panic(infraError(fmt.Sprint(err)))
						}
						if !r.OK() {
							t.Fatalf("%s: the TypeScript client could not be invoked: %s", desc, short(r.Err(), 400))
						}
						return r
					}
					checkTSResult := func(r nodedrv.Reply) {
						if ce := r["callError"]; ce != nil {
							t.Fatalf("%s: the TypeScript client threw: %s", desc, short(string(mustJSON(ce)), 500))
						}
						got := treeOf(r["result"])
						// compare through the response type so that absent-vs-default differences do not matter
						back := m.NewResp()
						if err := fromTree(got, back); err != nil {
							t.Fatalf("%s: the value returned by the TypeScript client is not the contract form of the response: %v: %s", desc, err, short(string(mustJSON(got)), 400))
						}
						if !proto.Equal(model.Normalize(back), wantResp) {
							t.Fatalf("%s: the TypeScript caller received a different response\nhandler returned: %s\ncaller got:       %s", desc, pjson(wantResp), short(string(mustJSON(got)), 500))
						}
					}
					tsServerExpect := func() {
						r, err := drv.Call(map[string]any{"op": "ts_server_respond", "sid": p.ID, "service": svc.Name, "method": m.Name, "response": respTree})
						if err != nil || !r.OK() {
							panic(infraError(fmt.Sprint(fmt.Sprint(err, r))))
						}
						_, _ = drv.Call(map[string]any{"op": "ts_server_calls", "sid": p.ID})
					}
					var wantHeader [2]string
					checkTSServerSaw := func() {
						r, err := drv.Call(map[string]any{"op": "ts_server_calls", "sid": p.ID})
						if err != nil || !r.OK() {
							panic(infraError(fmt.Sprint(fmt.Sprint(err, r))))
						}
						calls, _ := r["calls"].([]any)
						if len(calls) != 1 {
							t.Fatalf("%s: the TypeScript handler was invoked %d times", desc, len(calls))
						}
						c := calls[0].(map[string]any)
						if c["method"] != lowerFirstASCII(m.Name) || c["service"] != svc.Name {
							t.Fatalf("%s: reached handler %v.%v", desc, c["service"], c["method"])
						}
						if wantHeader[0] != "" {
							hs, _ := c["headers"].(map[string]any)
							gotv := ""
							for k, v := range hs {
								if strings.EqualFold(k, wantHeader[0]) {
									gotv = fmt.Sprint(v)
								}
							}
							if gotv != wantHeader[1] {
								t.Fatalf("%s: header %s was set client-wide and per call to %q; the TypeScript handler saw %q", desc, wantHeader[0], wantHeader[1], gotv)
							}
						}
						seenTree := treeOf(c["request"])
						// KF-C08-1: path variables reach the handler as raw strings; with the finding open the
						// numeric ones are read as the numbers they spell so that the rest is still compared
						if e.avoid("ts_server_path_params_are_strings") {
							if obj, ok := seenTree.(map[string]any); ok {
								for _, fd := range info.PathFields {
									if fd == nil {
										continue
									}
									switch fd.Kind() {
									case protoreflect.Int32Kind, protoreflect.Sint32Kind, protoreflect.Sfixed32Kind, protoreflect.Uint32Kind, protoreflect.Fixed32Kind,
										protoreflect.FloatKind, protoreflect.DoubleKind:
										if sv, ok := obj[fd.JSONName()].(string); ok && isPlainNumber(sv) {
											obj[fd.JSONName()] = json.Number(sv)
											res.excluded(e.cfg.Avoid["ts_server_path_params_are_strings"] + ":ts_server_path_params_are_strings")
										}
									}
								}
							}
						}
						back := m.NewReq()
						if err := fromTree(seenTree, back); err != nil {
							t.Fatalf("%s: the object passed to the TypeScript handler is not the contract form of the request: %v\nhandler argument: %s", desc, err, short(string(mustJSON(seenTree)), 500))
						}
						if !proto.Equal(model.Normalize(back), wantReq) {
							t.Fatalf("%s: the TypeScript handler saw a different request\nsent: %s\nseen: %s", desc, pjson(wantReq), short(string(mustJSON(seenTree)), 500))
						}
					}
					switch pair {
					case "ts->go":
						srv.reset(func(string, string, proto.Message) (proto.Message, error) { return resp, nil })
						r := tsCall(goTS.URL)
						calls := srv.taken()
						if ce := r["callError"]; ce != nil {
							t.Fatalf("%s: the TypeScript client threw: %s", desc, short(string(mustJSON(ce)), 500))
						}
						if len(calls) != 1 || calls[0].Method != m.Name || calls[0].Service != svc.Name {
							t.Fatalf("%s: expected one call of the Go handler, saw %d", desc, len(calls))
						}
						if got := model.Normalize(calls[0].Req); !proto.Equal(got, wantReq) {
							t.Fatalf("%s: the Go handler saw a different request\nsent: %s\nseen: %s", desc, pjson(wantReq), pjson(got))
						}
						checkTSResult(r)
					case "go->ts":
						tsServerExpect()
						caller := goClientToTS
						// a client-wide default header and a per-call value for the same header: the call carries the
						// per-call value, once ("default headers for all requests" / "headers for this request only")
						override := ""
						if len(goHeaders) > 0 && rapid.IntRange(0, 2).Draw(t, "default_then_call") == 0 {
							h := goHeaders[rapid.IntRange(0, len(goHeaders)-1).Draw(t, "overridden")]
							override = h[0]
							caller = svc.NewClient(tsBase, rt.ClientOpts{HTTPClient: &http.Client{Timeout: 30 * time.Second}, DefaultHeaders: [][2]string{{h[0], h[1]}}})
							wantHeader = [2]string{h[0], h[1]}
							res.class("header:default_and_per_call")
						}
						got, err := caller(context.Background(), m.Name, req, rt.CallOpts{Headers: goHeaders})
						if err != nil {
							t.Fatalf("%s: the Go client failed against the TypeScript server (default and per-call value for %q): %v", desc, override, err)
						}
						checkTSServerSaw()
						if !proto.Equal(model.Normalize(got), wantResp) {
							t.Fatalf("%s: the Go caller received a different response\nhandler returned: %s\ncaller got:       %s", desc, pjson(wantResp), pjson(got))
						}
					case "ts->ts":
						tsServerExpect()
						r := tsCall(tsBase)
						if ce := r["callError"]; ce != nil {
							t.Fatalf("%s: the TypeScript client threw: %s", desc, short(string(mustJSON(ce)), 500))
						}
						checkTSServerSaw()
						checkTSResult(r)
					}
				}
			}})
		}
	}
}

func mergeHeader(cur any, k, v string) map[string]any {
	m, _ := cur.(map[string]any)
	if m == nil {
		m = map[string]any{}
	}
	m[k] = v
	return m
}

func lowerFirstASCII(s string) string {
	if s == "" {
		return s
	}
	return strings.ToLower(s[:1]) + s[1:]
}

var _ = sebufhttp.E_Config

// fillTSDefaults returns a copy of the contract tree of a message with the zero values of its
// top-level implicit-presence fields written out, as the generated TypeScript interface (which
// declares them as required properties) obliges a caller to do.
func fillTSDefaults(tree any, md protoreflect.MessageDescriptor) any {
	obj, ok := tree.(map[string]any)
	if !ok || model.HasAnnotations(md) && (model.RootUnwrap(md)) {
		return tree
	}
	out := map[string]any{}
	for k, v := range obj {
		out[k] = v
	}
	fs := md.Fields()
	for i := 0; i < fs.Len(); i++ {
		fd := fs.Get(i)
		if _, present := out[fd.JSONName()]; present || fd.HasPresence() {
			continue
		}
		if fl, _ := model.Flatten(fd); fl {
			continue
		}
		switch {
		case fd.IsMap():
			out[fd.JSONName()] = map[string]any{}
		case fd.IsList():
			out[fd.JSONName()] = []any{}
		default:
			switch fd.Kind() {
			case protoreflect.StringKind, protoreflect.BytesKind:
				out[fd.JSONName()] = ""
			case protoreflect.BoolKind:
				out[fd.JSONName()] = false
			case protoreflect.Int64Kind, protoreflect.Sint64Kind, protoreflect.Sfixed64Kind, protoreflect.Uint64Kind, protoreflect.Fixed64Kind:
				if model.Int64Number(fd) {
					out[fd.JSONName()] = model.Num("0")
				} else {
					out[fd.JSONName()] = "0"
				}
			case protoreflect.EnumKind:
				if model.EnumNumber(fd) {
					out[fd.JSONName()] = model.Num("0")
				} else if v := fd.Enum().Values().ByNumber(0); v != nil {
					out[fd.JSONName()] = string(v.Name())
				}
			default:
				out[fd.JSONName()] = model.Num("0")
			}
		}
	}
	return out
}

// absentInt64Query reports a singular 64-bit query field in its default (string) JSON form whose value is
// zero, i.e. which the clients leave out of the URL.
func absentInt64Query(info *RPCInfo, rm protoreflect.Message) bool {
	for _, q := range info.Query {
		switch q.Field.Kind() {
		case protoreflect.Int64Kind, protoreflect.Sint64Kind, protoreflect.Sfixed64Kind, protoreflect.Uint64Kind, protoreflect.Fixed64Kind:
			if !q.Field.IsList() && !model.Int64Number(q.Field) && !rm.Has(q.Field) {
				return true
			}
		}
	}
	return false
}

package inner

import (
	"fmt"
	"net/http/httptest"
	"strconv"
	"strings"
	"sync"

	sebufhttp "github.com/SebastienMelki/sebuf/http"
	"google.golang.org/protobuf/proto"
	"google.golang.org/protobuf/reflect/protoreflect"
	"google.golang.org/protobuf/types/descriptorpb"
	"pgregory.net/rapid"

	"verif/harness/model"
	"verif/harness/rt"
	"verif/harness/valgen"
)

func init() { checkBuilders["c20"] = buildC20 }

func codeOf(r *httptest.ResponseRecorder) int {
	if r == nil {
		return 0
	}
	return r.Code
}

func bodyOf(r *httptest.ResponseRecorder) string {
	if r == nil {
		return ""
	}
	return short(r.Body.String(), 200)
}

func fieldExamples(fd protoreflect.FieldDescriptor) []string {
	o, _ := fd.Options().(*descriptorpb.FieldOptions)
	if o == nil || !proto.HasExtension(o, sebufhttp.E_FieldExamples) {
		return nil
	}
	ex, _ := proto.GetExtension(o, sebufhttp.E_FieldExamples).(*sebufhttp.FieldExamples)
	return ex.GetValues()
}

// exampleViolation checks that a field with examples holds one of them parsed to its type.
// exampleSkipOtherFiles is set while KF-C20-4 is open: examples declared on messages outside the file that
// defines the services are not collected by the mock generator.
var exampleSkipOtherFiles struct {
	on      bool
	file    string
	skipped int
}

func exampleViolation(m protoreflect.Message, path string, depth int) string {
	if depth > 6 {
		return ""
	}
	otherFile := exampleSkipOtherFiles.on && m.Descriptor().ParentFile().Path() != exampleSkipOtherFiles.file
	fs := m.Descriptor().Fields()
	for i := 0; i < fs.Len(); i++ {
		fd := fs.Get(i)
		if fd.Kind() == protoreflect.MessageKind && !fd.IsList() && !fd.IsMap() && m.Has(fd) {
			if v := exampleViolation(m.Get(fd).Message(), path+string(fd.Name())+".", depth+1); v != "" {
				return v
			}
		}
		ex := fieldExamples(fd)
		if len(ex) == 0 || fd.IsList() || fd.IsMap() {
			continue
		}
		if otherFile {
			exampleSkipOtherFiles.skipped++
			continue
		}
		v := m.Get(fd)
		ok, parsable := false, 0
		for _, e := range ex {
			switch fd.Kind() {
			case protoreflect.StringKind:
				parsable++
				ok = ok || v.String() == e
			case protoreflect.Int32Kind, protoreflect.Int64Kind, protoreflect.Sint32Kind, protoreflect.Sint64Kind, protoreflect.Sfixed32Kind, protoreflect.Sfixed64Kind:
				if n, err := strconv.ParseInt(e, 10, 64); err == nil {
					parsable++
					ok = ok || v.Int() == n
				}
			case protoreflect.Uint32Kind, protoreflect.Uint64Kind, protoreflect.Fixed32Kind, protoreflect.Fixed64Kind:
				if n, err := strconv.ParseUint(e, 10, 64); err == nil {
					parsable++
					ok = ok || v.Uint() == n
				}
			case protoreflect.FloatKind, protoreflect.DoubleKind:
				if f, err := strconv.ParseFloat(e, 64); err == nil {
					parsable++
					ok = ok || v.Float() == f || float32(v.Float()) == float32(f)
				}
			case protoreflect.BoolKind:
				if b, err := strconv.ParseBool(e); err == nil {
					parsable++
					ok = ok || v.Bool() == b
				}
			default:
				return ""
			}
		}
		if parsable > 0 && !ok {
			return fmt.Sprintf("field %s%s declares examples %q but the mock answered %v", path, fd.Name(), ex, v.Interface())
		}
	}
	return ""
}

// buildC20: the generated server backed by the emitted mock answers valid requests with
// responses that serialize, decode back into the response type and honour declared examples.
func buildC20(e *engine, p *rt.Package) {
	var srv *server
	for _, svc := range p.Services {
		if svc.Register == nil || svc.NewMock == nil {
			continue
		}
		svc := svc
		for _, m := range svc.Methods {
			m := m
			info := rpcInfo(svc, m)
			e.units = append(e.units, &unit{check: "c20", schema: p.ID, name: svc.Name + "." + m.Name, prop: func(res *Result) func(t *rapid.T) {
				if !info.ExplicitPath {
					res.Skipped = "RPC without an explicit path"
					return func(t *rapid.T) {}
				}
				if why := headerHazard(e, info, res); why != "" {
					res.Skipped = why
					return func(t *rapid.T) {}
				}
				if srv == nil {
					srv = newServer(p, false)
					mocks := map[string]rt.Handler{}
					for _, s := range p.Services {
						if s.NewMock != nil {
							mocks[s.Name] = s.NewMock()
						}
					}
					srv.reset(nil)
					srv.mockHandlers = mocks
				}
				withExamples := false
				fs := info.Out.Fields()
				for i := 0; i < fs.Len(); i++ {
					k := fs.Get(i).Kind().String()
					res.class("response_field:" + k)
					if len(fieldExamples(fs.Get(i))) > 0 {
						withExamples = true
						res.class("response_field_with_examples:" + k)
					}
				}
				return func(t *rapid.T) {
					if srv.regErr != "" {
						t.Fatalf("%s", srv.regErr)
					}
					req := drawRequest(t, info, m, valgen.Opts{JSONSafe: true}, true)
					repair(req.ProtoReflect(), 0)
					if len(violationPaths(req)) > 0 {
						return
					}
					binary := rapid.IntRange(0, 3).Draw(t, "binary") == 0
					hdr := jsonHeader()
					var body []byte
					if info.BodyVerb {
						if binary {
							hdr.Set("Content-Type", "application/x-protobuf")
							body, _ = proto.Marshal(req)
						} else {
							b, err := model.EncodeBytes(req.ProtoReflect())
							if err != nil {
								res.Unspecified++
								return
							}
							body = b
						}
					} else {
						binary = false
					}
					eff, _ := effectiveHeaders(info.SvcHeaders, info.MethodHeaders)
					for _, h := range eff {
						hdr.Set(h.GetName(), goodHeaderValue(h))
					}
					target := buildTarget(info, req.ProtoReflect(), !info.BodyVerb)
					rec, panicked := srv.serve(info.Verb, target, hdr, body)
					desc := fmt.Sprintf("%s %s body=%s", info.Verb, target, short(string(body), 200))
					if panicked != "" {
						t.Fatalf("mock-backed server panicked: %s (%s)", panicked, desc)
					}
					if withExamples || fs.Len() > 0 {
						res.nontrivial(desc + "|" + rec.Body.String())
					}
					res.sample(map[string]any{"request": desc, "status": rec.Code, "body": short(rec.Body.String(), 300)})
					if rec.Code != 200 {
						t.Fatalf("the mock answered a valid request with %d: %s (%s)", rec.Code, short(rec.Body.String(), 300), desc)
					}
					// the mock is a server implementation: the same valid request issued by several callers at once is
					// answered like one issued alone (the binary is built with the race detector)
					if rapid.IntRange(0, 9).Draw(t, "burst") == 0 {
						res.class("concurrent_burst")
						var wg sync.WaitGroup
						var mu sync.Mutex
						bad := ""
						for g := 0; g < 8; g++ {
							wg.Add(1)
							go func() {
								defer wg.Done()
								for i := 0; i < 25; i++ {
									r2, p2 := srv.serve(info.Verb, target, hdr.Clone(), body)
									if p2 != "" || r2.Code != 200 {
										mu.Lock()
										if bad == "" {
											bad = fmt.Sprintf("panic=%q status=%d body=%s", p2, codeOf(r2), bodyOf(r2))
										}
										mu.Unlock()
									}
								}
							}()
						}
						wg.Wait()
						srv.taken()
						if bad != "" {
							t.Fatalf("under 8 concurrent callers the mock no longer answers the request it answers alone: %s (%s)", bad, desc)
						}
					}
					got := m.NewResp()
					var derr error
					if binary {
						derr = proto.Unmarshal(rec.Body.Bytes(), got)
					} else {
						derr = unmarshalLikeGenerated(rec.Body.Bytes(), got)
						if derr == nil {
							// the body must also be the documented JSON form of the decoded message
							if want, merr := model.Encode(got.ProtoReflect()); merr == nil {
								if tree, perr := model.ParseJSON(rec.Body.Bytes()); perr != nil {
									derr = perr
								} else if d := model.Diff(want, tree); d != "" && !strings.Contains(d, "unexpected key") {
									t.Fatalf("mock response JSON is not the documented form of the response message: %s\nbody: %s", d, short(rec.Body.String(), 400))
								}
							}
						}
					}
					if derr != nil {
						t.Fatalf("the mock response does not decode as %s: %v: %s", info.Out.FullName(), derr, short(rec.Body.String(), 300))
					}
					exampleSkipOtherFiles.on = e.avoid("mock_examples_other_file")
					exampleSkipOtherFiles.file = got.ProtoReflect().Descriptor().ParentFile().Path()
					exampleSkipOtherFiles.skipped = 0
					v := exampleViolation(got.ProtoReflect(), "", 0)
					for i := 0; i < exampleSkipOtherFiles.skipped; i++ {
						res.excluded(e.cfg.Avoid["mock_examples_other_file"] + ":mock_examples_other_file")
					}
					if v != "" {
						t.Fatalf("%s\nresponse: %s", v, pjson(got))
					}
				}
			}})
		}
	}
}

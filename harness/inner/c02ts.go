package inner

import (
	"bytes"
	"encoding/json"
	"fmt"
	"io"
	"net/http"
	"net/url"
	"strings"
	"time"

	"google.golang.org/protobuf/proto"
	"google.golang.org/protobuf/reflect/protoreflect"
	"pgregory.net/rapid"

	"verif/harness/model"
	"verif/harness/rt"
	"verif/harness/valgen"
)

func init() { checkBuilders["c02ts"] = buildC02TS }

// buildC02TS: the TypeScript server binds URL-carried fields (the TS half of C02): same reference binder and
// value classes as the Go half, raw HTTP against the emitted server running in Node.
func buildC02TS(e *engine, p *rt.Package) {
	tsPort := 0
	for _, svc := range p.Services {
		if svc.Register == nil {
			continue
		}
		for _, m := range svc.Methods {
			svc, m := svc, m
			info := rpcInfo(svc, m)
			e.units = append(e.units, &unit{check: "c02ts", schema: p.ID, name: svc.Name + "." + m.Name, casesDiv: 5, prop: func(res *Result) func(t *rapid.T) {
				if !info.ExplicitPath || (len(info.PathVars) == 0 && len(info.Query) == 0) {
					res.Skipped = "RPC without an explicit path or without URL-bound fields"
					return func(t *rapid.T) {}
				}
				for _, fd := range info.PathFields {
					if fd == nil {
						res.Skipped = "path variable without a field"
						return func(t *rapid.T) {}
					}
				}
				if len(info.SvcHeaders)+len(info.MethodHeaders) > 0 {
					res.Skipped = "RPC with declared headers (C09)"
					return func(t *rapid.T) {}
				}
				serverPath := tsModule(e, p.ID, "_server.ts")
				drv, derr := getNode(e)
				if derr != nil || serverPath == "" {
					res.Failed, res.Message = true, fmt.Sprintf("infrastructure: node driver / TypeScript server module unavailable: %v", derr)
					return func(t *rapid.T) {}
				}
				sid := "c02ts-" + p.ID
				if tsPort == 0 {
					var names []string
					for _, s := range p.Services {
						names = append(names, s.Name)
					}
					r, err := drv.Call(map[string]any{"op": "ts_server_start", "sid": sid, "module": serverPath, "services": names})
					if err != nil || !r.OK() {
						tsPort = -1
					} else {
						pn, _ := r["port"].(json.Number).Int64()
						tsPort = int(pn)
					}
				}
				if tsPort <= 0 {
					res.Skipped = "the TypeScript server of this schema does not start (C13 / C08 judge that)"
					return func(t *rapid.T) {}
				}
				hc := &http.Client{Timeout: 30 * time.Second, CheckRedirect: func(*http.Request, []*http.Request) error { return http.ErrUseLastResponse }}
				// open findings about the TypeScript server narrow what is generated / demanded
				noValidation := e.avoid("ts_server_no_url_validation")
				pathStrings := e.avoid("ts_server_path_params_are_strings")
				absentInt64 := e.avoid("ts_server_absent_int64_query_empty_string")
				queryIgnoredOnBody := e.avoid("ts_server_query_ignored_on_body_verbs")
				res.class("verb:" + info.Verb)
				return func(t *rapid.T) {
					o := valgen.Opts{JSONSafe: true, NoNaN: true}
					base := valgen.Message(t, m.NewReq, "body", o)
					bm := base.ProtoReflect()
					for _, fd := range info.PathFields {
						bm.Clear(fd)
					}
					for _, q := range info.Query {
						bm.Clear(q.Field)
					}
					if !info.BodyVerb {
						base = m.NewReq()
						bm = base.ProtoReflect()
					}
					expected := model.Copy(base)
					em := expected.ProtoReflect()
					target := info.Template
					var offenders []string
					grey := false
					for i, name := range info.PathVars {
						fd := info.PathFields[i]
						if fd.Kind() == protoreflect.BoolKind && pathStrings {
							res.excluded(e.cfg.Avoid["ts_server_path_params_are_strings"] + ":ts_server_path_params_are_strings")
							grey = true
						}
						uv := drawURLValue(t, fd, "path."+name, !noValidation, false)
						switch uv.Class {
						case "valid":
							if fd.Kind() == protoreflect.StringKind && (uv.Text == "." || uv.Text == ".." || uv.Text == "/") {
								uv.Text += "x"
								uv.Val = protoreflect.ValueOfString(uv.Text)
							}
							em.Set(fd, uv.Val)
						case "invalid":
							offenders = append(offenders, name+"="+uv.Text)
						default:
							grey = true
						}
						target = strings.Replace(target, "{"+name+"}", escapeSegment(t, uv.Text, "path."+name), 1)
					}
					var rawQuery []string
					for _, qi := range info.Query {
						if qi.Field.IsList() {
							grey = true // repeated query parameters: the TS server's reading is not documented
						}
						present := rapid.IntRange(0, 3).Draw(t, "query."+qi.Name+"#presence") != 0
						if !present {
							if qi.Required {
								if noValidation {
									present = true
								} else {
									offenders = append(offenders, "missing "+qi.Name)
								}
							}
							if !present {
								switch qi.Field.Kind() {
								case protoreflect.Int64Kind, protoreflect.Sint64Kind, protoreflect.Sfixed64Kind, protoreflect.Uint64Kind, protoreflect.Fixed64Kind:
									if !model.Int64Number(qi.Field) && absentInt64 {
										res.excluded(e.cfg.Avoid["ts_server_absent_int64_query_empty_string"] + ":ts_server_absent_int64_query_empty_string")
										grey = true
									}
								}
								continue
							}
						}
						uv := drawURLValue(t, qi.Field, "query."+qi.Name, !noValidation, true)
						if info.BodyVerb && queryIgnoredOnBody {
							// KF-C02-2: the value is sent, what the handler sees for this field is not judged
							res.excluded(e.cfg.Avoid["ts_server_query_ignored_on_body_verbs"] + ":ts_server_query_ignored_on_body_verbs")
							grey = true
						}
						if uv.Class == "valid" && model.Is64(qi.Field) && model.Int64Number(qi.Field) && !fitsFloat53(uv.Text) {
							grey = true // int64_encoding=NUMBER documents the precision loss beyond 2^53
						}
						switch uv.Class {
						case "valid":
							if qi.Field.IsList() {
								em.Mutable(qi.Field).List().Append(uv.Val)
							} else if qi.Field.HasPresence() || !isZero(qi.Field, uv.Val) {
								em.Set(qi.Field, uv.Val)
							}
						case "invalid":
							offenders = append(offenders, qi.Name+"="+uv.Text)
						default:
							grey = true
						}
						rawQuery = append(rawQuery, url.QueryEscape(qi.Name)+"="+url.QueryEscape(uv.Text))
					}
					if len(rawQuery) > 0 {
						target += "?" + strings.Join(rawQuery, "&")
					}
					var body io.Reader
					bodyText := ""
					if info.BodyVerb {
						tree, err := model.Encode(bm)
						if err != nil {
							res.Unspecified++
							return
						}
						b, _ := json.Marshal(fillTSDefaults(tree, info.In))
						body, bodyText = bytes.NewReader(b), string(b)
					}
					_, _ = drv.Call(map[string]any{"op": "ts_server_respond", "sid": sid, "service": svc.Name, "method": m.Name, "response": map[string]any{}})
					_, _ = drv.Call(map[string]any{"op": "ts_server_calls", "sid": sid})
					hreq, err := http.NewRequest(info.Verb, fmt.Sprintf("http://127.0.0.1:%d%s", tsPort, target), body)
					if err != nil {
						res.Unspecified++
						return
					}
					hreq.Header.Set("Content-Type", "application/json")
					resp, err := hc.Do(hreq)
					if err != nil {
						res.Unspecified++
						return
					}
					rb, _ := io.ReadAll(resp.Body)
					_ = resp.Body.Close()
					cr, cerr := drv.Call(map[string]any{"op": "ts_server_calls", "sid": sid})
					if cerr != nil || !cr.OK() {
						panic(infraError(fmt.Sprint(fmt.Sprint("node driver: ", cerr, cr))))
					}
					calls, _ := cr["calls"].([]any)
					desc := fmt.Sprintf("ts-server %s %s body=%s", info.Verb, target, short(bodyText, 200))
					if resp.StatusCode == 597 {
						res.Unspecified++
						return
					}
					if info.BodyVerb || len(offenders) > 0 {
						res.nontrivial(desc)
					}
					res.sample(map[string]any{"request": desc, "offenders": offenders, "status": resp.StatusCode})
					if resp.StatusCode >= 500 {
						t.Fatalf("%s answered %d: %s", desc, resp.StatusCode, short(string(rb), 300))
					}
					if len(offenders) > 0 {
						res.class("expect:400")
						if resp.StatusCode != 400 || len(calls) != 0 {
							t.Fatalf("%s: %v cannot be bound and must give 400 without dispatch; the TypeScript server answered %d with %d handler calls", desc, offenders, resp.StatusCode, len(calls))
						}
						return
					}
					if grey {
						res.class("expect:grey")
						return
					}
					res.class("expect:200")
					if resp.StatusCode != 200 || len(calls) != 1 {
						t.Fatalf("%s: expected dispatch, the TypeScript server answered %d with %d handler calls: %s", desc, resp.StatusCode, len(calls), short(string(rb), 300))
					}
					seen := treeOf(calls[0].(map[string]any)["request"])
					if pathStrings {
						if obj, ok := seen.(map[string]any); ok {
							for _, fd := range info.PathFields {
								if fd.Kind() != protoreflect.StringKind && fd.Kind() != protoreflect.BoolKind {
									if sv, ok := obj[fd.JSONName()].(string); ok && isPlainNumber(sv) && !model.Is64(fd) {
										obj[fd.JSONName()] = json.Number(sv)
									}
								}
							}
						}
					}
					back := m.NewReq()
					if err := fromTree(seen, back); err != nil {
						t.Fatalf("%s: the object passed to the TypeScript handler is not the contract form of the request: %v\nhandler argument: %s", desc, err, short(string(mustJSON(seen)), 400))
					}
					if got, want := model.Normalize(back), model.Normalize(expected); !proto.Equal(got, want) {
						t.Fatalf("%s\nthe TypeScript handler saw a request that differs from the URL + body\nwant: %s\ngot:  %s", desc, pjson(want), short(string(mustJSON(seen)), 400))
					}
				}
			}})
		}
	}
}

// fitsFloat53 reports whether a decimal integer is exactly representable as a JavaScript number.
func fitsFloat53(s string) bool {
	s = strings.TrimPrefix(strings.TrimPrefix(s, "-"), "+")
	s = strings.TrimLeft(s, "0")
	return len(s) < 16 || (len(s) == 16 && s <= "9007199254740992")
}

package inner

import (
	"bytes"
	"context"
	"fmt"
	"io"
	"net/http"
	"net/http/httptest"
	"net/url"
	"strconv"
	"strings"
	"sync"

	"google.golang.org/protobuf/proto"
	"google.golang.org/protobuf/reflect/protoreflect"
	"pgregory.net/rapid"

	"verif/harness/model"
	"verif/harness/rt"
	"verif/harness/valgen"
)

// seen is one handler invocation.
type seen struct {
	Service, Method string
	Req             proto.Message
}

// server hosts all services of one generated package on a private mux. The handler behaviour
// is swapped per case.
type server struct {
	mux     *http.ServeMux
	mu      sync.Mutex
	calls   []seen
	respond func(service, method string, req proto.Message) (proto.Message, error)
	hook    rt.ErrorHook
	regErr  string

	mockHandlers map[string]rt.Handler // when set, calls are answered by the emitted mock implementation
}

func newServer(p *rt.Package, withHook bool) *server {
	return newServerSel(p, func(string) bool { return withHook }, nil)
}

// newServerSel registers the services selected by only (nil = all); hookFor says which registrations pass an
// error-handler option. Registrations of one process may use different options.
func newServerSel(p *rt.Package, hookFor func(service string) bool, only map[string]bool) *server {
	s := &server{mux: http.NewServeMux()}
	h := func(ctx context.Context, service, method string, req proto.Message) (proto.Message, error) {
		s.mu.Lock()
		s.calls = append(s.calls, seen{service, method, model.Copy(req)})
		r := s.respond
		mh := s.mockHandlers[service]
		s.mu.Unlock()
		if mh != nil {
			return mh(ctx, service, method, req)
		}
		if r == nil {
			return nil, fmt.Errorf("no responder installed")
		}
		return r(service, method, req)
	}
	hookFn := func(w http.ResponseWriter, r *http.Request, err error) proto.Message {
		s.mu.Lock()
		hk := s.hook
		s.mu.Unlock()
		if hk == nil {
			return nil
		}
		return hk(w, r, err)
	}
	for _, svc := range p.Services {
		if svc.Register == nil || (only != nil && !only[svc.Name]) {
			continue
		}
		var eh rt.ErrorHook
		if hookFor(svc.Name) {
			eh = hookFn
		}
		func() {
			defer func() {
				if r := recover(); r != nil {
					s.regErr = fmt.Sprintf("Register%sServer panicked: %v", svc.Name, r)
				}
			}()
			if err := svc.Register(s.mux, h, eh); err != nil {
				s.regErr = fmt.Sprintf("Register%sServer failed: %v", svc.Name, err)
			}
		}()
	}
	return s
}

func (s *server) reset(respond func(service, method string, req proto.Message) (proto.Message, error)) {
	s.mu.Lock()
	s.calls = nil
	s.respond = respond
	s.hook = nil
	s.mu.Unlock()
}

func (s *server) taken() []seen {
	s.mu.Lock()
	defer s.mu.Unlock()
	out := s.calls
	s.calls = nil
	return out
}

// serve runs one raw request through the mux, recovering panics of generated code.
// failingReader delivers data and then fails the way a connection cut mid-body does.
type failingReader struct {
	data []byte
	pos  int
}

func (f *failingReader) Read(p []byte) (int, error) {
	if f.pos >= len(f.data) {
		return 0, io.ErrUnexpectedEOF
	}
	n := copy(p, f.data[f.pos:])
	f.pos += n
	return n, nil
}

func (f *failingReader) Close() error { return nil }

// unknownLengthMarker is a pseudo header understood by serveBody only: the request is delivered as one whose
// body length is not announced (Content-Length absent, Transfer-Encoding: chunked), as streaming clients send it.
const unknownLengthMarker = "X-Verif-Unknown-Length"

func (s *server) serve(method, target string, hdr http.Header, body []byte) (rec *httptest.ResponseRecorder, panicked string) {
	return s.serveBody(method, target, hdr, body, false)
}

// serveBody is serve; with cut, the body reader fails with an unexpected EOF after delivering body.
func (s *server) serveBody(method, target string, hdr http.Header, body []byte, cut bool) (rec *httptest.ResponseRecorder, panicked string) {
	var rd io.Reader
	if body != nil {
		rd = bytes.NewReader(body)
	}
	if cut {
		rd = &failingReader{data: body}
	}
	req, err := http.NewRequest(method, "http://verif.test"+target, rd)
	if err != nil {
		return nil, "cannot build request: " + err.Error()
	}
	req.RequestURI = target
	if body == nil && !cut {
		req.Body = http.NoBody // a real server never hands out a nil Body
	}
	if cut {
		req.ContentLength = int64(len(body)) + 64 // the peer announced more than it sent
	}
	for k, vs := range hdr {
		if k == unknownLengthMarker {
			// a body sent with chunked transfer encoding: the server is not told its length
			if body != nil && !cut {
				req.ContentLength = -1
				req.TransferEncoding = []string{"chunked"}
				req.Body = io.NopCloser(struct{ io.Reader }{bytes.NewReader(body)})
			}
			continue
		}
		req.Header[k] = append([]string{}, vs...)
	}
	rec = httptest.NewRecorder()
	func() {
		defer func() {
			if r := recover(); r != nil {
				panicked = fmt.Sprintf("%v", r)
			}
		}()
		s.mux.ServeHTTP(rec, req)
	}()
	return rec, panicked
}

// transport is an in-memory http.RoundTripper delivering client requests to the mux exactly as
// a server would parse them from the request line (RequestURI re-parsed).
type transport struct {
	s          *server
	mu         sync.Mutex
	lastReq    *capturedRequest
	lastResp   []byte
	lastStatus int
	lastHeader http.Header
	panicked   string
}

func (t *transport) lastRespInfo() respInfo {
	t.mu.Lock()
	defer t.mu.Unlock()
	return respInfo{status: t.lastStatus, header: t.lastHeader}
}

type capturedRequest struct {
	Method string
	URI    string
	Header http.Header
	Body   []byte
}

func (t *transport) RoundTrip(req *http.Request) (*http.Response, error) {
	var body []byte
	if req.Body != nil {
		body, _ = io.ReadAll(req.Body)
		req.Body.Close()
	}
	uri := req.URL.RequestURI()
	cr := &capturedRequest{Method: req.Method, URI: uri, Header: req.Header.Clone(), Body: body}
	sreq, err := http.NewRequest(req.Method, "http://verif.test"+uri, bytes.NewReader(body))
	if err != nil {
		return nil, fmt.Errorf("server could not parse request line %q: %v", uri, err)
	}
	if len(body) == 0 && (req.Method == "GET" || req.Method == "DELETE") {
		sreq.Body = http.NoBody
	}
	sreq.RequestURI = uri
	sreq.Header = req.Header.Clone()
	sreq = sreq.WithContext(req.Context())
	rec := httptest.NewRecorder()
	var panicked string
	func() {
		defer func() {
			if r := recover(); r != nil {
				panicked = fmt.Sprintf("%v", r)
			}
		}()
		t.s.mux.ServeHTTP(rec, sreq)
	}()
	res := rec.Result()
	rb, _ := io.ReadAll(res.Body)
	res.Body = io.NopCloser(bytes.NewReader(rb))
	res.Request = req
	t.mu.Lock()
	t.lastReq, t.lastResp, t.panicked = cr, rb, panicked
	t.lastStatus, t.lastHeader = res.StatusCode, res.Header.Clone()
	t.mu.Unlock()
	if panicked != "" {
		return nil, fmt.Errorf("server panicked: %s", panicked)
	}
	return res, nil
}

// ---- reference URL building (oracle B, encoding direction) -------------------------------------

func formatScalar(fd protoreflect.FieldDescriptor, v protoreflect.Value) string {
	switch fd.Kind() {
	case protoreflect.StringKind:
		return v.String()
	case protoreflect.BoolKind:
		return strconv.FormatBool(v.Bool())
	case protoreflect.Int32Kind, protoreflect.Sint32Kind, protoreflect.Sfixed32Kind, protoreflect.Int64Kind, protoreflect.Sint64Kind, protoreflect.Sfixed64Kind:
		return strconv.FormatInt(v.Int(), 10)
	case protoreflect.Uint32Kind, protoreflect.Fixed32Kind, protoreflect.Uint64Kind, protoreflect.Fixed64Kind:
		return strconv.FormatUint(v.Uint(), 10)
	case protoreflect.FloatKind:
		return strconv.FormatFloat(v.Float(), 'g', -1, 32)
	case protoreflect.DoubleKind:
		return strconv.FormatFloat(v.Float(), 'g', -1, 64)
	}
	return v.String()
}

// buildTarget renders the request target for msg per the published contract: template with
// path-escaped values, query parameters for query-bound fields listed in sendQuery.
func buildTarget(info *RPCInfo, msg protoreflect.Message, sendQuery bool) string {
	target := info.Template
	for i, name := range info.PathVars {
		fd := info.PathFields[i]
		val := ""
		if fd != nil {
			val = formatScalar(fd, msg.Get(fd))
		}
		target = strings.Replace(target, "{"+name+"}", url.PathEscape(val), 1)
	}
	if sendQuery && len(info.Query) > 0 {
		q := url.Values{}
		for _, qi := range info.Query {
			if qi.Field.IsList() {
				l := msg.Get(qi.Field).List()
				for j := 0; j < l.Len(); j++ {
					q.Add(qi.Name, formatScalar(qi.Field, l.Get(j)))
				}
				continue
			}
			if msg.Has(qi.Field) || qi.Required {
				q.Set(qi.Name, formatScalar(qi.Field, msg.Get(qi.Field)))
			}
		}
		if enc := q.Encode(); enc != "" {
			target += "?" + enc
		}
	}
	return target
}

// safePathValue gives a URL-harmless, non-default value for a path-bound field.
func safePathValue(t *rapid.T, fd protoreflect.FieldDescriptor, label string) protoreflect.Value {
	switch fd.Kind() {
	case protoreflect.StringKind:
		return protoreflect.ValueOfString(rapid.StringMatching(`[a-z][a-z0-9]{0,6}`).Draw(t, label))
	case protoreflect.BoolKind:
		return protoreflect.ValueOfBool(true)
	case protoreflect.Int32Kind, protoreflect.Sint32Kind, protoreflect.Sfixed32Kind:
		return protoreflect.ValueOfInt32(rapid.Int32Range(1, 9999).Draw(t, label))
	case protoreflect.Int64Kind, protoreflect.Sint64Kind, protoreflect.Sfixed64Kind:
		return protoreflect.ValueOfInt64(rapid.Int64Range(1, 9999).Draw(t, label))
	case protoreflect.Uint32Kind, protoreflect.Fixed32Kind:
		return protoreflect.ValueOfUint32(rapid.Uint32Range(1, 9999).Draw(t, label))
	case protoreflect.Uint64Kind, protoreflect.Fixed64Kind:
		return protoreflect.ValueOfUint64(rapid.Uint64Range(1, 9999).Draw(t, label))
	case protoreflect.FloatKind:
		return protoreflect.ValueOfFloat32(1.5)
	case protoreflect.DoubleKind:
		return protoreflect.ValueOfFloat64(2.25)
	}
	return fd.Default()
}

// drawRequest draws a request value for an RPC. safe=true keeps URL-bound fields harmless
// (used when the property under test is not about URL transport).
func drawRequest(t *rapid.T, info *RPCInfo, m *rt.Method, o valgen.Opts, safe bool) proto.Message {
	req := valgen.Message(t, m.NewReq, "req", o)
	rm := req.ProtoReflect()
	for _, fd := range info.PathFields {
		if fd == nil {
			continue
		}
		if safe {
			rm.Set(fd, safePathValue(t, fd, "path."+string(fd.Name())))
			continue
		}
		// a path segment cannot be absent: a variable bound to a proto3 optional field always carries a value
		if fd.HasPresence() && !rm.Has(fd) {
			rm.Set(fd, safePathValue(t, fd, "path."+string(fd.Name())+"#set"))
		}
		// path-bound values must be non-empty (the property excludes the empty string)
		if fd.Kind() == protoreflect.StringKind && rm.Get(fd).String() == "" {
			rm.Set(fd, protoreflect.ValueOfString(valgen.String(t, "path."+string(fd.Name())+"#ne")+"x"))
		}
	}
	return req
}

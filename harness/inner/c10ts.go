package inner

import (
	"encoding/json"
	"fmt"
	"strings"

	"pgregory.net/rapid"

	"verif/harness/model"
	"verif/harness/rt"
	"verif/harness/valgen"
)

func init() {
	checkBuilders["c10ts"] = func(e *engine, p *rt.Package) { buildTSClientReplies(e, p, "c10ts") }
	checkBuilders["c11ts"] = func(e *engine, p *rt.Package) { buildTSClientReplies(e, p, "c11ts") }
}

// buildTSClientReplies drives the generated TypeScript client with arbitrary canned replies (status, content
// type, body) through an injected fetch.
//   - c10ts judges the documented mapping: 400 + violation list -> ValidationError with the same violations,
//     any other failure -> ApiError with the same status and body, success -> the decoded body;
//   - c11ts only judges robustness: the call settles (value or exception) and never reports success for a
//     failure status.
func buildTSClientReplies(e *engine, p *rt.Package, check string) {
	for _, svc := range p.Services {
		if svc.NewClient == nil && svc.Register == nil {
			continue
		}
		for _, m := range svc.Methods {
			svc, m := svc, m
			info := rpcInfo(svc, m)
			e.units = append(e.units, &unit{check: check, schema: p.ID, name: svc.Name + "." + m.Name, casesDiv: 5, prop: func(res *Result) func(t *rapid.T) {
				clientMod := tsModule(e, p.ID, "_client.ts")
				drv, derr := getNode(e)
				if derr != nil || clientMod == "" {
					res.Failed, res.Message = true, fmt.Sprintf("infrastructure: node driver / TypeScript client module unavailable: %v", derr)
					return func(t *rapid.T) {}
				}
				for _, fd := range info.PathFields {
					if fd == nil {
						res.Skipped = "path variable without a field"
						return func(t *rapid.T) {}
					}
				}
				return func(t *rapid.T) {
					req := drawRequest(t, info, m, valgen.Opts{JSONSafe: true, NoNaN: true}, true)
					tree, err := model.Encode(req.ProtoReflect())
					if err != nil {
						res.Unspecified++
						return
					}
					status := rapid.SampledFrom([]int{200, 200, 201, 400, 400, 400, 401, 403, 404, 409, 422, 429, 500, 500, 502, 503, 599}).Draw(t, "status")
					ct := rapid.SampledFrom([]string{"application/json", "application/json", "application/json; charset=utf-8", "text/plain", "text/html", "application/x-protobuf", ""}).Draw(t, "content_type")
					kind := rapid.SampledFrom([]string{"violations", "violations", "violations_empty", "violations_null", "error_message", "empty_object", "json_null", "json_array", "json_string", "not_json", "empty", "html", "truncated", "deep"}).Draw(t, "body_kind")
					var body string
					var sent []map[string]any
					switch kind {
					case "violations":
						n := rapid.IntRange(1, 4).Draw(t, "nviol")
						for i := 0; i < n; i++ {
							sent = append(sent, map[string]any{"field": rapid.SampledFrom([]string{"name", "user.address.zip", "items[2].id", "X-API-Key", "", "ünï"}).Draw(t, fmt.Sprintf("vf%d", i)),
								"description": valgen.String(t, fmt.Sprintf("vd%d", i))})
						}
						b, _ := json.Marshal(map[string]any{"violations": sent})
						body = string(b)
					case "violations_empty":
						body = `{"violations":[]}`
					case "violations_null":
						body = `{"violations":null}`
					case "error_message":
						b, _ := json.Marshal(map[string]any{"message": valgen.String(t, "msg")})
						body = string(b)
					case "empty_object":
						body = `{}`
					case "json_null":
						body = `null`
					case "json_array":
						body = `[1,2,3]`
					case "json_string":
						body = `"oops"`
					case "not_json":
						body = "upstream connect error or disconnect/reset before headers"
					case "empty":
						body = ""
					case "html":
						body = "<html><body><h1>502 Bad Gateway</h1></body></html>"
					case "truncated":
						body = `{"violations":[{"field":"na`
					case "deep":
						body = strings.Repeat("[", 400) + strings.Repeat("]", 400)
					}
					res.class(fmt.Sprintf("status:%d", status/100*100))
					res.class("body:" + kind)
					r, err := drv.Call(map[string]any{"op": "ts_client_call", "module": clientMod, "service": svc.Name, "method": m.Name, "baseURL": "http://verif.test",
						"request": fillTSDefaults(tree, info.In), "capture": true, "cannedStatus": status, "cannedBody": body, "cannedContentType": ct})
					if err != nil {
						if !strings.Contains(err.Error(), "did not answer") {
							panic(infraError(err.Error()))
						}
						// the driver gives up after 90 s: the call never settled
						t.Fatalf("the TypeScript client call did not settle (status %d, %s body): %v", status, kind, err)
					}
					if !r.OK() {
						t.Fatalf("the TypeScript client could not be invoked: %s", short(r.Err(), 300))
					}
					desc := fmt.Sprintf("%s.%s reply status=%d content-type=%q body(%s)=%s", svc.Name, m.Name, status, ct, kind, short(body, 120))
					ce, _ := r["callError"].(map[string]any)
					failed := status < 200 || status > 299
					if failed || kind != "empty_object" {
						res.nontrivial(desc)
					}
					res.sample(map[string]any{"reply": desc, "outcome": map[string]any{"error": ce, "result": r["result"]}})
					if failed && ce == nil {
						t.Fatalf("%s: the TypeScript client reported success: %v", desc, r["result"])
					}
					if check == "c11ts" {
						return
					}
					// ---- documented mapping (C10)
					if !failed {
						var want any
						if json.Unmarshal([]byte(body), &want) != nil {
							if ce == nil {
								t.Fatalf("%s: a success status with a body that is not JSON was reported as a result: %v", desc, r["result"])
							}
							return
						}
						if ce != nil {
							t.Fatalf("%s: a well-formed success reply was turned into an error: %v", desc, ce)
						}
						if d := model.Diff(treeOf(want), treeOf(r["result"])); d != "" {
							t.Fatalf("%s: the result differs from the body: %s", desc, d)
						}
						return
					}
					ctor, _ := ce["ctor"].(string)
					if status == 400 && kind == "violations" {
						if ctor != "ValidationError" {
							t.Fatalf("%s: expected a ValidationError carrying the violations, got %v", desc, ce)
						}
						if d := model.Diff(treeOf(sent), treeOf(ce["violations"])); d != "" {
							t.Fatalf("%s: the ValidationError's violations differ from the body's: %s", desc, d)
						}
						return
					}
					if status == 400 && (kind == "violations_empty") {
						// an empty list: either reading is a faithful account of the reply
						if ctor != "ValidationError" && ctor != "ApiError" {
							t.Fatalf("%s: expected ValidationError or ApiError, got %v", desc, ce)
						}
						if ctor == "ValidationError" {
							return
						}
					}
					if ctor != "ApiError" {
						t.Fatalf("%s: expected an ApiError carrying status and body, got %v", desc, ce)
					}
					if sc, _ := ce["statusCode"].(json.Number); sc.String() != fmt.Sprint(status) {
						t.Fatalf("%s: the ApiError carries status %v", desc, ce["statusCode"])
					}
					if b, _ := ce["body"].(string); b != body {
						t.Fatalf("%s: the ApiError's body differs from the reply's: %q", desc, short(b, 200))
					}
				}
			}})
		}
	}
}

package inner

import (
	"bytes"
	"context"
	"encoding/json"
	"fmt"
	"io"
	"net/http"
	"sort"
	"strings"
	"time"

	sebufhttp "github.com/SebastienMelki/sebuf/http"
	"google.golang.org/protobuf/proto"
	"google.golang.org/protobuf/reflect/protoreflect"
	"pgregory.net/rapid"

	"verif/harness/model"
	"verif/harness/rt"
	"verif/harness/valgen"
)

func init() {
	checkBuilders["c11"] = buildC11
	checkBuilders["c11client"] = buildC11Client
}

// invalidFor returns JSON values that are invalid for fd in every accepted form (the proto3
// JSON form and the annotated form).
func invalidFor(fd protoreflect.FieldDescriptor) []any {
	obj, arr := map[string]any{}, []any{}
	if fd.IsMap() {
		return []any{model.Num("5"), arr, "str", true}
	}
	if fd.IsList() {
		return []any{model.Num("5"), obj, "str", true}
	}
	switch fd.Kind() {
	case protoreflect.StringKind:
		return []any{model.Num("12"), true, obj, arr}
	case protoreflect.BoolKind:
		return []any{"yes", model.Num("5"), obj, arr}
	case protoreflect.Int32Kind, protoreflect.Sint32Kind, protoreflect.Sfixed32Kind, protoreflect.Uint32Kind, protoreflect.Fixed32Kind,
		protoreflect.Int64Kind, protoreflect.Sint64Kind, protoreflect.Sfixed64Kind, protoreflect.Uint64Kind, protoreflect.Fixed64Kind:
		return []any{"abc", model.Num("1.5"), true, obj, arr, model.Num("1e40"), "1.5", "12abc"}
	case protoreflect.FloatKind, protoreflect.DoubleKind:
		return []any{"abc", true, obj, arr}
	case protoreflect.EnumKind:
		return []any{"NOT_A_VALUE__", true, obj, model.Num("1.5")}
	case protoreflect.BytesKind:
		out := []any{"!!!", model.Num("5"), obj}
		if model.BytesEncoding(fd) == sebufhttp.BytesEncoding_BYTES_ENCODING_HEX {
			out = append(out, "zz", "abc", "0g")
		}
		return out
	case protoreflect.MessageKind:
		if fd.Message().FullName() == "google.protobuf.Timestamp" {
			switch model.TimestampFormat(fd) {
			case sebufhttp.TimestampFormat_TIMESTAMP_FORMAT_UNIX_SECONDS, sebufhttp.TimestampFormat_TIMESTAMP_FORMAT_UNIX_MILLIS:
				// counts no google.protobuf.Timestamp can hold (its range ends with the year 9999) are not values of the field either
				return []any{"x", obj, true, arr, model.Num("900000000000000000"), model.Num("-900000000000000000"), model.Num("1e40")}
			case sebufhttp.TimestampFormat_TIMESTAMP_FORMAT_DATE:
				return []any{"2024-13-45", model.Num("5"), obj, "yesterday"}
			}
			return []any{"not-a-time", model.Num("5"), obj, "2024-01-15"}
		}
		return []any{model.Num("5"), "str", arr, true}
	}
	return nil
}

// regularField reports whether fd appears under its own JSON key in the parent's object.
func regularField(fd protoreflect.FieldDescriptor) bool {
	if fl, _ := model.Flatten(fd); fl {
		return false
	}
	if od := fd.ContainingOneof(); od != nil && !od.IsSynthetic() && model.OneofConfig(od) != nil {
		return false
	}
	if model.Unwrap(fd) {
		return false
	}
	if fd.IsMap() && fd.MapValue().Kind() == protoreflect.MessageKind && model.UnwrapField(fd.MapValue().Message()) != nil {
		return false
	}
	return true
}

// mutateField replaces one field of obj (the JSON object of md) by a value invalid for it.
// It descends into present plain singular children with probability 1/3.
func mutateField(t *rapid.T, md protoreflect.MessageDescriptor, obj map[string]any, depth int) (string, bool) {
	if model.RootUnwrap(md) {
		return "", false
	}
	fs := md.Fields()
	var cands []protoreflect.FieldDescriptor
	for i := 0; i < fs.Len(); i++ {
		if regularField(fs.Get(i)) {
			cands = append(cands, fs.Get(i))
		}
	}
	if len(cands) == 0 {
		return "", false
	}
	fd := cands[rapid.IntRange(0, len(cands)-1).Draw(t, fmt.Sprintf("mut%d.field", depth))]
	if child, ok := obj[fd.JSONName()].(map[string]any); ok && depth < 3 && fd.Kind() == protoreflect.MessageKind && !fd.IsMap() && !fd.IsList() &&
		fd.Message().FullName() != "google.protobuf.Timestamp" && !model.HasAnnotations(fd.Message()) && rapid.IntRange(0, 2).Draw(t, fmt.Sprintf("mut%d.descend", depth)) == 0 {
		if where, ok := mutateField(t, fd.Message(), child, depth+1); ok {
			return string(fd.Name()) + "." + where, true
		}
	}
	inv := invalidFor(fd)
	if len(inv) == 0 {
		return "", false
	}
	v := inv[rapid.IntRange(0, len(inv)-1).Draw(t, fmt.Sprintf("mut%d.value", depth))]
	obj[fd.JSONName()] = v
	b, _ := json.Marshal(v)
	return fmt.Sprintf("%s=%s", fd.Name(), b), true
}

var oddContentTypes = []string{"application/json", "application/json; charset=utf-8", "text/plain", "", "APPLICATION/JSON", "application/xml", "application/json;x=1"}

// buildC11: malformed request bodies are rejected cleanly by the Go server.
func buildC11(e *engine, p *rt.Package) {
	var srv *server
	for _, svc := range p.Services {
		if svc.Register == nil {
			continue
		}
		for _, m := range svc.Methods {
			svc, m := svc, m
			info := rpcInfo(svc, m)
			e.units = append(e.units, &unit{check: "c11", schema: p.ID, name: svc.Name + "." + m.Name, prop: func(res *Result) func(t *rapid.T) {
				if !info.ExplicitPath || !info.BodyVerb {
					res.Skipped = "not a body-carrying RPC with an explicit path"
					return func(t *rapid.T) {}
				}
				if srv == nil {
					srv = newServer(p, false)
				}
				_, custom := m.NewReq().(json.Unmarshaler)
				if custom {
					res.class("decoder:custom")
				} else {
					res.class("decoder:protojson")
				}
				for _, f := range msgFeatures(info.In) {
					res.class("request:" + f)
				}
				var durations []time.Duration
				return func(t *rapid.T) {
					if srv.regErr != "" {
						t.Fatalf("%s", srv.regErr)
					}
					req := drawRequest(t, info, m, valgen.Opts{}, true)
					target := buildTarget(info, req.ProtoReflect(), false)
					tree, err := model.Encode(req.ProtoReflect())
					if err != nil {
						res.Unspecified++
						return
					}
					valid, _ := json.Marshal(tree)
					kind := rapid.SampledFrom([]string{"wrong_type", "wrong_type", "wrong_type", "truncate", "trailing", "top_level", "deep_nesting", "invalid_utf8", "duplicate_key", "random_bytes", "binary_garbage", "binary_truncated", "huge_number", "read_error", "read_error", "leaf_nested_array", "leaf_nested_array", "long_text"}).Draw(t, "mutation")
					ct := "application/json"
					if rapid.IntRange(0, 3).Draw(t, "odd_ct") == 0 {
						ct = oddContentTypes[rapid.IntRange(0, len(oddContentTypes)-1).Draw(t, "ct")]
					}
					var body []byte
					mustReject := false
					binary := false
					cutBody := false
					desc := kind
					switch kind {
					case "wrong_type":
						obj, ok := tree.(map[string]any)
						if !ok {
							// root-unwrapped request: replace the root by a scalar
							body, mustReject, desc = []byte(`"str"`), true, "wrong_type root=\"str\""
							break
						}
						where, ok := mutateField(t, info.In, obj, 0)
						if !ok {
							return
						}
						body, _ = json.Marshal(obj)
						mustReject, desc = true, "wrong_type "+where
					case "leaf_nested_array":
						// whatever a key of the documented JSON form stands for (a field, a flattened or unwrapped
						// child, a discriminator), [[]] is not a value of it: no proto3 JSON type is an array of arrays
						var leaves []func()
						var where []string
						var walk func(path string, v any, set func(any))
						walk = func(path string, v any, set func(any)) {
							switch x := v.(type) {
							case map[string]any:
								ks := make([]string, 0, len(x))
								for k := range x {
									ks = append(ks, k)
								}
								sort.Strings(ks)
								for _, k := range ks {
									k := k
									walk(path+"."+k, x[k], func(n any) { x[k] = n })
								}
							case []any:
								for i := range x {
									i := i
									walk(fmt.Sprintf("%s[%d]", path, i), x[i], func(n any) { x[i] = n })
								}
							default:
								if set != nil {
									leaves = append(leaves, func() { set([]any{[]any{}}) })
									where = append(where, path)
								}
							}
						}
						walk("$", tree, nil)
						if len(leaves) == 0 {
							return
						}
						i := rapid.IntRange(0, len(leaves)-1).Draw(t, "leaf")
						leaves[i]()
						body, _ = json.Marshal(tree)
						mustReject, desc = true, "leaf_nested_array at "+where[i]
					case "truncate":
						if len(valid) < 2 {
							return
						}
						n := rapid.IntRange(1, len(valid)-1).Draw(t, "cut")
						body, mustReject = valid[:n], true
					case "trailing":
						body, mustReject = append(append([]byte{}, valid...), []byte(rapid.SampledFrom([]string{"x", "{}", "]", ",", "null"}).Draw(t, "tail"))...), true
					case "top_level":
						s := rapid.SampledFrom([]string{"null", "[]", "5", "\"str\"", "true", "[{}]"}).Draw(t, "top")
						body = []byte(s)
						// null / [] at the root of an object-shaped message: null is proto3-JSON-invalid at top level
						_, isObj := tree.(map[string]any)
						mustReject = isObj && s != "null"
						if !isObj {
							mustReject = false
						}
					case "deep_nesting":
						n := rapid.SampledFrom([]int{100, 5000, 20000, 200000}).Draw(t, "depth")
						open := rapid.SampledFrom([]string{"[", "{\"a\":"}).Draw(t, "open")
						body, mustReject = []byte(strings.Repeat(open, n)), true
						desc = fmt.Sprintf("deep_nesting %d x %q", n, open)
					case "invalid_utf8":
						body = bytes.Replace(valid, []byte(`"`), []byte("\"\xff\xfe"), 1)
						if bytes.Equal(body, valid) {
							return
						}
					case "duplicate_key":
						if len(valid) > 2 && valid[0] == '{' {
							body = append(append([]byte{}, valid[:len(valid)-1]...), append([]byte(","), valid[1:]...)...)
						} else {
							return
						}
					case "long_text":
						// hundreds of bytes of non-ASCII text where the decoder will quote it back in its error message
						// (an unknown key, or a string where a number is expected), at every byte alignment
						unit := rapid.SampledFrom([]string{"é", "漢", "🙂", "ß"}).Draw(t, "long_unit")
						txt := strings.Repeat("a", rapid.IntRange(0, 5).Draw(t, "long_pad")) + strings.Repeat(unit, rapid.IntRange(60, 400).Draw(t, "long_n"))
						if rapid.Bool().Draw(t, "long_as_key") || len(valid) < 2 || valid[0] != '{' {
							body = []byte(`{"` + txt + `":1}`)
						} else {
							body = bytes.Replace(valid, []byte(":"), []byte(`:"`+txt+`","zz":`), 1)
						}
						desc = fmt.Sprintf("long_text unit=%s bytes=%d", unit, len(txt))
					case "huge_number":
						body = bytes.Replace(valid, []byte(":"), []byte(":1e999999,\"zz\":"), 1)
					case "random_bytes":
						body = rapid.SliceOfN(rapid.Byte(), 1, 64).Draw(t, "bytes")
					case "binary_garbage":
						binary = true
						ct = rapid.SampledFrom([]string{"application/x-protobuf", "application/octet-stream", "application/x-protobuf; v=1"}).Draw(t, "bct")
						body = rapid.SliceOfN(rapid.Byte(), 1, 64).Draw(t, "bytes")
					case "binary_truncated":
						binary = true
						ct = "application/x-protobuf"
						wire, _ := proto.Marshal(req)
						if len(wire) < 2 {
							return
						}
						body = wire[:rapid.IntRange(1, len(wire)-1).Draw(t, "cut")]
					case "read_error":
						// the connection is cut after n bytes of a valid body (n = 0: before the first byte): the body
						// could not be read, so nothing may be dispatched
						src := valid
						if rapid.Bool().Draw(t, "cut_binary") {
							binary = true
							ct = "application/x-protobuf"
							src, _ = proto.Marshal(req)
						}
						n := 0
						if len(src) > 0 && rapid.Bool().Draw(t, "cut_later") {
							n = rapid.IntRange(0, len(src)).Draw(t, "cut_at")
						}
						body = src[:n]
						cutBody = true
						mustReject = true
						desc = fmt.Sprintf("read_error after %d of %d bytes", n, len(src))
					}
					res.class("mutation:" + kind)
					hdr := http.Header{}
					if ct != "" {
						hdr.Set("Content-Type", ct)
					}
					if !cutBody && rapid.IntRange(0, 3).Draw(t, "unknown_length") == 0 {
						// streamed: no Content-Length, the server learns the length by reading
						hdr[unknownLengthMarker] = []string{"1"}
						res.class("transfer:chunked")
						desc += " (chunked)"
					}
					srv.reset(func(string, string, proto.Message) (proto.Message, error) { return m.NewResp(), nil })
					start := time.Now()
					rec, panicked := srv.serveBody(info.Verb, target, hdr, body, cutBody)
					el := time.Since(start)
					calls := srv.taken()
					full := fmt.Sprintf("%s %s (%q) %s body=%s", info.Verb, target, ct, desc, short(string(body), 300))
					if panicked != "" {
						t.Fatalf("server panicked: %s\n%s", panicked, full)
					}
					if custom || kind == "wrong_type" {
						res.nontrivial(full)
					}
					res.sample(map[string]any{"case": short(full, 400), "status": rec.Code})
					if rec.Code != 200 && rec.Code != 400 {
						t.Fatalf("status %d (only 200 or 400 are acceptable): %s\n%s", rec.Code, short(rec.Body.String(), 300), full)
					}
					if rec.Code == 400 {
						if len(calls) != 0 {
							t.Fatalf("400 was answered but the handler ran\n%s", full)
						}
						vs, perr := parseViolations(rec.Body.Bytes(), binary && !strings.Contains(ct, ";"))
						if perr != nil {
							// content types with parameters are answered per filterFlags(ct); try the other encoding
							vs, perr = parseViolations(rec.Body.Bytes(), !(binary && !strings.Contains(ct, ";")))
						}
						if perr != nil || len(vs) == 0 {
							t.Fatalf("400 body is not a well-formed ValidationError with violations: %v: %s\n%s", perr, short(rec.Body.String(), 300), full)
						}
					}
					if mustReject && rec.Code == 200 {
						seenReq := "<none>"
						if len(calls) > 0 {
							seenReq = pjson(calls[0].Req)
						}
						t.Fatalf("a body that is invalid in every accepted form was dispatched (handler saw %s)\n%s", seenReq, full)
					}
					if binary && rec.Code == 200 && len(calls) == 1 {
						ref := m.NewReq()
						if uerr := proto.Unmarshal(body, ref); uerr != nil {
							t.Fatalf("undecodable wire data was dispatched: %v\n%s", uerr, full)
						} else {
							for _, fd := range info.PathFields {
								if fd != nil {
									ref.ProtoReflect().Set(fd, calls[0].Req.ProtoReflect().Get(fd))
								}
							}
							if !proto.Equal(ref, calls[0].Req) {
								t.Fatalf("handler-visible request differs from the reference decoding of the wire data\nwant %s\ngot  %s\n%s", pjson(ref), pjson(calls[0].Req), full)
							}
						}
					}
					// latency: 100x the median of this unit, and at least 2 s, re-checked in isolation
					durations = append(durations, el)
					if len(durations) > 30 {
						med := median(durations)
						if el > 100*med && el > 2*time.Second {
							s2 := time.Now()
							srv.serve(info.Verb, target, hdr, body)
							if d2 := time.Since(s2); d2 > 100*med && d2 > 2*time.Second {
								t.Fatalf("request took %s (median %s) twice in a row\n%s", d2, med, full)
							}
						}
					}
				}
			}})
		}
	}
}

func median(ds []time.Duration) time.Duration {
	c := append([]time.Duration{}, ds...)
	for i := 1; i < len(c); i++ {
		for j := i; j > 0 && c[j] < c[j-1]; j-- {
			c[j], c[j-1] = c[j-1], c[j]
		}
	}
	return c[len(c)/2]
}

// stubTransport answers every request with a drawn response.
type stubTransport struct {
	status int
	header http.Header
	body   []byte
	fail   bool
}

func (s *stubTransport) RoundTrip(req *http.Request) (*http.Response, error) {
	if req.Body != nil {
		_, _ = io.Copy(io.Discard, req.Body)
		req.Body.Close()
	}
	if s.fail {
		return nil, fmt.Errorf("connection reset by peer")
	}
	return &http.Response{StatusCode: s.status, Status: fmt.Sprintf("%d X", s.status), Header: s.header, Body: io.NopCloser(bytes.NewReader(s.body)),
		Proto: "HTTP/1.1", ProtoMajor: 1, ProtoMinor: 1, Request: req, ContentLength: int64(len(s.body))}, nil
}

// buildC11Client: for any status, headers and body a server may return, the generated Go client
// returns a response or an error value and never panics or hangs.
func buildC11Client(e *engine, p *rt.Package) {
	for _, svc := range p.Services {
		if svc.NewClient == nil {
			continue
		}
		for _, m := range svc.Methods {
			svc, m := svc, m
			info := rpcInfo(svc, m)
			e.units = append(e.units, &unit{check: "c11client", schema: p.ID, name: svc.Name + "." + m.Name, prop: func(res *Result) func(t *rapid.T) {
				return func(t *rapid.T) {
					st := &stubTransport{header: http.Header{}}
					st.status = rapid.SampledFrom([]int{200, 200, 201, 204, 301, 400, 400, 401, 404, 418, 500, 502, 503, 599, 100, 0, 999}).Draw(t, "status")
					st.fail = rapid.IntRange(0, 15).Draw(t, "transport_error") == 0
					rct := rapid.SampledFrom([]string{"application/json", "application/x-protobuf", "text/html", "", "application/json; charset=utf-8"}).Draw(t, "resp_ct")
					if rct != "" {
						st.header.Set("Content-Type", rct)
					}
					resp := valgen.Message(t, m.NewResp, "resp", valgen.Opts{})
					kind := rapid.SampledFrom([]string{"valid_json", "valid_binary", "truncated_json", "garbage", "empty", "validation_error", "error", "html", "deep", "wrong_shape"}).Draw(t, "body_kind")
					switch kind {
					case "valid_json":
						st.body, _ = model.EncodeBytes(resp.ProtoReflect())
					case "valid_binary":
						st.body, _ = proto.Marshal(resp)
					case "truncated_json":
						b, _ := model.EncodeBytes(resp.ProtoReflect())
						if len(b) > 1 {
							b = b[:rapid.IntRange(1, len(b)-1).Draw(t, "cut")]
						}
						st.body = b
					case "garbage":
						st.body = rapid.SliceOfN(rapid.Byte(), 0, 200).Draw(t, "bytes")
					case "empty":
						st.body = nil
					case "validation_error":
						st.body = []byte(`{"violations":[{"field":"a.b","description":"bad"},{"field":"X-H","description":"missing"}]}`)
					case "error":
						st.body = []byte(`{"message":"kaboom"}`)
					case "html":
						st.body = []byte("<html><body>502 Bad Gateway</body></html>")
					case "deep":
						st.body = []byte(strings.Repeat("[", rapid.SampledFrom([]int{1000, 100000}).Draw(t, "depth")))
					case "wrong_shape":
						st.body = []byte(rapid.SampledFrom([]string{"null", "[]", "5", "\"s\"", "{\"unknownField\":1}", "[1,2]"}).Draw(t, "shape"))
					}
					ct := rapid.SampledFrom([]string{"application/json", "application/x-protobuf", "application/octet-stream"}).Draw(t, "req_ct")
					req := drawRequest(t, info, m, valgen.Opts{}, true)
					client := svc.NewClient("http://verif.test", rt.ClientOpts{HTTPClient: &http.Client{Transport: st}, ContentType: ct})
					done := make(chan string, 1)
					var got proto.Message
					var err error
					go func() {
						defer func() {
							if r := recover(); r != nil {
								done <- fmt.Sprint(r)
								return
							}
							done <- ""
						}()
						got, err = client(context.Background(), m.Name, req, rt.CallOpts{})
					}()
					desc := fmt.Sprintf("status=%d resp_ct=%q body(%s)=%s req_ct=%s", st.status, rct, kind, short(string(st.body), 200), ct)
					res.class("body:" + kind)
					if kind != "valid_json" && kind != "empty" {
						res.nontrivial(desc)
					}
					res.sample(map[string]any{"served": short(desc, 300)})
					select {
					case p := <-done:
						if p != "" {
							t.Fatalf("client panicked: %s\n%s", p, desc)
						}
					case <-time.After(20 * time.Second):
						t.Fatalf("client did not return within 20 s\n%s", desc)
					}
					if err == nil && got == nil {
						t.Fatalf("client returned neither a response nor an error\n%s", desc)
					}
					if st.fail && err == nil {
						t.Fatalf("transport failed but the client reported success\n%s", desc)
					}
					if !st.fail && st.status >= 400 && err == nil {
						t.Fatalf("status %d but the client reported success\n%s", st.status, desc)
					}
				}
			}})
		}
	}
}

// Package ws lays out Go workspaces from plugin output: one module per variant
// (both | server | client), one package per schema, plus generated glue that
// registers every service and message with verif/harness/rt.
package ws

import (
	"bytes"
	"fmt"
	"go/ast"
	"go/parser"
	"go/token"
	"os"
	"os/exec"
	"path/filepath"
	"regexp"
	"sort"
	"strings"

	"google.golang.org/protobuf/compiler/protogen"
	"google.golang.org/protobuf/types/descriptorpb"
	"google.golang.org/protobuf/types/pluginpb"

	"verif/harness/plugin"
	"verif/harness/schema"
)

const ModulePath = "verif.test"

// HarnessDir is the directory of the verif/harness module.
func HarnessDir() string {
	if d := os.Getenv("VERIF_HARNESS"); d != "" {
		return d
	}
	if d := os.Getenv("VERIF_ROOT"); d != "" {
		return filepath.Join(d, "harness")
	}
	if exe, err := os.Executable(); err == nil {
		r := filepath.Dir(filepath.Dir(exe))
		if _, err := os.Stat(filepath.Join(r, "harness", "go.mod")); err == nil {
			return filepath.Join(r, "harness")
		}
	}
	return "/verif/harness"
}

// StubDir is the protovalidate stand-in module.
func StubDir() string { return filepath.Join(filepath.Dir(HarnessDir()), "stubs", "protovalidate") }

// Workspace is one Go module holding generated packages of one variant.
type Workspace struct {
	Dir     string
	Variant string // both | server | client
	Set     *plugin.Set
	ToolDir string // where protoc-gen-go lives
	Units   []*Unit
}

// Unit is one schema materialised in a workspace.
type Unit struct {
	Schema    *schema.Schema
	PkgPath   string                       // import path
	Dir       string                       // absolute dir
	Files     map[string]string            // rel file name -> content, as emitted (no glue)
	Emitted   map[string]map[string]string // plugin -> file -> content
	PluginErr map[string]string            // plugin -> error
	HasMock   bool
	BuildErr  string // filled by Build when this package fails
	VetErr    string
	NoGlue    bool
	Variant   string // both | server | client (defaults to the workspace's)
}

// New creates a workspace module in dir.
func New(dir, variant string, set *plugin.Set, toolDir string) (*Workspace, error) {
	if err := os.MkdirAll(dir, 0o755); err != nil {
		return nil, err
	}
	gomod := fmt.Sprintf(`module %s

go 1.24.7

require (
	buf.build/gen/go/bufbuild/protovalidate/protocolbuffers/go v1.36.11-20260209202127-80ab13bee0bf.1
	buf.build/go/protovalidate v0.0.0
	github.com/SebastienMelki/sebuf v0.0.0
	google.golang.org/protobuf v1.36.11
	pgregory.net/rapid v1.3.0
	verif/harness v0.0.0
)

replace github.com/SebastienMelki/sebuf => %s

replace buf.build/go/protovalidate => %s

replace verif/harness => %s
`, ModulePath, plugin.Repo(), StubDir(), HarnessDir())
	if err := os.WriteFile(filepath.Join(dir, "go.mod"), []byte(gomod), 0o644); err != nil {
		return nil, err
	}
	sum, err := os.ReadFile(filepath.Join(HarnessDir(), "go.sum"))
	if err == nil {
		_ = os.WriteFile(filepath.Join(dir, "go.sum"), sum, 0o644)
	}
	return &Workspace{Dir: dir, Variant: variant, Set: set, ToolDir: toolDir}, nil
}

// Add runs the plugins for the schema and writes the package. param is passed to go-http
// (e.g. "generate_mock=true"). clientFirst controls the write order in variant "both".
func (w *Workspace) Add(s *schema.Schema, param string, clientFirst bool) (*Unit, error) {
	return w.AddVariant(s, param, clientFirst, "")
}

// AddVariant is Add with the unit's own build variant ("" = the workspace's): in a workspace of variant
// "both" a unit may be built from protoc-gen-go-http alone ("server") or protoc-gen-go-client alone
// ("client"), the layout of a project that uses one of the two plugins. Files both plugins emit under the
// same name otherwise stand in for each other.
func (w *Workspace) AddVariant(s *schema.Schema, param string, clientFirst bool, variant string) (*Unit, error) {
	if variant == "" {
		variant = w.Variant
	}
	req, err := schema.Request("", s)
	if err != nil {
		return nil, err
	}
	if _, err := schema.Gate(req); err != nil {
		return nil, fmt.Errorf("generator bug: schema %s fails the descriptor gate: %w", s.ID, err)
	}
	u := &Unit{Schema: s, PkgPath: s.GoPath, Files: map[string]string{}, Emitted: map[string]map[string]string{}, PluginErr: map[string]string{}}
	rel := strings.TrimPrefix(s.GoPath, ModulePath+"/")
	u.Dir = filepath.Join(w.Dir, rel)
	run := func(name, par string) error {
		r := req
		if par != "" {
			r2, _ := schema.Request(par, s)
			r = r2
		}
		var res *plugin.Result
		if name == plugin.ProtoGo {
			tool := &plugin.Set{Dir: w.ToolDir}
			res = tool.Run(name, r, plugin.Opts{})
		} else {
			res = w.Set.Run(name, r, plugin.Opts{})
		}
		if c, why := res.Crashed(); c {
			u.PluginErr[name] = "CRASH: " + why + ": " + trunc(res.Stderr, 400)
			return nil
		}
		if e := res.Err(); e != "" {
			u.PluginErr[name] = e
			return nil
		}
		u.Emitted[name] = res.Files()
		for n, c := range res.Files() {
			u.Files[strings.TrimPrefix(n, ModulePath+"/")] = c
		}
		return nil
	}
	if err := run(plugin.ProtoGo, ""); err != nil {
		return nil, err
	}
	if e := u.PluginErr[plugin.ProtoGo]; e != "" {
		return nil, fmt.Errorf("protoc-gen-go rejected schema %s (generator bug): %s", s.ID, e)
	}
	u.Variant = variant
	order := []string{}
	switch variant {
	case "server":
		order = []string{plugin.GoHTTP}
	case "client":
		order = []string{plugin.GoClient}
	default:
		order = []string{plugin.GoHTTP, plugin.GoClient}
		if clientFirst {
			order = []string{plugin.GoClient, plugin.GoHTTP}
		}
	}
	for _, n := range order {
		par := ""
		if n == plugin.GoHTTP {
			par = param
		}
		if err := run(n, par); err != nil {
			return nil, err
		}
	}
	// companion files (a shared types package of a per-package build) are generated by their own invocation
	var companions []string
	for _, f := range s.Files {
		if f.Companion {
			companions = append(companions, f.Name)
		}
	}
	if len(companions) > 0 {
		main := req
		comp := func(par string) *pluginpb.CodeGeneratorRequest {
			r, _ := schema.Request(par, s)
			r.FileToGenerate = companions
			var sfd []*descriptorpb.FileDescriptorProto
			for _, fd := range r.ProtoFile {
				for _, n := range companions {
					if fd.GetName() == n {
						sfd = append(sfd, fd)
					}
				}
			}
			r.SourceFileDescriptors = sfd
			return r
		}
		runComp := func(name, par string) {
			r := comp(par)
			var res *plugin.Result
			if name == plugin.ProtoGo {
				res = (&plugin.Set{Dir: w.ToolDir}).Run(name, r, plugin.Opts{})
			} else {
				res = w.Set.Run(name, r, plugin.Opts{})
			}
			if c, why := res.Crashed(); c {
				u.PluginErr[name] = "CRASH (companion package): " + why + ": " + trunc(res.Stderr, 400)
				return
			}
			if e := res.Err(); e != "" {
				u.PluginErr[name] = "companion package: " + e
				return
			}
			for n, c := range res.Files() {
				u.Files[strings.TrimPrefix(n, ModulePath+"/")] = c
			}
		}
		_ = main
		runComp(plugin.ProtoGo, "")
		for _, n := range order {
			runComp(n, "")
		}
	}
	for n := range u.Files {
		if strings.HasSuffix(n, "_http_mock.pb.go") {
			u.HasMock = true
		}
	}
	for n, c := range u.Files {
		p := filepath.Join(w.Dir, n)
		if err := os.MkdirAll(filepath.Dir(p), 0o755); err != nil {
			return nil, err
		}
		if err := os.WriteFile(p, []byte(c), 0o644); err != nil {
			return nil, err
		}
	}
	w.Units = append(w.Units, u)
	return u, nil
}

// WriteGlue writes the glue file for the unit (after the no-glue build was judged).
func (w *Workspace) WriteGlue(u *Unit) error {
	req, err := schema.Request("", u.Schema)
	if err != nil {
		return err
	}
	src, err := glueSource(req, u, u.Variant)
	if err != nil {
		return err
	}
	return os.WriteFile(filepath.Join(u.Dir, "zz_verif_glue.go"), []byte(src), 0o644)
}

func trunc(s string, n int) string {
	if len(s) > n {
		return s[:n] + "…"
	}
	return s
}

// goRun runs a go command in the workspace.
func (w *Workspace) goRun(args ...string) (string, error) {
	cmd := exec.Command("go", args...)
	cmd.Dir = w.Dir
	cmd.Env = plugin.GeneratedEnv()
	var out bytes.Buffer
	cmd.Stdout = &out
	cmd.Stderr = &out
	err := cmd.Run()
	return out.String(), err
}

var pkgHeader = regexp.MustCompile(`(?m)^# (\S+)`)

// splitByPackage splits go build/vet output into per-package chunks.
func splitByPackage(out string) map[string]string {
	res := map[string]string{}
	idx := pkgHeader.FindAllStringSubmatchIndex(out, -1)
	for i, m := range idx {
		end := len(out)
		if i+1 < len(idx) {
			end = idx[i+1][0]
		}
		pkg := out[m[2]:m[3]]
		pkg = strings.TrimSuffix(pkg, "_test")
		pkg = strings.TrimSuffix(pkg, ".test")
		res[pkg] += out[m[0]:end]
	}
	return res
}

// BuildAndVet compiles every unit package (go build) and runs the vet analyzers that
// `go test` runs. Failures are attributed to units; the error return is only for
// infrastructure problems.
func (w *Workspace) BuildAndVet() error {
	if len(w.Units) == 0 {
		return nil
	}
	out, err := w.goRun("build", "./...")
	if err != nil {
		per := splitByPackage(out)
		matched := false
		for _, u := range w.Units {
			for pkg, c := range per {
				if pkg == u.PkgPath || strings.HasPrefix(pkg, u.PkgPath+"/") {
					u.BuildErr += c
					matched = true
				}
			}
		}
		if !matched {
			return fmt.Errorf("go build failed without attributable package:\n%s", trunc(out, 4000))
		}
	}
	// vet only packages that built
	var pkgs []string
	for _, u := range w.Units {
		if u.BuildErr == "" {
			pkgs = append(pkgs, u.PkgPath)
			for _, f := range u.Schema.Files {
				if f.Companion && f.GoPath != "" {
					pkgs = append(pkgs, f.GoPath)
				}
			}
		}
	}
	if len(pkgs) == 0 {
		return nil
	}
	args := append([]string{"vet", "-atomic", "-bool", "-buildtags", "-directive", "-errorsas", "-ifaceassert", "-nilfunc", "-printf", "-stringintconv", "-tests"}, pkgs...)
	out, err = w.goRun(args...)
	if err != nil {
		per := splitByPackage(out)
		matched := false
		for _, u := range w.Units {
			for pkg, c := range per {
				if pkg == u.PkgPath || strings.HasPrefix(pkg, u.PkgPath+"/") {
					u.VetErr += c
					matched = true
				}
			}
		}
		if !matched {
			return fmt.Errorf("go vet failed without attributable package:\n%s", trunc(out, 4000))
		}
	}
	return nil
}

// RemoveUnit deletes a unit's package from the workspace.
func (w *Workspace) RemoveUnit(u *Unit) {
	_ = os.RemoveAll(u.Dir)
	var keep []*Unit
	for _, x := range w.Units {
		if x != u {
			keep = append(keep, x)
		}
	}
	w.Units = keep
}

// BuildBatch writes the batch test package importing all remaining units plus glue and
// compiles it to a test binary. race enables the race detector.
func (w *Workspace) BuildBatch(race bool) (string, error) {
	for _, u := range w.Units {
		if u.NoGlue {
			continue
		}
		if err := w.WriteGlue(u); err != nil {
			return "", fmt.Errorf("glue for %s: %w", u.Schema.ID, err)
		}
	}
	dir := filepath.Join(w.Dir, "batch")
	if err := os.MkdirAll(dir, 0o755); err != nil {
		return "", err
	}
	var b strings.Builder
	b.WriteString("package batch\n\nimport (\n\t\"testing\"\n\n\t\"verif/harness/inner\"\n")
	for _, u := range w.Units {
		fmt.Fprintf(&b, "\t_ %q\n", u.PkgPath)
	}
	b.WriteString(")\n\nfunc TestInner(t *testing.T) { inner.Run(t) }\n")
	if err := os.WriteFile(filepath.Join(dir, "batch_test.go"), []byte(b.String()), 0o644); err != nil {
		return "", err
	}
	bin := filepath.Join(w.Dir, "batch.test")
	args := []string{"test", "-c", "-vet=off", "-o", bin}
	if race {
		args = append(args, "-race")
	}
	args = append(args, "./batch")
	out, err := w.goRun(args...)
	if err != nil {
		return "", fmt.Errorf("building batch binary failed (harness/glue problem, not a finding):\n%s", trunc(out, 6000))
	}
	return bin, nil
}

// ---- glue ----------------------------------------------------------------------------------

func glueSource(req *pluginpb.CodeGeneratorRequest, u *Unit, variant string) (string, error) {
	gp, err := protogen.Options{}.New(req)
	if err != nil {
		return "", err
	}
	hasServer := variant != "client"
	hasClient := variant != "server"
	var pkgName string
	var msgs []string
	type meth struct{ name, in, out string }
	type svc struct {
		name    string
		methods []meth
	}
	var svcs []svc
	for _, f := range gp.Files {
		if !f.Generate {
			continue
		}
		pkgName = string(f.GoPackageName)
		var walk func(ms []*protogen.Message)
		walk = func(ms []*protogen.Message) {
			for _, m := range ms {
				if m.Desc.IsMapEntry() {
					continue
				}
				msgs = append(msgs, m.GoIdent.GoName)
				walk(m.Messages)
			}
		}
		walk(f.Messages)
		for _, s := range f.Services {
			sv := svc{name: s.GoName}
			for _, m := range s.Methods {
				if m.Input.GoIdent.GoImportPath != f.GoImportPath || m.Output.GoIdent.GoImportPath != f.GoImportPath {
					return "", fmt.Errorf("glue: cross-package request/response types not supported")
				}
				sv.methods = append(sv.methods, meth{m.GoName, m.Input.GoIdent.GoName, m.Output.GoIdent.GoName})
			}
			svcs = append(svcs, sv)
		}
	}
	sort.Strings(msgs)
	// discover typed header helpers in the emitted client file
	clientHelpers := map[string][]string{}
	callHelpers := map[string][]string{}
	if hasClient {
		for name, content := range u.Files {
			if !strings.HasSuffix(name, "_client.pb.go") {
				continue
			}
			fset := token.NewFileSet()
			af, perr := parser.ParseFile(fset, name, content, 0)
			if perr != nil {
				continue
			}
			for _, d := range af.Decls {
				fd, ok := d.(*ast.FuncDecl)
				if !ok || fd.Recv != nil || fd.Type.Results == nil || len(fd.Type.Results.List) != 1 {
					continue
				}
				if fd.Type.Params == nil || len(fd.Type.Params.List) != 1 || len(fd.Type.Params.List[0].Names) != 1 {
					continue
				}
				if id, ok := fd.Type.Params.List[0].Type.(*ast.Ident); !ok || id.Name != "string" {
					continue
				}
				rid, ok := fd.Type.Results.List[0].Type.(*ast.Ident)
				if !ok {
					continue
				}
				for _, sv := range svcs {
					std := map[string]bool{"With" + sv.name + "ContentType": true, "With" + sv.name + "CallContentType": true}
					if std[fd.Name.Name] {
						continue
					}
					if rid.Name == sv.name+"ClientOption" {
						clientHelpers[sv.name] = append(clientHelpers[sv.name], fd.Name.Name)
					}
					if rid.Name == sv.name+"CallOption" {
						callHelpers[sv.name] = append(callHelpers[sv.name], fd.Name.Name)
					}
				}
			}
		}
	}
	var b strings.Builder
	fmt.Fprintf(&b, "// Code generated by the verification harness. DO NOT EDIT.\n\npackage %s\n\n", pkgName)
	b.WriteString("import (\n\t\"context\"\n\t\"net/http\"\n\n\t\"google.golang.org/protobuf/proto\"\n\n\tverifrt \"verif/harness/rt\"\n)\n\n")
	b.WriteString("var _ = context.Background\nvar _ http.Handler\n\n")
	fmt.Fprintf(&b, "func init() {\n\tverifrt.Register(&verifrt.Package{\n\t\tID: %q,\n\t\tVariant: %q,\n", u.Schema.ID, variant)
	b.WriteString("\t\tMessages: []func() proto.Message{\n")
	for _, m := range msgs {
		fmt.Fprintf(&b, "\t\t\tfunc() proto.Message { return &%s{} },\n", m)
	}
	b.WriteString("\t\t},\n\t\tServices: []*verifrt.Service{\n")
	for _, sv := range svcs {
		fmt.Fprintf(&b, "\t\t\t{\n\t\t\t\tName: %q,\n\t\t\t\tMethods: []*verifrt.Method{\n", sv.name)
		for _, m := range sv.methods {
			fmt.Fprintf(&b, "\t\t\t\t\t{Name: %q, NewReq: func() proto.Message { return &%s{} }, NewResp: func() proto.Message { return &%s{} }},\n", m.name, m.in, m.out)
		}
		b.WriteString("\t\t\t\t},\n")
		if hasServer {
			fmt.Fprintf(&b, "\t\t\t\tRegister: verifRegister%s,\n", sv.name)
			if u.HasMock {
				fmt.Fprintf(&b, "\t\t\t\tNewMock: verifMock%s,\n", sv.name)
			}
		}
		if hasClient {
			fmt.Fprintf(&b, "\t\t\t\tNewClient: verifNewClient%s,\n", sv.name)
			fmt.Fprintf(&b, "\t\t\t\tClientHelpers: %#v,\n\t\t\t\tCallHelpers: %#v,\n", clientHelpers[sv.name], callHelpers[sv.name])
		}
		b.WriteString("\t\t\t},\n")
	}
	b.WriteString("\t\t},\n\t})\n}\n\n")
	for _, sv := range svcs {
		if hasServer {
			fmt.Fprintf(&b, "type verifSrv%s struct{ h verifrt.Handler }\n\n", sv.name)
			for _, m := range sv.methods {
				fmt.Fprintf(&b, "func (s *verifSrv%s) %s(ctx context.Context, req *%s) (*%s, error) {\n", sv.name, m.name, m.in, m.out)
				fmt.Fprintf(&b, "\tr, err := s.h(ctx, %q, %q, req)\n\tif r == nil {\n\t\treturn nil, err\n\t}\n\treturn r.(*%s), err\n}\n\n", sv.name, m.name, m.out)
			}
			fmt.Fprintf(&b, "func verifRegister%s(mux *http.ServeMux, h verifrt.Handler, eh verifrt.ErrorHook) error {\n", sv.name)
			b.WriteString("\topts := []ServerOption{WithMux(mux)}\n\tif eh != nil {\n")
			b.WriteString("\t\topts = append(opts, WithErrorHandler(func(w http.ResponseWriter, r *http.Request, err error) proto.Message { return eh(w, r, err) }))\n\t}\n")
			fmt.Fprintf(&b, "\treturn Register%sServer(&verifSrv%s{h: h}, opts...)\n}\n\n", sv.name, sv.name)
			if u.HasMock {
				fmt.Fprintf(&b, "func verifMock%s() verifrt.Handler {\n\tm := NewMock%sServer()\n", sv.name, sv.name)
				b.WriteString("\treturn func(ctx context.Context, service, method string, req proto.Message) (proto.Message, error) {\n\t\tswitch method {\n")
				for _, m := range sv.methods {
					fmt.Fprintf(&b, "\t\tcase %q:\n\t\t\treturn m.%s(ctx, req.(*%s))\n", m.name, m.name, m.in)
				}
				b.WriteString("\t\t}\n\t\tpanic(\"unknown method \" + method)\n\t}\n}\n\n")
			}
		}
		if hasClient {
			fmt.Fprintf(&b, "func verifNewClient%s(baseURL string, o verifrt.ClientOpts) verifrt.Caller {\n", sv.name)
			fmt.Fprintf(&b, "\tvar opts []%sClientOption\n", sv.name)
			fmt.Fprintf(&b, "\tif o.HTTPClient != nil {\n\t\topts = append(opts, With%sHTTPClient(o.HTTPClient))\n\t}\n", sv.name)
			fmt.Fprintf(&b, "\tif o.ContentType != \"\" {\n\t\topts = append(opts, With%sContentType(o.ContentType))\n\t}\n", sv.name)
			fmt.Fprintf(&b, "\tfor _, h := range o.DefaultHeaders {\n\t\topts = append(opts, With%sDefaultHeader(h[0], h[1]))\n\t}\n", sv.name)
			b.WriteString("\tfor _, h := range o.Helpers {\n\t\tswitch h[0] {\n")
			for _, h := range clientHelpers[sv.name] {
				fmt.Fprintf(&b, "\t\tcase %q:\n\t\t\topts = append(opts, %s(h[1]))\n", h, h)
			}
			b.WriteString("\t\tdefault:\n\t\t\tpanic(\"unknown client helper \" + h[0])\n\t\t}\n\t}\n")
			fmt.Fprintf(&b, "\tc := New%sClient(baseURL, opts...)\n", sv.name)
			b.WriteString("\treturn func(ctx context.Context, method string, req proto.Message, co verifrt.CallOpts) (proto.Message, error) {\n")
			fmt.Fprintf(&b, "\t\tvar copts []%sCallOption\n", sv.name)
			fmt.Fprintf(&b, "\t\tif co.ContentType != \"\" {\n\t\t\tcopts = append(copts, With%sCallContentType(co.ContentType))\n\t\t}\n", sv.name)
			fmt.Fprintf(&b, "\t\tfor _, h := range co.Headers {\n\t\t\tcopts = append(copts, With%sHeader(h[0], h[1]))\n\t\t}\n", sv.name)
			b.WriteString("\t\tfor _, h := range co.Helpers {\n\t\t\tswitch h[0] {\n")
			for _, h := range callHelpers[sv.name] {
				if h == "With"+sv.name+"Header" {
					continue
				}
				fmt.Fprintf(&b, "\t\t\tcase %q:\n\t\t\t\tcopts = append(copts, %s(h[1]))\n", h, h)
			}
			b.WriteString("\t\t\tdefault:\n\t\t\t\tpanic(\"unknown call helper \" + h[0])\n\t\t\t}\n\t\t}\n")
			b.WriteString("\t\tswitch method {\n")
			for _, m := range sv.methods {
				fmt.Fprintf(&b, "\t\tcase %q:\n\t\t\tr, err := c.%s(ctx, req.(*%s), copts...)\n\t\t\tif r == nil {\n\t\t\t\treturn nil, err\n\t\t\t}\n\t\t\treturn r, err\n", m.name, m.name, m.in)
			}
			b.WriteString("\t\t}\n\t\tpanic(\"unknown method \" + method)\n\t}\n}\n\n")
		}
	}
	return b.String(), nil
}

// Package rt is the tiny runtime the generated glue registers with and the
// generic inner engine iterates over. It contains no sebuf-specific logic.
package rt

import (
	"context"
	"net/http"
	"sort"
	"sync"

	"google.golang.org/protobuf/proto"
)

// Handler is a generic service implementation: the glue forwards every RPC here.
type Handler func(ctx context.Context, service, method string, req proto.Message) (proto.Message, error)

// ErrorHook is a generic error hook; the glue adapts it to the package's ErrorHandler type.
type ErrorHook func(w http.ResponseWriter, r *http.Request, err error) proto.Message

// ClientOpts configures a generated client.
type ClientOpts struct {
	HTTPClient     *http.Client
	ContentType    string      // "" = leave default
	DefaultHeaders [][2]string // WithXDefaultHeader(k, v)
	Helpers        [][2]string // typed header helper options: {funcName, value}
}

// CallOpts configures one call.
type CallOpts struct {
	ContentType string
	Headers     [][2]string
	Helpers     [][2]string // typed per-call header helper options: {funcName, value}
}

// Caller invokes an RPC of a generated client by method name.
type Caller func(ctx context.Context, method string, req proto.Message, co CallOpts) (proto.Message, error)

// Method describes an RPC.
type Method struct {
	Name    string
	NewReq  func() proto.Message
	NewResp func() proto.Message
}

// Service describes a generated service.
type Service struct {
	Name          string
	Methods       []*Method
	Register      func(mux *http.ServeMux, h Handler, eh ErrorHook) error // nil when no server code in the package
	NewClient     func(baseURL string, o ClientOpts) Caller               // nil when no client code in the package
	NewMock       func() Handler                                          // nil when no mock in the package
	ClientHelpers []string                                                // discovered typed client-option helper names
	CallHelpers   []string                                                // discovered typed call-option helper names
}

// Package is one generated Go package.
type Package struct {
	ID       string // schema id
	Variant  string // both | server | client
	Services []*Service
	Messages []func() proto.Message
}

func (p *Package) Service(name string) *Service {
	for _, s := range p.Services {
		if s.Name == name {
			return s
		}
	}
	return nil
}

func (s *Service) Method(name string) *Method {
	for _, m := range s.Methods {
		if m.Name == name {
			return m
		}
	}
	return nil
}

var (
	mu       sync.Mutex
	packages = map[string]*Package{}
)

// Register is called from generated glue init functions.
func Register(p *Package) {
	mu.Lock()
	defer mu.Unlock()
	packages[p.ID+"/"+p.Variant] = p
}

// Packages returns all registered packages sorted by key.
func Packages() []*Package {
	mu.Lock()
	defer mu.Unlock()
	keys := make([]string, 0, len(packages))
	for k := range packages {
		keys = append(keys, k)
	}
	sort.Strings(keys)
	out := make([]*Package, 0, len(keys))
	for _, k := range keys {
		out = append(out, packages[k])
	}
	return out
}

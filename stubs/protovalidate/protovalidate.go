// Package protovalidate is an API-compatible stand-in for buf.build/go/protovalidate,
// which cannot be built offline in the verification sandbox (cel-go is not cached).
// It implements the standard-rule subset sebuf documents as supported and reports
// violations in the real library's shape. It is part of the trusted base of /verif.
package protovalidate

import (
	"fmt"
	"math"
	"net"
	"net/mail"
	"net/url"
	"regexp"
	"strings"
	"unicode/utf8"

	"buf.build/gen/go/bufbuild/protovalidate/protocolbuffers/go/buf/validate"
	"google.golang.org/protobuf/proto"
	"google.golang.org/protobuf/reflect/protoreflect"
	"google.golang.org/protobuf/types/descriptorpb"
)

// Validator validates messages.
type Validator interface {
	Validate(msg proto.Message, options ...ValidationOption) error
}

// ValidatorOption configures New.
type ValidatorOption interface{ isValidatorOption() }

// ValidationOption configures Validate.
type ValidationOption interface{ isValidationOption() }

// Violation mirrors protovalidate.Violation.
type Violation struct {
	Proto           *validate.Violation
	FieldValue      protoreflect.Value
	FieldDescriptor protoreflect.FieldDescriptor
	RuleValue       protoreflect.Value
	RuleDescriptor  protoreflect.FieldDescriptor
}

// ValidationError mirrors protovalidate.ValidationError.
type ValidationError struct {
	Violations []*Violation
}

func (e *ValidationError) Error() string {
	var b strings.Builder
	b.WriteString("validation error:")
	for _, v := range e.Violations {
		b.WriteString("\n - ")
		if p := FieldPathString(v.Proto.GetField()); p != "" {
			b.WriteString(p + ": ")
		}
		fmt.Fprintf(&b, "%s [%s]", v.Proto.GetMessage(), v.Proto.GetRuleId())
	}
	return b.String()
}

// FieldPathString renders a field path like the real library.
func FieldPathString(p *validate.FieldPath) string {
	var b strings.Builder
	for i, e := range p.GetElements() {
		if i > 0 {
			b.WriteByte('.')
		}
		b.WriteString(e.GetFieldName())
		switch s := e.GetSubscript().(type) {
		case *validate.FieldPathElement_Index:
			fmt.Fprintf(&b, "[%d]", s.Index)
		case *validate.FieldPathElement_StringKey:
			fmt.Fprintf(&b, "[%q]", s.StringKey)
		case *validate.FieldPathElement_IntKey:
			fmt.Fprintf(&b, "[%d]", s.IntKey)
		case *validate.FieldPathElement_UintKey:
			fmt.Fprintf(&b, "[%d]", s.UintKey)
		case *validate.FieldPathElement_BoolKey:
			fmt.Fprintf(&b, "[%t]", s.BoolKey)
		}
	}
	return b.String()
}

type validator struct{}

// New returns a validator.
func New(_ ...ValidatorOption) (Validator, error) { return validator{}, nil }

// Validate validates msg with a default validator.
func Validate(msg proto.Message, _ ...ValidationOption) error {
	return validator{}.Validate(msg)
}

func (validator) Validate(msg proto.Message, _ ...ValidationOption) error {
	if msg == nil {
		return nil
	}
	var vs []*Violation
	walk(msg.ProtoReflect(), nil, &vs, 0)
	if len(vs) == 0 {
		return nil
	}
	return &ValidationError{Violations: vs}
}

func elem(fd protoreflect.FieldDescriptor) *validate.FieldPathElement {
	e := &validate.FieldPathElement{
		FieldNumber: proto.Int32(int32(fd.Number())),
		FieldName:   proto.String(string(fd.Name())),
		FieldType:   descriptorpb.FieldDescriptorProto_Type(fd.Kind()).Enum(),
	}
	if fd.IsMap() {
		e.KeyType = descriptorpb.FieldDescriptorProto_Type(fd.MapKey().Kind()).Enum()
		e.ValueType = descriptorpb.FieldDescriptorProto_Type(fd.MapValue().Kind()).Enum()
	}
	return e
}

func withSub(e *validate.FieldPathElement, sub any) *validate.FieldPathElement {
	c := proto.Clone(e).(*validate.FieldPathElement)
	switch s := sub.(type) {
	case int:
		c.Subscript = &validate.FieldPathElement_Index{Index: uint64(s)}
	case protoreflect.MapKey:
		switch v := s.Interface().(type) {
		case string:
			c.Subscript = &validate.FieldPathElement_StringKey{StringKey: v}
		case bool:
			c.Subscript = &validate.FieldPathElement_BoolKey{BoolKey: v}
		case int32:
			c.Subscript = &validate.FieldPathElement_IntKey{IntKey: int64(v)}
		case int64:
			c.Subscript = &validate.FieldPathElement_IntKey{IntKey: v}
		case uint32:
			c.Subscript = &validate.FieldPathElement_UintKey{UintKey: uint64(v)}
		case uint64:
			c.Subscript = &validate.FieldPathElement_UintKey{UintKey: v}
		}
	}
	return c
}

func fieldRules(fd protoreflect.FieldDescriptor) *validate.FieldRules {
	opts, ok := fd.Options().(*descriptorpb.FieldOptions)
	if !ok || opts == nil {
		return nil
	}
	if !proto.HasExtension(opts, validate.E_Field) {
		return nil
	}
	fr, _ := proto.GetExtension(opts, validate.E_Field).(*validate.FieldRules)
	return fr
}

func add(vs *[]*Violation, path []*validate.FieldPathElement, fd protoreflect.FieldDescriptor, id, msg string) {
	p := make([]*validate.FieldPathElement, len(path))
	copy(p, path)
	*vs = append(*vs, &Violation{
		Proto: &validate.Violation{
			Field:   &validate.FieldPath{Elements: p},
			RuleId:  proto.String(id),
			Message: proto.String(msg),
		},
		FieldDescriptor: fd,
	})
}

func walk(m protoreflect.Message, path []*validate.FieldPathElement, vs *[]*Violation, depth int) {
	if depth > 64 {
		return
	}
	messageRules(m, path, vs)
	fds := m.Descriptor().Fields()
	for i := 0; i < fds.Len(); i++ {
		fd := fds.Get(i)
		fr := fieldRules(fd)
		here := append(append([]*validate.FieldPathElement{}, path...), elem(fd))
		has := m.Has(fd)
		if fr != nil {
			if fr.GetRequired() && !has {
				add(vs, here, fd, "required", "value is required")
				continue
			}
			// implicit-presence unset fields are still validated (IGNORE_UNSPECIFIED validates
			// zero values of fields without presence); explicit-presence unset fields are skipped.
			if !has && fd.HasPresence() {
				continue
			}
			checkField(m, fd, fr, here, vs)
		}
		if !has {
			continue
		}
		// recurse into messages
		switch {
		case fd.IsMap():
			if fd.MapValue().Kind() == protoreflect.MessageKind {
				m.Get(fd).Map().Range(func(k protoreflect.MapKey, v protoreflect.Value) bool {
					p := append(append([]*validate.FieldPathElement{}, path...), withSub(elem(fd), k))
					walk(v.Message(), p, vs, depth+1)
					return true
				})
			}
		case fd.IsList():
			if fd.Kind() == protoreflect.MessageKind {
				l := m.Get(fd).List()
				for j := 0; j < l.Len(); j++ {
					p := append(append([]*validate.FieldPathElement{}, path...), withSub(elem(fd), j))
					walk(l.Get(j).Message(), p, vs, depth+1)
				}
			}
		case fd.Kind() == protoreflect.MessageKind:
			walk(m.Get(fd).Message(), here, vs, depth+1)
		}
	}
}

// messageRules evaluates (buf.validate.message).cel entries of the one form this stand-in knows,
// "this.<a> <op> this.<b>" over two integer fields. A violated rule of the message as a whole names no field:
// its path is that of the enclosing field (empty for the validated message itself), as in the real library.
func messageRules(m protoreflect.Message, path []*validate.FieldPathElement, vs *[]*Violation) {
	mo, ok := m.Descriptor().Options().(*descriptorpb.MessageOptions)
	if !ok || mo == nil || !proto.HasExtension(mo, validate.E_Message) {
		return
	}
	mr, _ := proto.GetExtension(mo, validate.E_Message).(*validate.MessageRules)
	for _, r := range mr.GetCel() {
		parts := strings.Fields(r.GetExpression())
		if len(parts) != 3 || !strings.HasPrefix(parts[0], "this.") || !strings.HasPrefix(parts[2], "this.") {
			continue
		}
		fa := m.Descriptor().Fields().ByName(protoreflect.Name(strings.TrimPrefix(parts[0], "this.")))
		fb := m.Descriptor().Fields().ByName(protoreflect.Name(strings.TrimPrefix(parts[2], "this.")))
		if fa == nil || fb == nil || fa.Kind() != fb.Kind() || fa.Cardinality() == protoreflect.Repeated || fb.Cardinality() == protoreflect.Repeated {
			continue
		}
		cmp := 0
		switch fa.Kind() {
		case protoreflect.Int32Kind, protoreflect.Sint32Kind, protoreflect.Sfixed32Kind, protoreflect.Int64Kind, protoreflect.Sint64Kind, protoreflect.Sfixed64Kind:
			a, b := m.Get(fa).Int(), m.Get(fb).Int()
			switch {
			case a < b:
				cmp = -1
			case a > b:
				cmp = 1
			}
		case protoreflect.Uint32Kind, protoreflect.Fixed32Kind, protoreflect.Uint64Kind, protoreflect.Fixed64Kind:
			a, b := m.Get(fa).Uint(), m.Get(fb).Uint()
			switch {
			case a < b:
				cmp = -1
			case a > b:
				cmp = 1
			}
		default:
			continue
		}
		holds := true
		switch parts[1] {
		case "<=":
			holds = cmp <= 0
		case ">=":
			holds = cmp >= 0
		case "<":
			holds = cmp < 0
		case ">":
			holds = cmp > 0
		case "==":
			holds = cmp == 0
		case "!=":
			holds = cmp != 0
		default:
			continue
		}
		if holds {
			continue
		}
		v := &Violation{Proto: &validate.Violation{RuleId: proto.String(r.GetId()), Message: proto.String(r.GetMessage())}}
		if len(path) > 0 {
			p := make([]*validate.FieldPathElement, len(path))
			copy(p, path)
			v.Proto.Field = &validate.FieldPath{Elements: p}
		}
		*vs = append(*vs, v)
	}
}

func checkField(m protoreflect.Message, fd protoreflect.FieldDescriptor, fr *validate.FieldRules, path []*validate.FieldPathElement, vs *[]*Violation) {
	v := m.Get(fd)
	switch {
	case fd.IsMap():
		mr := fr.GetMap()
		if mr == nil {
			return
		}
		n := uint64(v.Map().Len())
		if mr.MinPairs != nil && n < mr.GetMinPairs() {
			add(vs, path, fd, "map.min_pairs", fmt.Sprintf("map must be at least %d entries", mr.GetMinPairs()))
		}
		if mr.MaxPairs != nil && n > mr.GetMaxPairs() {
			add(vs, path, fd, "map.max_pairs", fmt.Sprintf("map must be at most %d entries", mr.GetMaxPairs()))
		}
	case fd.IsList():
		rr := fr.GetRepeated()
		if rr == nil {
			return
		}
		l := v.List()
		n := uint64(l.Len())
		if rr.MinItems != nil && n < rr.GetMinItems() {
			add(vs, path, fd, "repeated.min_items", fmt.Sprintf("value must contain at least %d item(s)", rr.GetMinItems()))
		}
		if rr.MaxItems != nil && n > rr.GetMaxItems() {
			add(vs, path, fd, "repeated.max_items", fmt.Sprintf("value must contain no more than %d item(s)", rr.GetMaxItems()))
		}
		if rr.GetUnique() {
			seen := map[any]bool{}
			for i := 0; i < l.Len(); i++ {
				var k any = l.Get(i).Interface()
				if b, ok := k.([]byte); ok {
					k = string(b)
				}
				if f, ok := k.(float64); ok && math.IsNaN(f) {
					continue
				}
				if f, ok := k.(float32); ok && f != f {
					continue
				}
				if _, isMsg := k.(protoreflect.Message); isMsg {
					break
				}
				if seen[k] {
					add(vs, path, fd, "repeated.unique", "repeated value must contain unique items")
					break
				}
				seen[k] = true
			}
		}
	default:
		checkScalar(fd, v, fr, path, vs)
	}
}

func checkScalar(fd protoreflect.FieldDescriptor, v protoreflect.Value, fr *validate.FieldRules, path []*validate.FieldPathElement, vs *[]*Violation) {
	switch fd.Kind() {
	case protoreflect.StringKind:
		sr := fr.GetString()
		if sr == nil {
			return
		}
		checkString(fd, v.String(), sr, path, vs)
	case protoreflect.BoolKind:
		if br := fr.GetBool(); br != nil && br.Const != nil && v.Bool() != br.GetConst() {
			add(vs, path, fd, "bool.const", fmt.Sprintf("value must equal %t", br.GetConst()))
		}
	case protoreflect.EnumKind:
		er := fr.GetEnum()
		if er == nil {
			return
		}
		n := int32(v.Enum())
		if er.GetDefinedOnly() && fd.Enum().Values().ByNumber(protoreflect.EnumNumber(n)) == nil {
			add(vs, path, fd, "enum.defined_only", "value must be one of the defined enum values")
		}
		if len(er.GetIn()) > 0 {
			ok := false
			for _, x := range er.GetIn() {
				if x == n {
					ok = true
				}
			}
			if !ok {
				add(vs, path, fd, "enum.in", "value must be in list")
			}
		}
	case protoreflect.Int32Kind:
		if r := fr.GetInt32(); r != nil {
			var gt, gte, lt, lte *float64
			if x, ok := r.GetGreaterThan().(*validate.Int32Rules_Gt); ok {
				gt = f64(float64(x.Gt))
			}
			if x, ok := r.GetGreaterThan().(*validate.Int32Rules_Gte); ok {
				gte = f64(float64(x.Gte))
			}
			if x, ok := r.GetLessThan().(*validate.Int32Rules_Lt); ok {
				lt = f64(float64(x.Lt))
			}
			if x, ok := r.GetLessThan().(*validate.Int32Rules_Lte); ok {
				lte = f64(float64(x.Lte))
			}
			numI(fd, "int32", v.Int(), gt, gte, lt, lte, i32s(r.GetIn()), i32s(r.GetNotIn()), i32p(r.Const), path, vs)
		}
	case protoreflect.Sint32Kind:
		if r := fr.GetSint32(); r != nil {
			var gt, gte, lt, lte *float64
			if x, ok := r.GetGreaterThan().(*validate.SInt32Rules_Gt); ok {
				gt = f64(float64(x.Gt))
			}
			if x, ok := r.GetGreaterThan().(*validate.SInt32Rules_Gte); ok {
				gte = f64(float64(x.Gte))
			}
			if x, ok := r.GetLessThan().(*validate.SInt32Rules_Lt); ok {
				lt = f64(float64(x.Lt))
			}
			if x, ok := r.GetLessThan().(*validate.SInt32Rules_Lte); ok {
				lte = f64(float64(x.Lte))
			}
			numI(fd, "sint32", v.Int(), gt, gte, lt, lte, i32s(r.GetIn()), i32s(r.GetNotIn()), i32p(r.Const), path, vs)
		}
	case protoreflect.Sfixed32Kind:
		if r := fr.GetSfixed32(); r != nil {
			var gt, gte, lt, lte *float64
			if x, ok := r.GetGreaterThan().(*validate.SFixed32Rules_Gt); ok {
				gt = f64(float64(x.Gt))
			}
			if x, ok := r.GetGreaterThan().(*validate.SFixed32Rules_Gte); ok {
				gte = f64(float64(x.Gte))
			}
			if x, ok := r.GetLessThan().(*validate.SFixed32Rules_Lt); ok {
				lt = f64(float64(x.Lt))
			}
			if x, ok := r.GetLessThan().(*validate.SFixed32Rules_Lte); ok {
				lte = f64(float64(x.Lte))
			}
			numI(fd, "sfixed32", v.Int(), gt, gte, lt, lte, i32s(r.GetIn()), i32s(r.GetNotIn()), i32p(r.Const), path, vs)
		}
	case protoreflect.Int64Kind:
		if r := fr.GetInt64(); r != nil {
			var b bounds64
			if x, ok := r.GetGreaterThan().(*validate.Int64Rules_Gt); ok {
				b.gt = &x.Gt
			}
			if x, ok := r.GetGreaterThan().(*validate.Int64Rules_Gte); ok {
				b.gte = &x.Gte
			}
			if x, ok := r.GetLessThan().(*validate.Int64Rules_Lt); ok {
				b.lt = &x.Lt
			}
			if x, ok := r.GetLessThan().(*validate.Int64Rules_Lte); ok {
				b.lte = &x.Lte
			}
			numI64(fd, "int64", v.Int(), b, r.GetIn(), r.GetNotIn(), r.Const, path, vs)
		}
	case protoreflect.Sint64Kind:
		if r := fr.GetSint64(); r != nil {
			var b bounds64
			if x, ok := r.GetGreaterThan().(*validate.SInt64Rules_Gt); ok {
				b.gt = &x.Gt
			}
			if x, ok := r.GetGreaterThan().(*validate.SInt64Rules_Gte); ok {
				b.gte = &x.Gte
			}
			if x, ok := r.GetLessThan().(*validate.SInt64Rules_Lt); ok {
				b.lt = &x.Lt
			}
			if x, ok := r.GetLessThan().(*validate.SInt64Rules_Lte); ok {
				b.lte = &x.Lte
			}
			numI64(fd, "sint64", v.Int(), b, r.GetIn(), r.GetNotIn(), r.Const, path, vs)
		}
	case protoreflect.Sfixed64Kind:
		if r := fr.GetSfixed64(); r != nil {
			var b bounds64
			if x, ok := r.GetGreaterThan().(*validate.SFixed64Rules_Gt); ok {
				b.gt = &x.Gt
			}
			if x, ok := r.GetGreaterThan().(*validate.SFixed64Rules_Gte); ok {
				b.gte = &x.Gte
			}
			if x, ok := r.GetLessThan().(*validate.SFixed64Rules_Lt); ok {
				b.lt = &x.Lt
			}
			if x, ok := r.GetLessThan().(*validate.SFixed64Rules_Lte); ok {
				b.lte = &x.Lte
			}
			numI64(fd, "sfixed64", v.Int(), b, r.GetIn(), r.GetNotIn(), r.Const, path, vs)
		}
	case protoreflect.Uint32Kind:
		if r := fr.GetUint32(); r != nil {
			var b boundsU64
			if x, ok := r.GetGreaterThan().(*validate.UInt32Rules_Gt); ok {
				b.gt = u64(uint64(x.Gt))
			}
			if x, ok := r.GetGreaterThan().(*validate.UInt32Rules_Gte); ok {
				b.gte = u64(uint64(x.Gte))
			}
			if x, ok := r.GetLessThan().(*validate.UInt32Rules_Lt); ok {
				b.lt = u64(uint64(x.Lt))
			}
			if x, ok := r.GetLessThan().(*validate.UInt32Rules_Lte); ok {
				b.lte = u64(uint64(x.Lte))
			}
			numU64(fd, "uint32", v.Uint(), b, u32s(r.GetIn()), u32s(r.GetNotIn()), u32p(r.Const), path, vs)
		}
	case protoreflect.Fixed32Kind:
		if r := fr.GetFixed32(); r != nil {
			var b boundsU64
			if x, ok := r.GetGreaterThan().(*validate.Fixed32Rules_Gt); ok {
				b.gt = u64(uint64(x.Gt))
			}
			if x, ok := r.GetGreaterThan().(*validate.Fixed32Rules_Gte); ok {
				b.gte = u64(uint64(x.Gte))
			}
			if x, ok := r.GetLessThan().(*validate.Fixed32Rules_Lt); ok {
				b.lt = u64(uint64(x.Lt))
			}
			if x, ok := r.GetLessThan().(*validate.Fixed32Rules_Lte); ok {
				b.lte = u64(uint64(x.Lte))
			}
			numU64(fd, "fixed32", v.Uint(), b, u32s(r.GetIn()), u32s(r.GetNotIn()), u32p(r.Const), path, vs)
		}
	case protoreflect.Uint64Kind:
		if r := fr.GetUint64(); r != nil {
			var b boundsU64
			if x, ok := r.GetGreaterThan().(*validate.UInt64Rules_Gt); ok {
				b.gt = &x.Gt
			}
			if x, ok := r.GetGreaterThan().(*validate.UInt64Rules_Gte); ok {
				b.gte = &x.Gte
			}
			if x, ok := r.GetLessThan().(*validate.UInt64Rules_Lt); ok {
				b.lt = &x.Lt
			}
			if x, ok := r.GetLessThan().(*validate.UInt64Rules_Lte); ok {
				b.lte = &x.Lte
			}
			numU64(fd, "uint64", v.Uint(), b, r.GetIn(), r.GetNotIn(), r.Const, path, vs)
		}
	case protoreflect.Fixed64Kind:
		if r := fr.GetFixed64(); r != nil {
			var b boundsU64
			if x, ok := r.GetGreaterThan().(*validate.Fixed64Rules_Gt); ok {
				b.gt = &x.Gt
			}
			if x, ok := r.GetGreaterThan().(*validate.Fixed64Rules_Gte); ok {
				b.gte = &x.Gte
			}
			if x, ok := r.GetLessThan().(*validate.Fixed64Rules_Lt); ok {
				b.lt = &x.Lt
			}
			if x, ok := r.GetLessThan().(*validate.Fixed64Rules_Lte); ok {
				b.lte = &x.Lte
			}
			numU64(fd, "fixed64", v.Uint(), b, r.GetIn(), r.GetNotIn(), r.Const, path, vs)
		}
	case protoreflect.FloatKind:
		if r := fr.GetFloat(); r != nil {
			var gt, gte, lt, lte *float64
			if x, ok := r.GetGreaterThan().(*validate.FloatRules_Gt); ok {
				gt = f64(float64(x.Gt))
			}
			if x, ok := r.GetGreaterThan().(*validate.FloatRules_Gte); ok {
				gte = f64(float64(x.Gte))
			}
			if x, ok := r.GetLessThan().(*validate.FloatRules_Lt); ok {
				lt = f64(float64(x.Lt))
			}
			if x, ok := r.GetLessThan().(*validate.FloatRules_Lte); ok {
				lte = f64(float64(x.Lte))
			}
			var in, notIn []float64
			for _, x := range r.GetIn() {
				in = append(in, float64(x))
			}
			for _, x := range r.GetNotIn() {
				notIn = append(notIn, float64(x))
			}
			var c *float64
			if r.Const != nil {
				c = f64(float64(r.GetConst()))
			}
			numF(fd, "float", v.Float(), gt, gte, lt, lte, in, notIn, c, path, vs)
		}
	case protoreflect.DoubleKind:
		if r := fr.GetDouble(); r != nil {
			var gt, gte, lt, lte *float64
			if x, ok := r.GetGreaterThan().(*validate.DoubleRules_Gt); ok {
				gt = &x.Gt
			}
			if x, ok := r.GetGreaterThan().(*validate.DoubleRules_Gte); ok {
				gte = &x.Gte
			}
			if x, ok := r.GetLessThan().(*validate.DoubleRules_Lt); ok {
				lt = &x.Lt
			}
			if x, ok := r.GetLessThan().(*validate.DoubleRules_Lte); ok {
				lte = &x.Lte
			}
			numF(fd, "double", v.Float(), gt, gte, lt, lte, r.GetIn(), r.GetNotIn(), r.Const, path, vs)
		}
	}
}

func f64(v float64) *float64 { return &v }
func u64(v uint64) *uint64   { return &v }
func i32s(xs []int32) []int64 {
	var out []int64
	for _, x := range xs {
		out = append(out, int64(x))
	}
	return out
}
func i32p(p *int32) *int64 {
	if p == nil {
		return nil
	}
	v := int64(*p)
	return &v
}
func u32s(xs []uint32) []uint64 {
	var out []uint64
	for _, x := range xs {
		out = append(out, uint64(x))
	}
	return out
}
func u32p(p *uint32) *uint64 {
	if p == nil {
		return nil
	}
	v := uint64(*p)
	return &v
}

type bounds64 struct{ gt, gte, lt, lte *int64 }
type boundsU64 struct{ gt, gte, lt, lte *uint64 }

// range semantics as protovalidate: when both a lower and an upper bound are given and
// lower >= upper the range is exclusive ("outside"); otherwise inclusive ("between").
func numI(fd protoreflect.FieldDescriptor, kind string, v int64, gt, gte, lt, lte *float64, in, notIn []int64, c *int64, path []*validate.FieldPathElement, vs *[]*Violation) {
	var b bounds64
	conv := func(p *float64) *int64 {
		if p == nil {
			return nil
		}
		x := int64(*p)
		return &x
	}
	b.gt, b.gte, b.lt, b.lte = conv(gt), conv(gte), conv(lt), conv(lte)
	numI64(fd, kind, v, b, in, notIn, c, path, vs)
}

func numI64(fd protoreflect.FieldDescriptor, kind string, v int64, b bounds64, in, notIn []int64, c *int64, path []*validate.FieldPathElement, vs *[]*Violation) {
	lowOK := func() bool {
		if b.gt != nil {
			return v > *b.gt
		}
		if b.gte != nil {
			return v >= *b.gte
		}
		return true
	}
	highOK := func() bool {
		if b.lt != nil {
			return v < *b.lt
		}
		if b.lte != nil {
			return v <= *b.lte
		}
		return true
	}
	var lo, hi *int64
	if b.gt != nil {
		lo = b.gt
	} else {
		lo = b.gte
	}
	if b.lt != nil {
		hi = b.lt
	} else {
		hi = b.lte
	}
	rangeCheck(fd, kind, lo != nil, hi != nil, lo != nil && hi != nil && *lo >= *hi && !(b.gte != nil && b.lte != nil && *lo == *hi), lowOK(), highOK(), b.gt != nil, b.lt != nil, path, vs)
	if c != nil && v != *c {
		add(vs, path, fd, kind+".const", fmt.Sprintf("value must equal %d", *c))
	}
	if len(in) > 0 && !containsI(in, v) {
		add(vs, path, fd, kind+".in", "value must be in list")
	}
	if containsI(notIn, v) {
		add(vs, path, fd, kind+".not_in", "value must not be in list")
	}
}

func numU64(fd protoreflect.FieldDescriptor, kind string, v uint64, b boundsU64, in, notIn []uint64, c *uint64, path []*validate.FieldPathElement, vs *[]*Violation) {
	lowOK := func() bool {
		if b.gt != nil {
			return v > *b.gt
		}
		if b.gte != nil {
			return v >= *b.gte
		}
		return true
	}
	highOK := func() bool {
		if b.lt != nil {
			return v < *b.lt
		}
		if b.lte != nil {
			return v <= *b.lte
		}
		return true
	}
	var lo, hi *uint64
	if b.gt != nil {
		lo = b.gt
	} else {
		lo = b.gte
	}
	if b.lt != nil {
		hi = b.lt
	} else {
		hi = b.lte
	}
	rangeCheck(fd, kind, lo != nil, hi != nil, lo != nil && hi != nil && *lo >= *hi && !(b.gte != nil && b.lte != nil && *lo == *hi), lowOK(), highOK(), b.gt != nil, b.lt != nil, path, vs)
	if c != nil && v != *c {
		add(vs, path, fd, kind+".const", fmt.Sprintf("value must equal %d", *c))
	}
	if len(in) > 0 && !containsU(in, v) {
		add(vs, path, fd, kind+".in", "value must be in list")
	}
	if containsU(notIn, v) {
		add(vs, path, fd, kind+".not_in", "value must not be in list")
	}
}

func numF(fd protoreflect.FieldDescriptor, kind string, v float64, gt, gte, lt, lte *float64, in, notIn []float64, c *float64, path []*validate.FieldPathElement, vs *[]*Violation) {
	lowOK := func() bool {
		if gt != nil {
			return v > *gt
		}
		if gte != nil {
			return v >= *gte
		}
		return true
	}
	highOK := func() bool {
		if lt != nil {
			return v < *lt
		}
		if lte != nil {
			return v <= *lte
		}
		return true
	}
	var lo, hi *float64
	if gt != nil {
		lo = gt
	} else {
		lo = gte
	}
	if lt != nil {
		hi = lt
	} else {
		hi = lte
	}
	if math.IsNaN(v) && (lo != nil || hi != nil) {
		add(vs, path, fd, kind+".range", "value must satisfy range")
	} else {
		rangeCheck(fd, kind, lo != nil, hi != nil, lo != nil && hi != nil && *lo >= *hi && !(gte != nil && lte != nil && *lo == *hi), lowOK(), highOK(), gt != nil, lt != nil, path, vs)
	}
	if c != nil && v != *c {
		add(vs, path, fd, kind+".const", fmt.Sprintf("value must equal %v", *c))
	}
	if len(in) > 0 {
		ok := false
		for _, x := range in {
			if x == v {
				ok = true
			}
		}
		if !ok {
			add(vs, path, fd, kind+".in", "value must be in list")
		}
	}
	for _, x := range notIn {
		if x == v {
			add(vs, path, fd, kind+".not_in", "value must not be in list")
		}
	}
}

func rangeCheck(fd protoreflect.FieldDescriptor, kind string, hasLo, hasHi, exclusive, lowOK, highOK, isGt, isLt bool, path []*validate.FieldPathElement, vs *[]*Violation) {
	loName, hiName := "gte", "lte"
	if isGt {
		loName = "gt"
	}
	if isLt {
		hiName = "lt"
	}
	switch {
	case hasLo && hasHi && exclusive:
		if !lowOK && !highOK {
			add(vs, path, fd, kind+"."+loName+"_"+hiName+"_exclusive", "value must be outside the range")
		}
	case hasLo && hasHi:
		if !lowOK || !highOK {
			add(vs, path, fd, kind+"."+loName+"_"+hiName, "value must be inside the range")
		}
	case hasLo:
		if !lowOK {
			add(vs, path, fd, kind+"."+loName, "value must satisfy lower bound")
		}
	case hasHi:
		if !highOK {
			add(vs, path, fd, kind+"."+hiName, "value must satisfy upper bound")
		}
	}
}

func containsI(xs []int64, v int64) bool {
	for _, x := range xs {
		if x == v {
			return true
		}
	}
	return false
}
func containsU(xs []uint64, v uint64) bool {
	for _, x := range xs {
		if x == v {
			return true
		}
	}
	return false
}

var uuidRe = regexp.MustCompile(`^[0-9a-fA-F]{8}-[0-9a-fA-F]{4}-[0-9a-fA-F]{4}-[0-9a-fA-F]{4}-[0-9a-fA-F]{12}$`)
var hostLabelRe = regexp.MustCompile(`^[A-Za-z0-9]([A-Za-z0-9-]{0,61}[A-Za-z0-9])?$`)

func isHostname(s string) bool {
	if len(s) == 0 || len(s) > 253 {
		return false
	}
	s = strings.TrimSuffix(s, ".")
	parts := strings.Split(s, ".")
	allDigits := true
	for _, p := range parts {
		if !hostLabelRe.MatchString(p) {
			return false
		}
	}
	for _, r := range parts[len(parts)-1] {
		if r < '0' || r > '9' {
			allDigits = false
		}
	}
	return !allDigits
}

func checkString(fd protoreflect.FieldDescriptor, s string, sr *validate.StringRules, path []*validate.FieldPathElement, vs *[]*Violation) {
	n := uint64(utf8.RuneCountInString(s))
	if sr.Const != nil && s != sr.GetConst() {
		add(vs, path, fd, "string.const", fmt.Sprintf("value must equal `%s`", sr.GetConst()))
	}
	if sr.Len != nil && n != sr.GetLen() {
		add(vs, path, fd, "string.len", fmt.Sprintf("value length must be %d characters", sr.GetLen()))
	}
	if sr.MinLen != nil && n < sr.GetMinLen() {
		add(vs, path, fd, "string.min_len", fmt.Sprintf("value length must be at least %d characters", sr.GetMinLen()))
	}
	if sr.MaxLen != nil && n > sr.GetMaxLen() {
		add(vs, path, fd, "string.max_len", fmt.Sprintf("value length must be at most %d characters", sr.GetMaxLen()))
	}
	if sr.Pattern != nil {
		if re, err := regexp.Compile(sr.GetPattern()); err == nil && !re.MatchString(s) {
			add(vs, path, fd, "string.pattern", fmt.Sprintf("value does not match regex pattern `%s`", sr.GetPattern()))
		}
	}
	if len(sr.GetIn()) > 0 {
		ok := false
		for _, x := range sr.GetIn() {
			if x == s {
				ok = true
			}
		}
		if !ok {
			add(vs, path, fd, "string.in", "value must be in list")
		}
	}
	for _, x := range sr.GetNotIn() {
		if x == s {
			add(vs, path, fd, "string.not_in", "value must not be in list")
		}
	}
	switch sr.GetWellKnown().(type) {
	case *validate.StringRules_Email:
		if sr.GetEmail() {
			a, err := mail.ParseAddress(s)
			if err != nil || a.Address != s || strings.ContainsAny(s, " <>") {
				add(vs, path, fd, "string.email", "value must be a valid email address")
			}
		}
	case *validate.StringRules_Uuid:
		if sr.GetUuid() && !uuidRe.MatchString(s) {
			add(vs, path, fd, "string.uuid", "value must be a valid UUID")
		}
	case *validate.StringRules_Uri:
		if sr.GetUri() {
			u, err := url.Parse(s)
			if err != nil || u.Scheme == "" {
				add(vs, path, fd, "string.uri", "value must be a valid URI")
			}
		}
	case *validate.StringRules_Hostname:
		if sr.GetHostname() && !isHostname(s) {
			add(vs, path, fd, "string.hostname", "value must be a valid hostname")
		}
	case *validate.StringRules_Ip:
		if sr.GetIp() && net.ParseIP(s) == nil {
			add(vs, path, fd, "string.ip", "value must be a valid IP address")
		}
	case *validate.StringRules_Ipv4:
		if sr.GetIpv4() {
			if ip := net.ParseIP(s); ip == nil || ip.To4() == nil || strings.Contains(s, ":") {
				add(vs, path, fd, "string.ipv4", "value must be a valid IPv4 address")
			}
		}
	case *validate.StringRules_Ipv6:
		if sr.GetIpv6() {
			if ip := net.ParseIP(s); ip == nil || !strings.Contains(s, ":") {
				add(vs, path, fd, "string.ipv6", "value must be a valid IPv6 address")
			}
		}
	case *validate.StringRules_Address:
		if sr.GetAddress() && net.ParseIP(s) == nil && !isHostname(s) {
			add(vs, path, fd, "string.address", "value must be a valid hostname, or ip address")
		}
	}
}

#!/usr/bin/env python3
"""JSON Schema 2020-12 oracle. Reads one JSON command per line, answers one JSON line.

 {"op":"load","doc":"<id>","document":{...}}             register an OpenAPI document
 {"op":"validate","doc":"<id>","ptr":"#/components/schemas/X","instance":...}
 {"op":"validate","doc":"<id>","schema":{...},"instance":...}   (schema may $ref into the document)
 {"op":"check_schema","doc":"<id>","ptr":...}              is the schema itself well-formed
"""
import json
import sys

from jsonschema import Draft202012Validator
from jsonschema.exceptions import SchemaError
from referencing import Registry, Resource
from referencing.jsonschema import DRAFT202012

docs = {}


def registry_for(doc_id):
    doc = docs[doc_id]
    res = Resource.from_contents(doc, default_specification=DRAFT202012)
    return Registry().with_resource("urn:doc:" + doc_id, res)


def schema_for(cmd):
    doc_id = cmd["doc"]
    if "ptr" in cmd:
        return {"$ref": "urn:doc:" + doc_id + cmd["ptr"]}
    return rebase(cmd["schema"], doc_id)


def rebase(node, doc_id):
    """Rewrite local refs (#/...) so that they resolve inside the registered document."""
    if isinstance(node, dict):
        out = {}
        for k, v in node.items():
            if k == "$ref" and isinstance(v, str) and v.startswith("#/"):
                out[k] = "urn:doc:" + doc_id + v
            else:
                out[k] = rebase(v, doc_id)
        return out
    if isinstance(node, list):
        return [rebase(x, doc_id) for x in node]
    return node


def handle(cmd):
    op = cmd.get("op")
    if op == "ping":
        return {"ok": True}
    if op == "load":
        docs[cmd["doc"]] = cmd["document"]
        return {"ok": True}
    if op == "unload":
        docs.pop(cmd["doc"], None)
        return {"ok": True}
    if op == "validate":
        schema = schema_for(cmd)
        v = Draft202012Validator(schema, registry=registry_for(cmd["doc"]))
        errs = []
        for e in v.iter_errors(cmd["instance"]):
            errs.append({"path": "/".join(str(p) for p in e.absolute_path), "message": e.message[:300],
                         "validator": e.validator, "schema_path": "/".join(str(p) for p in e.absolute_schema_path)[:200]})
            if len(errs) >= 5:
                break
        return {"ok": True, "valid": not errs, "errors": errs}
    if op == "check_schema":
        doc = docs[cmd["doc"]]
        node = doc
        for part in cmd["ptr"].lstrip("#/").split("/"):
            node = node[part.replace("~1", "/").replace("~0", "~")]
        try:
            Draft202012Validator.check_schema(node)
            return {"ok": True, "valid": True}
        except SchemaError as e:
            return {"ok": True, "valid": False, "errors": [{"message": str(e.message)[:300]}]}
    return {"ok": False, "error": "unknown op"}


for line in sys.stdin:
    line = line.strip()
    if not line:
        continue
    try:
        cmd = json.loads(line)
        res = handle(cmd)
        res["id"] = cmd.get("id")
    except Exception as e:  # noqa: BLE001 - reported to the caller
        res = {"ok": False, "error": repr(e)[:500], "id": None}
    sys.stdout.write(json.dumps(res) + "\n")
    sys.stdout.flush()

#!/bin/bash
# seedtest.sh <SEED-ID> <tier> <check>... : runs checks against a scratch worktree of /repo carrying
# /verif/seeded/<SEED-ID>/patch.diff (VERIF_REPO), from a private copy of /verif so that evidence/out
# of the real tree are untouched. /repo itself is never modified. Prints one line per check.
set -u
sid=$1; tier=$2; shift 2
patch=/verif/seeded/$sid/patch.diff
wt=/tmp/seedwt/$sid
run=/tmp/seedrun/$sid
rm -rf "$run"; git -C /repo worktree remove --force "$wt" 2>/dev/null; rm -rf "$wt"
mkdir -p /tmp/seedwt /tmp/seedrun
git -C /repo worktree add --detach "$wt" HEAD >/dev/null 2>&1 || { echo "worktree failed"; exit 2; }
git -C "$wt" apply "$patch" || { echo "patch does not apply"; exit 2; }
mkdir -p "$run"
rsync -a --exclude .git --exclude out --exclude harness/scratch --exclude .cache /verif/ "$run/verif/"
cd "$run/verif"
# a throw-away hard-link clone of the shared Go build cache: building the harness from this private copy (another
# directory, hence other cache keys) must not grow the shared cache (it once reached 77 GB over 300 such runs)
shared=$(GOPROXY=off GONOSUMDB='*' GOFLAGS=-mod=mod GOTOOLCHAIN=auto GOWORK=off go env GOCACHE 2>/dev/null)
if [ -n "$shared" ] && [ -d "$shared" ] && cp -al "$shared" "$run/gocache" 2>/dev/null; then export GOCACHE="$run/gocache"; fi
for id in "$@"; do
  start=$(date +%s)
  VERIF_REPO=$wt VERIF_SEED=${VERIF_SEED:-1} ./run $id $tier > "$run/$id.log" 2>&1
  rc=$?
  echo "seeded=$sid check=$id rc=$rc secs=$(( $(date +%s)-start )) $(grep -a '^VIOLATION' "$run/$id.log" | head -2 | tr '\n' ' ')"
done
rm -rf "$run/gocache"
git -C /repo worktree remove --force "$wt"; rm -rf "$wt"

#!/bin/bash
# seedverify.sh <ID> <agent-worktree>: confirms a seeded change in a fresh scratch worktree:
# patch applies, tree builds, pinned suite still passes, demo fails with / passes without the patch.
set -u
id=$1; src=$2/SEED
wt=/tmp/seedwt/verify-$id
git -C /repo worktree remove --force "$wt" 2>/dev/null; rm -rf "$wt"; mkdir -p /tmp/seedwt
git -C /repo worktree add --detach "$wt" HEAD >/dev/null 2>&1 || exit 2
export GOPROXY=off GONOSUMDB='*' GOFLAGS=-mod=readonly
# throw-away hard-link clone of the shared Go build cache (demos and test binaries of scratch worktrees must not pile up in it)
shared=$(go env GOCACHE 2>/dev/null); gc=/tmp/seedwt/gocache-$id; rm -rf "$gc"
if [ -n "$shared" ] && [ -d "$shared" ] && cp -al "$shared" "$gc" 2>/dev/null; then export GOCACHE="$gc"; fi
echo "== demo on clean tree"; (bash "$src/demo/run.sh" "$wt" >/tmp/seedwt/$id.clean.log 2>&1; echo "rc=$?")
git -C "$wt" status --porcelain | head -3
git -C "$wt" apply "$src/patch.diff" || { echo "PATCH DOES NOT APPLY"; exit 1; }
echo "== files: $(git -C "$wt" diff --stat | tail -1)"
echo "== build"; (cd "$wt" && go build ./... 2>&1 | tail -3; echo "rc=${PIPESTATUS[0]}")
echo "== baseline"; REPO=$wt /verif/tools/baseline_check.sh 2>&1 | tail -2
echo "== demo on patched tree"; (bash "$src/demo/run.sh" "$wt" >/tmp/seedwt/$id.patched.log 2>&1; echo "rc=$?")
git -C /repo worktree remove --force "$wt"; rm -rf "$wt" "$gc"

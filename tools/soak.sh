#!/bin/bash
# soak.sh <tier> <seed>... : runs every claimed check at each seed, prints one line per run.
cd "$(dirname "$0")/.."
tier=$1; shift
for seed in "$@"; do
  for id in $(python3 -c "import json;print(' '.join(c['property_id'] for c in json.load(open('MANIFEST.json'))['checks']))"); do
    start=$(date +%s)
    VERIF_SEED=$seed ./run $id $tier > /tmp/soak_${id}_${seed}.log 2>&1
    rc=$?
    echo "seed=$seed $id rc=$rc secs=$(( $(date +%s)-start )) $(grep -c '^KNOWN-FINDING' /tmp/soak_${id}_${seed}.log) known $(grep '^VIOLATION' /tmp/soak_${id}_${seed}.log | head -3 | tr '\n' ' ')"
    if [ $rc -ne 0 ]; then tail -5 /tmp/soak_${id}_${seed}.log | cut -c1-300; fi
  done
done

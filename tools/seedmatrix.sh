#!/bin/bash
# seedmatrix.sh <parallel> [pattern]: seeded changes matching pattern x every check (quick, VERIF_SEED=1); results in /tmp/seedmatrix/<seed>.txt
mkdir -p /tmp/seedmatrix
checks=$(python3 -c "import json;print(' '.join(c['property_id'] for c in json.load(open('/verif/MANIFEST.json'))['checks']))")
ls /verif/seeded | grep -E "${2:-^C[0-9]+b?$}" | xargs -P ${1:-2} -I{} sh -c "/verif/tools/seedtest.sh {} quick $checks > /tmp/seedmatrix/{}.txt 2>&1"

#!/bin/bash
cd "$(dirname "$0")/.."
./tools/soak.sh quick 2 3 5
./tools/soak.sh thorough 1

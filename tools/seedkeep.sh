#!/bin/bash
# seedkeep.sh <ID> [name]: verify the agent's deliverable in a fresh worktree and, when confirmed, keep it as /verif/seeded/<name>/.
set -u
id=$1; name=${2:-$id}; src=${3:-/tmp/seed}/$id
out=$(/verif/tools/seedverify.sh $id $src 2>&1)
echo "$out" | tail -12
clean=$(echo "$out" | awk '/demo on clean tree/{getline; print}')
patched=$(echo "$out" | awk '/demo on patched tree/{getline; print}')
base=$(echo "$out" | grep -c '373/373')
build=$(echo "$out" | awk '/== build/{getline; print}')
if [ "$clean" = "rc=0" ] && [ "$patched" != "rc=0" ] && [ "$base" = 1 ] && [ "$build" = "rc=0" ]; then
  dst=/verif/seeded/$name; rm -rf $dst; mkdir -p $dst
  cp $src/SEED/patch.diff $dst/; cp -r $src/SEED/demo $dst/demo
  python3 - "$src/SEED/meta.json" "$dst/meta.json" "$name" <<'PY'
import json,sys
try: m=json.load(open(sys.argv[1]))
except Exception as e: m={"agent_meta_unreadable":str(e)}
m={"property":m.get("property"),"seed_id":sys.argv[3],"what_it_needs_to_manifest":m.get("needs_to_manifest"),"summary":m.get("summary"),"observable_effect":m.get("observable_effect"),"files_changed":m.get("files_changed"),
   "agent_verified":m.get("verified"),
   "confirmed_by_me":"tools/seedverify.sh in a fresh scratch worktree of /repo HEAD: demo/run.sh exits 0 on the clean tree; patch.diff applies; `go build ./...` succeeds; all 373 stable_pass tests of /root/.vp/BASELINE.json still pass (tools/baseline_check.sh with REPO=<worktree>); demo/run.sh exits non-zero on the patched tree. Worktree removed afterwards.",
   "checks_run":[]}
json.dump(m,open(sys.argv[2],'w'),indent=1)
PY
  find $dst/demo -type f -size +500k -print
  echo "KEPT $dst"
else
  echo "NOT CONFIRMED: clean=$clean patched=$patched base=$base build=$build"
fi

#!/usr/bin/env python3
import json,glob,re,sys
prop=sys.argv[1]
n=int(sys.argv[2]) if len(sys.argv)>2 else 900
seen={}
for f in sorted(glob.glob(f'/verif/out/{prop}/*.json')):
    d=json.load(open(f))
    msg=d.get('observed','')
    m=re.search(r'(?:failed|panic) after \d+ tests: (.*?)(\nTo reproduce|$)',msg,re.S)
    first=(m.group(1) if m else msg)[:n]
    key=re.sub(r'[0-9]+','N',first.split('\n')[0])[:160]
    seen.setdefault(key,[]).append((f,first,d))
for k,v in sorted(seen.items(), key=lambda kv:-len(kv[1])):
    f,first,d=v[0]
    print('=====',len(v),'x',d.get('schema',{}).get('id'),d.get('unit'), f.split('/')[-1])
    print(first)

#!/bin/bash
# Runs the repository's pinned test suite (guard off: no build tags) and checks that every test
# in BASELINE.json's stable_pass list passes. Exit 0 iff they all pass.
set -u
export GOPROXY=off GONOSUMDB='*' GOFLAGS=-mod=readonly GOTOOLCHAIN=auto GOWORK=off
unset GOSUMDB
out=$(mktemp)
( cd "${REPO:-/repo}" && go test -json -vet=off -count=1 -timeout 25m ./... ) > "$out" 2>/dev/null
python3 - "$out" <<'PY'
import json,sys
base=json.load(open('/root/.vp/BASELINE.json'))
want=set(base['stable_pass'])
status={}
for line in open(sys.argv[1]):
    line=line.strip()
    if not line.startswith('{'): continue
    try: ev=json.loads(line)
    except Exception: continue
    if ev.get('Test') and ev.get('Action') in ('pass','fail','skip'):
        status[ev['Package']+'::'+ev['Test']]=ev['Action']
bad=[t for t in sorted(want) if status.get(t)!='pass']
print(f"baseline: {len(want)-len(bad)}/{len(want)} stable_pass tests pass")
for t in bad[:40]: print("  NOT PASSING:",t,status.get(t))
sys.exit(1 if bad else 0)
PY
rc=$?
rm -f "$out"
exit $rc

#!/usr/bin/env python3
"""Renders DESIGN.md §11 from known_findings.jsonl (between the FINDINGS markers)."""
import json
kf=[json.loads(l) for l in open('/verif/known_findings.jsonl') if l.strip()]
fixed=[f for f in kf if f['status']=='fixed']
opn=[f for f in kf if f['status']=='open']
out=[]
out.append(f"{len(fixed)} defects were repaired in `/repo` with minimal `fix:` commits (each re-checked by a pinned replay that fails again if the fix is reverted); {len(opn)} are recorded as open findings in `known_findings.jsonl`: their repair is not small (duplicated emitters, a codec architecture in which protojson never calls child `MarshalJSON`, library rendering, contract design) or would change documented behaviour. Every open finding names the generator/oracle avoidance switches it turns on; `coverage.excluded_by_known_finding` in the evidence counts what was not generated because of it.\n")
out.append("### Repaired (`fix:` commits)\n")
out.append("| id | property | commit | what failed | pinned replay |")
out.append("|---|---|---|---|---|")
for f in fixed:
    out.append(f"| {f['id']} | {f['property']} | `{f.get('commit','')}` | {f['what']} | `{f.get('replay','—')}` |")
out.append("\n### Open (known findings)\n")
out.append("| id | property | what fails | avoidance switches (scope) | pinned replay |")
out.append("|---|---|---|---|---|")
for f in opn:
    out.append(f"| {f['id']} | {f['property']} | {f['what']} | {', '.join('`'+a+'`' for a in f.get('avoid',[]))}{' (only in '+' '.join(f['scope'])+')' if f.get('scope') else ''} | `{f.get('replay','—')}` |")
txt='\n'.join(out)+'\n'
p='/verif/DESIGN.md'
s=open(p).read()
a=s.index('<!-- FINDINGS:BEGIN -->')+len('<!-- FINDINGS:BEGIN -->')
b=s.index('<!-- FINDINGS:END -->')
s=s[:a]+'\n'+txt+s[b:]
open(p,'w').write(s)
print(len(fixed),'fixed',len(opn),'open')

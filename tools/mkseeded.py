#!/usr/bin/env python3
"""Renders DESIGN.md section 12 from seeded/*/meta.json, seeded/RESULTS.json and seeded/NOTES.json."""
import json,glob,os
res=json.load(open('/verif/seeded/RESULTS.json'))
notes=json.load(open('/verif/seeded/NOTES.json'))
rows=[]
for d in sorted(glob.glob('/verif/seeded/*/meta.json')):
    sid=os.path.basename(os.path.dirname(d))
    m=json.load(open(d))
    r=res.get(sid,{})
    n=notes.get(sid,{})
    first=n.get('first_run','caught')
    rows.append(f"| `{sid}` | {m.get('property')} | {(m.get('summary') or '').replace('|','/')} | {(m.get('what_it_needs_to_manifest') or '').replace('|','/')[:400]} | {first} | {n.get('strengthened','—')} | {' '.join(r.get('quick_seed1_caught_by',[])) or '—'} |")
    m['checks_run']=n.get('checks_run', f"tools/seedtest.sh {sid} quick <all 20 checks> (scratch worktree + VERIF_REPO); caught by: {' '.join(r.get('quick_seed1_caught_by',[]))}")
    json.dump(m,open(d,'w'),indent=1)
hdr='''Independent sub-agents were given one property's text and a scratch worktree of `/repo` — nothing from
`/verif` — and asked for a small, plausible change that compiles, leaves the pinned suite's results
unchanged, breaks the property and needs something specific to manifest, with a demonstration. Each was
confirmed by `tools/seedverify.sh` in a fresh worktree (demo passes on the clean tree, patch applies, `go
build ./...` succeeds, all 373 `stable_pass` tests pass, demo fails on the patched tree) and kept as
`seeded/<id>/{patch.diff, demo/, meta.json}`. Checks were run against each with `tools/seedtest.sh`
(scratch worktree carrying the patch, `VERIF_REPO`, private copy of `/verif`; `/repo` untouched). "First run"
is the verdict of the property's own quick check as it stood when the change arrived; "strengthened" says
what was changed when it was missed; the last column lists the quick checks (VERIF_SEED=1) that report it after strengthening: for ids without a
suffix every one of the 20 checks was run, for the second wave (suffix b) the property's own check and its neighbours, for the third to ninth waves (suffixes c, d, e, f, g, h, i) the property's own check
(`seeded/RESULTS.json` records which).

| seeded change | property | change | needs | first run | strengthened | caught by (quick, seed 1) |
|---|---|---|---|---|---|---|
'''
txt=hdr+'\n'.join(rows)+'\n\n'+notes.get('_summary','')+'\n'
p='/verif/DESIGN.md'
s=open(p).read()
a=s.index('<!-- SEEDED:BEGIN -->')+len('<!-- SEEDED:BEGIN -->')
b=s.index('<!-- SEEDED:END -->')
open(p,'w').write(s[:a]+'\n'+txt+s[b:])
print(len(rows),'rows')

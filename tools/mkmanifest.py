#!/usr/bin/env python3
"""Writes /verif/MANIFEST.json from the table below (single source of truth for claims)."""
import json
props=[json.loads(l)['id'] for l in open('/verif/properties.jsonl')]
TECH={
 "C12":"rapid property-based fault injection at the plugin boundary (rule x placement enumeration, shrinking)",
 "C14":"rapid differential testing: go-http vs go-client output bytes; server-only vs client-only package behaviour on one value stream",
 "C15":"rapid metamorphic testing of plugin output (reruns, request variations) with byte-equality oracle",
 "C16":"rapid generation of degenerate descriptor graphs, bounded-time/memory process oracle",
}
TECH.update({
 "C01":"rapid property-based testing of emitted code: generated Go client against generated Go server over generated schemas and values, round-trip oracle",
 "C04":"rapid property-based testing of emitted codecs: round-trip and reference-model (contract form) oracles over generated schemas and values",
 "C05":"rapid model-based testing: server wire JSON vs an independent executable model of the documented mapping, both directions",
 "C13":"rapid generation of schemas in a compile matrix; oracle = go build + go vet on emitted packages, Node type-stripping import of emitted TypeScript; IR-level shrinking",
})
TECH["C02"]="rapid property-based testing of the emitted Go server and of the emitted TypeScript server (in Node) with raw HTTP requests; oracle = independent reference request binder (URL + body -> expected message or 400)"
TECH["C09"]="rapid property-based testing of the emitted Go server and of the emitted TypeScript server (in Node) with raw HTTP: header value sets vs an independent reference header validator and merge semantics"
TECH["C10"]="rapid property-based testing through the generated Go client (error source x error hook x content type), of the emitted TypeScript client with canned replies, of the emitted TypeScript server's error surface over raw HTTP, and of URL-binding violations with raw HTTP, against the documented error contract"
TECH["C11"]="rapid structure-aware mutation fuzzing of request bodies against the emitted Go server, of responses against the emitted Go and TypeScript clients, and body-read faults; oracles: clean 200/400, no dispatch of undecodable bodies, no panic/hang"
TECH["C17"]="rapid-generated call multisets executed concurrently under the race detector; oracle = race report + per-call equality with isolated execution"
TECH["C20"]="rapid property-based testing of the emitted mock server: build/vet oracle plus response decode/example-membership oracles"
TECH["C18"]="rapid property-based testing of emitted OpenAPI documents: independent YAML/JSON parsers, structural invariants, YAML-vs-JSON metamorphic equality"
TECH["C19"]="rapid differential testing of two acceptance sets: reference buf.validate rule semantics vs Python jsonschema (2020-12) on boundary probes"
TECH["C06"]="rapid property-based testing of emitted client/server traffic against the emitted OpenAPI document; oracle = Python jsonschema (2020-12) + undeclared-property walker"
TECH["C03"]="rapid differential testing across the five generators' artefacts: concrete request lines of Go/TS clients, Go server routing, TS RouteDescriptors and OpenAPI operations must agree"
TECH["C07"]="rapid property-based testing of wire values against the emitted TypeScript declarations with a structural inhabitation checker (no tsc offline)"
TECH["C08"]="rapid property-based testing of cross-language calls: emitted TypeScript executed in Node 22 against emitted Go over loopback HTTP, round-trip oracle"
TEXT={
 "C12":("Generated-input search: every rule x placement cell of the documented catalogue is injected into rapid-drawn valid schemas and judged at the process boundary of the real plugins; the converse is checked on every base schema. Exploration, not proof: cells are enumerated, surroundings sampled.","§5 C12"),
 "C14":("Differential property test over rapid-drawn schemas: byte identity of same-named files, plus behavioural equality of server-only and client-only builds on generated values. Exploration.","§5 C14"),
 "C15":("Metamorphic property test: the same schema is generated under rerun / GOMAXPROCS / extra files / multi-package (incl. a neighbour package with the same service and header names) / permuted order / each file alone vs all files together / parameter spelling variations, outputs must be byte-identical, and no output file may come from two different single-file runs (a merely imported file contributes no output). Map-order nondeterminism is sampled with fresh processes. Exploration.","§5 C15"),
 "C16":("One descriptor set in four is an ordinary fully annotated schema, the others are generated degenerate descriptor sets (cycles, depth, width, long names, WKTs, empty services, missing go_package, odd identifiers; one in two with a misused annotation, also on RPC body messages) x parameters incl. malformed strings; each plugin process must answer within 20 s / 2 GiB without panic. Bounded observation of termination, not a liveness proof.","§5 C16"),
}
TEXT.update({
 "C01":("Batches of rapid-drawn schemas are compiled and linked with a generic engine; for every RPC rapid draws request/response values (reserved URL characters, extremes, presence states) and a content type, the generated client calls the generated server, and request/response equality is checked. Exploration with shrinking of values; schemas are sampled.","§5 C01"),
 "C04":("For every message type of rapid-drawn schemas the emitted MarshalJSON/UnmarshalJSON (or protojson, as dispatched by the generated code) must round-trip drawn values and accept the reference model's contract form. Exploration.","§5 C04"),
 "C05":("The generated server is driven over HTTP with model-encoded bodies; handler-visible requests and response bodies are compared tree-by-tree with the reference model M. Exploration over schemas x values; M is an independent implementation of the documented mapping.","§5 C05, Appendix A"),
 "C13":("Every emitted package (go-http only, go-client only, both; with and without mock) is built and vetted with the analyzers go test runs; every emitted .ts module is imported in Node 22. Exploration over a compile matrix of annotation x cardinality x naming, half of the schemas being minimal single-construct files (what a rich file masks), with free-text values containing quotes, backslashes and line breaks.","§5 C13"),
})
TEXT["C02"]=("For every RPC with URL-bound fields rapid draws request lines (valid / invalid / grey URL values per kind, encodings, missing parameters) x bodies x content types; the handler-visible request or the 400 ValidationError is compared with a reference binder written from the documented contract. Exploration with value shrinking.","§5 C02")
TEXT["C09"]=("For every RPC with declared headers rapid draws header value sets (absent, empty, must-accept, must-reject, grey per type/format) and body validity; dispatch / 400-with-one-violation-per-offender is judged by a reference validator H; one request in five is written from the published OpenAPI header parameters alone and must be dispatched. Exploration with shrinking.","§5 C09")
TEXT["C10"]=("rapid draws an error source, a hook behaviour and a content type per call; status, headers, body (decoded in the request's content type) and the Go client's error value are compared with the documented contract; violation paths come from running the reference validator on the same request (field- and message-level rules); the TypeScript server is driven with handler errors, handler ValidationErrors, missing headers and an onError hook; for a ValidationError wrapped by the handler status and body must tell the same story. Exploration.","§5 C10")
TEXT["C11"]=("Valid model-encoded bodies are mutated (wrong type per field at depth, truncation, trailing data, top-level scalars, deep nesting, invalid UTF-8, duplicate keys, random and truncated wire data) under many content types; server verdicts must be 200 or a well-formed 400 and invalid-in-every-form bodies are never dispatched. The Go client is fed arbitrary status/content-type/body combinations. Exploration; bytes-level coverage guidance is not used.","§5 C11")
TEXT["C17"]=("Random multisets of 10-80 calls over all routes run at parallelism 1-32 through shared generated clients and one shared generated server in a -race build; each call's result is compared with the same call issued alone, no call may be rejected over a header its route does not declare, and the first case of every package runs its concurrent phase first (cold start); a second group runs the emitted mock implementation behind the generated server under concurrent calls (status as alone, no race report). Schedules are sampled, not enumerated: the weakest claim of the set.","§5 C17")
TEXT["C20"]=("Schemas are generated with generate_mock=true; the package must build and vet, the mock-backed generated server must answer valid requests with 200 and a body that decodes to the response type in its documented JSON form, and fields with examples must hold a parsable example. Exploration on the sub-domain the mock generator compiles for; the rest is pinned as known findings.","§5 C20")
TEXT["C18"]=("Every emitted document of rapid-drawn schemas is parsed with parsers the plugin does not use and checked for the listed structural invariants under all four format settings; YAML and JSON renderings are compared as trees. Exploration.","§5 C18")
TEXT["C19"]=("For each rule-carrying field probes at and around every bound are encoded with the reference model and judged both by the reference rule semantics and by jsonschema against the published property schema; any disagreement is a violation. Exploration with boundary-directed probes.","§5 C19")
TEXT["C06"]=("Request bodies sent by the generated Go client, response bodies of the generated Go server (200 / 400 incl. requests refused by their buf.validate rules / default) and the path, query and header values as sent are validated with jsonschema against the schemas the service's OpenAPI document publishes for that operation, and walked for properties no subschema describes; the default value of every request/response type must satisfy its component schema. Exploration.","§5 C06")
TEXT["C03"]=("For rapid-drawn route shapes (incl. several verbs on one template, paths without leading or with trailing slash, optional path fields) every RPC is exercised with all URL-bound fields non-default and path text with URL-reserved characters; the Go client's and the TS client's concrete request lines, the Go server's routing decision and the URL-carried field values its handler sees, the TS server's route table and the OpenAPI operation are compared pairwise. Exploration.","§5 C03")
TEXT["C07"]=("Values captured from the generated Go server, contract-form requests and the arguments the generated TS server hands to handlers are checked for structural membership in the types the emitted .ts files declare (parsed by a reader of the emitted subset); ts-client and ts-server declarations are compared. Exploration; type-checking proper is impossible offline.","§5 C07")
TEXT["C08"]=("The emitted .ts modules are imported in Node 22 and driven through a long-lived driver: TS client -> Go server, Go client -> TS server and TS client -> TS server calls over loopback HTTP with drawn requests, responses and header options must deliver request and response unchanged; everything the caller hands to the TS client is deep-frozen. Exploration.","§5 C08")
NOTE={
 "C12":"Trusted: schema generator + protodesc gate stand in for protoc; error text naming the offender is the 'names the offender' criterion.",
 "C14":"Trusted: protoc-gen-go, Go toolchain, protovalidate stand-in (not exercised by codecs).",
 "C15":"Trusted: process isolation gives fresh map seeds; only documented-equivalent parameter spellings compared.",
 "C16":"Trusted: rusage peak RSS and wall-clock bound; descriptor well-formedness via generator + protodesc gate.",
}
NOTE.update({
 "C01":"Trusted: in-memory RoundTripper re-parsing the request line like a server; protovalidate stand-in; protoc-gen-go; net/http.",
 "C04":"Trusted: reference model M (documentation-derived), protojson for the un-annotated base mapping, protovalidate stand-in (not exercised).",
 "C05":"Trusted: reference model M; in-memory HTTP; undocumented cases are skipped and counted, never guessed.",
 "C13":"Trusted: Go toolchain; Node 22 type stripping detects syntax/load errors only (no tsc offline); stand-in protovalidate has the real API surface used by emitted code.",
})
NOTE["C02"]="Trusted: reference binder B judges only clearly valid / clearly invalid URL spellings; in-memory HTTP; TS server half is exercised by C08's Node runs, not here."
NOTE["C09"]="Trusted: must-accept/must-reject sets derived from RFC 4122 / RFC 3339 / sebuf docs; grey values not judged; TS server half exercised in C08."
NOTE["C10"]="Trusted: stand-in protovalidate (standard-rule subset) produces the rule violations on both sides; wrapped errors are judged as plain errors (they are not themselves protobuf messages); TS client half exercised in C08."
NOTE["C11"]="Trusted: reference model for the valid body, encoding/json + protojson grammar knowledge for 'invalid in every accepted form'; timing bound is 100x median and >= 2 s, re-checked before it counts."
NOTE["C17"]="Trusted: Go race detector; the harness does not own the scheduler; in-memory transport."
NOTE["C20"]="Trusted: as C13 for the build half; OpenAPI conformance of mock bodies is left to C06's validator."
NOTE["C18"]="Trusted: go.yaml.in/yaml/v4 and encoding/json as independent parsers; descriptor-derived reachability; libopenapi's own model builder is not used as a second opinion (it is the library under test's dependency)."
NOTE["C19"]="Trusted: Python jsonschema Draft 2020-12; the stand-in validator as R; float32 values equal to a bound are not probed (decimal shortest form is ambiguous at the boundary)."
NOTE["C06"]="Trusted: Python jsonschema, independent OpenAPI parsing, reference model for the default-value converse; format keywords are annotations."
NOTE["C03"]="Trusted: Node 22 type stripping to run the TS client and build the TS route table; independent OpenAPI parsing; agreement judged on concrete requests."
NOTE["C07"]="Trusted: the declaration reader (unit-tested on the emitted subset); structural typing only; unreadable declarations give exit 2."
NOTE["C08"]="Trusted: Node 22 fetch/http, 20-line template dispatcher in /verif/node/driver.mjs standing in for a user's router; values limited to what JavaScript numbers can carry."
claimed=sorted(TECH)
checks=[]
for p in claimed:
    checks.append({"property_id":p,"quick_cmd":f"./run {p} quick","thorough_cmd":f"./run {p} thorough","evidence_file":f"/verif/evidence/{p}.json",
      "replay_cmd_template":f"./run {p} --replay {{path}}","engine":"harness","level_claimed":{"category":"exploration","text":TEXT[p][0],"design_ref":TEXT[p][1]},
      "level_note":NOTE[p],"technique":TECH[p]})
m={"version":1,
 "setup_cmd":"./setup.sh",
 "hooks":{"guard":"verif","enable":"no source hooks are needed: every observation point is reachable at the plugin process boundary, through emitted code, HTTP or emitted files","baseline_off_cmd":"/verif/tools/baseline_check.sh","source_commits":[],"add_only":True},
 "engines":[{"name":"harness","path":"/verif/harness","serves_properties":claimed,"kind_free_text":"Go module: rapid v1.3.0 schema/value generators, plugin runner, workspace builder, inner engine linked into generated code, oracles"}],
 "checks":checks,
 "notes":"Known findings and fixed defects are listed in /verif/known_findings.jsonl; pinned replays under /verif/replays.",
 "not_applicable":[{"property_id":p,"reason":"check not built yet"} for p in props if p not in claimed]}
json.dump(m,open('/verif/MANIFEST.json','w'),indent=1)
print("claimed",claimed)
